import QuicModel.Data.AckRanges
/-
  `AckManager` of quic/s2n-quic-transport/src/ack/ack_manager.rs together with
  `AckTransmissionState` (ack/ack_transmission_state.rs), `ack::transmission::{Set, Transmission}`
  (s2n-quic-core/src/ack/transmission.rs), `ack::Settings` (s2n-quic-core/src/ack/settings.rs), the
  `Timer` it uses (s2n-quic-core/src/time/timer.rs, `Timestamp::has_elapsed`) and the
  `transmission::{Constraint, Mode}` predicates it consults.

  Transcribed functions (control flow statement by statement):
    AckTransmissionState::{is_active, should_transmit, activate, on_update, on_transmit}
                                                   -> `TxState.*`
    transmission::Set::{on_transmit, on_update}, Transmission::ack_range   -> `TxSet.*`
    Timer::{set, cancel, is_armed, is_expired, poll_expiration}            -> `Option Nat` + `timerExpired`
    AckManager::new                                -> `init`
    AckManager::on_transmit                        -> `onTransmit`        (does not change the state)
    AckManager::on_transmit_complete               -> `onTransmitComplete`
    AckManager::on_packet_ack / on_packet_loss     -> `onPacketAck` / `onPacketLoss`
    AckManager::on_processed_packet                -> `onProcessedPacket`
    AckManager::on_timeout                         -> `onTimeout`
    AckManager::ack_delay                          -> `ackDelay`
    transmission::application::Normal::on_transmit (the ack-manager part:
      `did_send_ack = on_transmit(ctx)` … `if did_send_ack { on_transmit_complete(ctx) }`)
                                                   -> `Op.transmit` in `step`

  Encoding decisions:
    * packet numbers, timestamps (µs) and durations (µs) are `Nat`; `Timestamp + Duration` overflow is
      not modelled. `PacketNumber::next()` returns `None` at 2^62 - 1 (`pnMax`): transcribed.
    * `Counter<u8, Saturating>` is a `Nat` incremented by `satInc` (saturates at 255).
    * the two `.expect(..)` sites (`on_transmit_complete`: `ack_ranges.max_value()`;
      `on_packet_ack`: `ack_ranges.remove(..)`) are `none` results; `QuicProofs.Props.C08AckManager.
      ackmgr_no_panic` shows they are unreachable. The `debug_assert!` in `on_transmit_complete`
      (`should_transmit` still holds) is the `Op.transmit` composition itself.
    * what the `WriteContext` contributes is an input of the op: the constraint, the mode, the current
      time, the packet number of the packet being assembled, whether the ACK frame fits
      (`write_ack_frame(..).is_some()`), the packet's ack elicitation when `on_transmit_complete` runs and
      whether a PING frame fits. The theorems hold for every choice.
    * events (`on_rx_ack_range_dropped`, `on_ack_processed`) are the `Outcome` returned by
      `onProcessedPacket`.
  The `ack_eliciting_transmissions` set really is the two-slot `Set { stable, latest }`, not a list.
-/
namespace Quic.Conn.AckManager
open Quic.Data.IvSet
open Quic.Data

/-- largest packet number (`VarInt::MAX` = 2^62 - 1) -/
def pnMax : Nat := 4611686018427387903

-- ---------------------------------------------------------------------------------------------
-- transmission::{Constraint, Mode}

inductive Constraint where
  | none | retransmissionOnly | congestionLimited | amplificationLimited
  deriving Repr, DecidableEq

def Constraint.canTransmit : Constraint → Bool
  | .none => true
  | _ => false

/-- `self.can_transmit() || self.is_retransmission_only()` -/
def Constraint.canRetransmit (c : Constraint) : Bool :=
  c.canTransmit || (match c with | .retransmissionOnly => true | _ => false)

inductive Mode where
  | lossRecoveryProbing | mtuProbing | pathValidationOnly | normal
  deriving Repr, DecidableEq

def Mode.isNormal : Mode → Bool
  | .normal => true
  | _ => false

-- ---------------------------------------------------------------------------------------------
-- AckTransmissionState

inductive TxState where
  | disabled
  | passive (retransmissions : Nat)
  | active (retransmissions : Nat)
  deriving Repr, DecidableEq

def TxState.isActive : TxState → Bool
  | .active _ => true
  | _ => false

/-- `should_transmit`: the match arms in source order -/
def TxState.shouldTransmit (st : TxState) (c : Constraint) (m : Mode) (hasRanges : Bool) : Bool :=
  if !hasRanges then false
  else if !m.isNormal then true
  else
    match st with
    | .disabled => false
    | .passive _ => c.canTransmit || c.canRetransmit
    | .active _ => true

/-- `activate`: `Passive{n}` becomes `Active{n}`, everything else stays -/
def TxState.activate : TxState → TxState
  | .passive r => .active r
  | st => st

def intervalScale : Nat := 2
def rangeScale : Nat := 10
def maxRetransmissions : Nat := 10

/-- the retransmission budget of `on_update`:
    `(interval_len / INTERVAL_SCALE + spread / RANGE_SCALE).min(MAX_RETRANSMISSIONS)` -/
def newRetransmissions (r : IvSet) : Nat :=
  min (r.intervalLen / intervalScale + AckRanges.spread r / rangeScale) maxRetransmissions

/-- `on_update(&ack_ranges)` -/
def TxState.onUpdate (st : TxState) (r : IvSet) : TxState :=
  if r.isEmpty then .disabled
  else
    let n := newRetransmissions r
    match st with
    | .active _ => .active n
    | .passive _ => .passive n
    | .disabled => .passive n

/-- `on_transmit(has_ranges)`: `retransmissions.checked_sub(1)` -/
def TxState.onTransmit : TxState → TxState
  | .active r | .passive r => if 1 ≤ r then .passive (r - 1) else .disabled
  | .disabled => .disabled

-- ---------------------------------------------------------------------------------------------
-- ack::transmission

structure Transmission where
  sentInPacket : Nat
  largestReceivedAcked : Nat
  deriving Repr, DecidableEq

/-- an `ack::Set` argument: a list of inclusive ranges (every caller passes one `PacketNumberRange`) -/
abbrev AckSet := List Interval

def AckSet.contains (a : AckSet) (pn : Nat) : Bool := a.any (fun r => decide (r.lo ≤ pn) && decide (pn ≤ r.hi))

/-- `Transmission::ack_range`: `pn_zero ..= largest_received_packet_number_acked` when the packet
    that carried the ACK frame is in the set -/
def Transmission.ackRange (t : Transmission) (a : AckSet) : Option Interval :=
  if a.contains t.sentInPacket then some ⟨0, t.largestReceivedAcked⟩ else none

structure TxSet where
  stable : Option Transmission
  latest : Option Transmission
  deriving Repr, DecidableEq

def TxSet.empty : TxSet := ⟨none, none⟩

/-- `Set::on_transmit` -/
def TxSet.onTransmit (s : TxSet) (t : Transmission) : TxSet :=
  { latest := some t, stable := if s.stable.isNone then some t else s.stable }

/-- `Set::on_update`: the latest transmission is tried first -/
def TxSet.onUpdate (s : TxSet) (a : AckSet) : TxSet × Option Interval :=
  match s.latest.bind (fun t => t.ackRange a) with
  | some r => (⟨none, none⟩, some r)
  | none =>
    match s.stable.bind (fun t => t.ackRange a) with
    | some r => ({ s with stable := s.latest }, some r)
    | none => (s, none)

-- ---------------------------------------------------------------------------------------------
-- Timer / Timestamp

/-- `K_GRANULARITY` in µs -/
def granularityUs : Nat := 1000

/-- `Timer::is_expired(now)` = `expiration.has_elapsed(now)` = `expiration < now + K_GRANULARITY` -/
def timerExpired (timer : Option Nat) (now : Nat) : Bool :=
  match timer with
  | some t => decide (t < now + granularityUs)
  | none => false

-- ---------------------------------------------------------------------------------------------
-- Settings and state

structure Settings where
  /-- `max_ack_delay` in µs -/
  maxAckDelay : Nat
  ackDelayExponent : Nat
  ackElicitationInterval : Nat
  ackRangesLimit : Nat
  deriving Repr, DecidableEq

/-- `Settings::RECOMMENDED` -/
def Settings.recommended : Settings := ⟨25000, 3, 4, 10⟩
/-- `Settings::EARLY` (Initial and Handshake spaces) -/
def Settings.early : Settings := { Settings.recommended with maxAckDelay := 0, ackDelayExponent := 0 }

/-- `Settings::encode_ack_delay`: `(micros / 2^exponent).try_into().unwrap_or(VarInt::MAX)` -/
def Settings.encodeAckDelay (c : Settings) (micros : Nat) : Nat := min (micros / 2 ^ c.ackDelayExponent) pnMax

inductive Ecn where
  | notEct | ect1 | ect0 | ce
  deriving Repr, DecidableEq

structure EcnCounts where
  ect0 : Nat
  ect1 : Nat
  ce : Nat
  deriving Repr, DecidableEq

def satVarInt (x : Nat) : Nat := if x < pnMax then x + 1 else pnMax

/-- `EcnCounts::increment` (`saturating_add`) -/
def EcnCounts.increment (e : EcnCounts) : Ecn → EcnCounts
  | .ect0 => { e with ect0 := satVarInt e.ect0 }
  | .ect1 => { e with ect1 := satVarInt e.ect1 }
  | .ce => { e with ce := satVarInt e.ce }
  | .notEct => e

/-- `EcnCounts::as_option` -/
def EcnCounts.asOption (e : EcnCounts) : Option EcnCounts := if e = ⟨0, 0, 0⟩ then none else some e

/-- `Counter<u8, Saturating> += 1` -/
def satInc (x : Nat) : Nat := if x < 255 then x + 1 else 255

structure State where
  ackDelayTimer : Option Nat
  ackElicitingTransmissions : TxSet
  ackRanges : IvSet
  ackSettings : Settings
  largestReceivedPacketNumberAcked : Nat
  largestReceivedPacketNumberAt : Option Nat
  processedPacketsSinceTransmission : Nat
  transmissionsSinceElicitation : Nat
  transmissionState : TxState
  ecnCounts : EcnCounts
  deriving Repr, DecidableEq

/-- `AckManager::new(space, ack_settings)` (`Ranges::new` panics on a zero limit) -/
def init (c : Settings) : State :=
  { ackDelayTimer := none
    ackElicitingTransmissions := TxSet.empty
    ackRanges := Quic.Data.AckRanges.new c.ackRangesLimit
    ackSettings := c
    largestReceivedPacketNumberAcked := 0
    largestReceivedPacketNumberAt := none
    processedPacketsSinceTransmission := 0
    transmissionsSinceElicitation := 0
    transmissionState := .disabled
    ecnCounts := ⟨0, 0, 0⟩ }

/-- the ACK frame handed to `write_ack_frame`: `ack_ranges` iterated DESCENDING -/
structure AckFrame where
  ackDelay : Nat
  ranges : List Interval
  ecnCounts : Option EcnCounts
  deriving Repr, DecidableEq

/-- `ack_delay(now)`: `now.saturating_duration_since(prev)` or 0, encoded -/
def ackDelay (s : State) (now : Nat) : Nat :=
  s.ackSettings.encodeAckDelay (match s.largestReceivedPacketNumberAt with | some prev => now - prev | none => 0)

/-- `on_transmit(context)`: `Some frame` iff it returns `true` (the frame was written). `fits` is the
    result of `context.write_ack_frame(..).is_some()`. The state is not modified. -/
def onTransmit (s : State) (c : Constraint) (m : Mode) (now : Nat) (fits : Bool) : Option AckFrame :=
  let hasRanges := !s.ackRanges.isEmpty
  if !s.transmissionState.shouldTransmit c m hasRanges then none
  else if fits then some ⟨ackDelay s now, AckRanges.ackRanges s.ackRanges, s.ecnCounts.asOption⟩
  else none

/-- the PING decision of `on_transmit_complete` (only evaluated when the packet is not yet
    ack-eliciting): `(can_transmit || can_retransmit) && transmissions_since_elicitation >=
    ack_elicitation_interval && context.write_frame(&Ping).is_some()` -/
def writesPing (s : State) (c : Constraint) (ctxAckEliciting pingFits : Bool) : Bool :=
  !ctxAckEliciting && ((c.canTransmit || c.canRetransmit) &&
    decide (s.transmissionsSinceElicitation ≥ s.ackSettings.ackElicitationInterval) && pingFits)

/-- `on_transmit_complete(context)`; `none` = the `.expect(..)` on `ack_ranges.max_value()` panics.
    `ctxAckEliciting` = `context.ack_elicitation().is_ack_eliciting()`, `pingFits` =
    `context.write_frame(&Ping).is_some()`. Second component: a PING frame was written.
    Statement order of the Rust function: cancel the timer; decide the PING (`is_ack_eliciting`), else
    `transmissions_since_elicitation += 1`; `largest_received_packet_number_acked = max_value()`;
    if ack-eliciting reset the counter and record the transmission; `transmission_state.on_transmit`;
    `processed_packets_since_transmission = 0`. Every field is written at most once per path, so the
    sequence is one record update. -/
def onTransmitComplete (s : State) (c : Constraint) (ownPn : Nat) (ctxAckEliciting pingFits : Bool) : Option (State × Bool) :=
  match s.ackRanges.maxValue with
  | none => none
  | some mx =>
    let ping := writesPing s c ctxAckEliciting pingFits
    let isAckEliciting := ctxAckEliciting || ping
    some ({ s with
      ackDelayTimer := none
      transmissionsSinceElicitation := if isAckEliciting then 0 else satInc s.transmissionsSinceElicitation
      largestReceivedPacketNumberAcked := mx
      ackElicitingTransmissions :=
        if isAckEliciting then s.ackElicitingTransmissions.onTransmit ⟨ownPn, mx⟩ else s.ackElicitingTransmissions
      transmissionState := s.transmissionState.onTransmit
      processedPacketsSinceTransmission := 0 }, ping)

/-- `on_packet_ack(_, ack_set)`; `none` = `.expect("The range should always shrink the interval length")`.
    `transmission_state` is deliberately NOT notified ("will be automatically notified in
    `on_processed_packet`"). -/
def onPacketAck (s : State) (a : AckSet) : Option State :=
  match (s.ackElicitingTransmissions.onUpdate a).2 with
  | some r =>
    match (s.ackRanges.remove r).2 with
    | .ok _ => some { s with ackElicitingTransmissions := (s.ackElicitingTransmissions.onUpdate a).1
                             ackRanges := (s.ackRanges.remove r).1 }
    | .error _ => none
  | none => some { s with ackElicitingTransmissions := (s.ackElicitingTransmissions.onUpdate a).1 }

/-- `on_packet_loss(ack_set)`: `on_update(&ack_ranges)` then `activate()` when one of the recorded
    transmissions is in the set -/
def onPacketLoss (s : State) (a : AckSet) : State :=
  match (s.ackElicitingTransmissions.onUpdate a).2 with
  | some _ =>
    { s with ackElicitingTransmissions := (s.ackElicitingTransmissions.onUpdate a).1
             transmissionState := (s.transmissionState.onUpdate s.ackRanges).activate }
  | none => { s with ackElicitingTransmissions := (s.ackElicitingTransmissions.onUpdate a).1 }

/-- the part of `ProcessedPacket` the ack manager reads -/
structure Processed where
  pn : Nat
  ackEliciting : Bool
  ecn : Ecn
  pathChallengeOnActivePath : Bool
  /-- `datagram.timestamp` -/
  now : Nat
  deriving Repr, DecidableEq

def packetTolerance : Nat := 10

/-- the `(is_ordered, is_largest)` computation at the top of `on_processed_packet` -/
def orderedLargest (r : IvSet) (pn : Nat) : Bool × Bool :=
  match r.maxValue with
  | some mx =>
    -- `max_value.next()?`
    if mx < pnMax then (decide (pn = mx + 1), decide (pn > mx)) else (true, true)
  | none => (true, true)

/-- `should_activate` for an ack-eliciting packet -/
def shouldActivate (isOrdered isLargest : Bool) (p : Processed) (processedSince : Nat) : Bool :=
  !isLargest || !isOrdered || (p.ecn == .ce) || decide (processedSince ≥ packetTolerance) || p.pathChallengeOnActivePath

/-- `on_timeout(timestamp)`: `if self.ack_delay_timer.poll_expiration(timestamp).is_ready()` -/
def onTimeout (s : State) (now : Nat) : State :=
  if timerExpired s.ackDelayTimer now then
    { s with ackDelayTimer := none, transmissionState := s.transmissionState.activate }
  else s

/-- `on_processed_packet`, first part: `insert_packet_number` (the result is kept whatever it
    reports), `ecn_counts.increment`, `transmission_state.on_update(&ack_ranges)`,
    `processed_packets_since_transmission += 1`, `if is_largest { largest_received_packet_number_at = now }` -/
def procInsert (s : State) (p : Processed) : State :=
  { s with
    ackRanges := (AckRanges.insertPn s.ackRanges p.pn).1
    ecnCounts := s.ecnCounts.increment p.ecn
    transmissionState := s.transmissionState.onUpdate (AckRanges.insertPn s.ackRanges p.pn).1
    processedPacketsSinceTransmission := satInc s.processedPacketsSinceTransmission
    largestReceivedPacketNumberAt :=
      if (orderedLargest s.ackRanges p.pn).2 then some p.now else s.largestReceivedPacketNumberAt }

/-- second part: `if processed_packet.is_ack_eliciting() { … activate / arm the delay timer … }` -/
def procSchedule (s : State) (p : Processed) (isOrdered isLargest : Bool) : State :=
  if p.ackEliciting then
    if shouldActivate isOrdered isLargest p s.processedPacketsSinceTransmission then
      { s with transmissionState := s.transmissionState.activate }
    else if s.ackDelayTimer.isNone then
      { s with ackDelayTimer := some (p.now + s.ackSettings.maxAckDelay) }
    else s
  else s

/-- `on_processed_packet`; `(is_ordered, is_largest)` are computed BEFORE the insert; the last
    statement (`if self.ack_delay_timer.poll_expiration(now).is_ready() { activate }`) is `onTimeout`.
    The `Outcome` is what `insert_packet_number` reported (events). -/
def onProcessedPacket (s : State) (p : Processed) : State × AckRanges.Outcome :=
  (onTimeout (procSchedule (procInsert s p) p (orderedLargest s.ackRanges p.pn).1 (orderedLargest s.ackRanges p.pn).2) p.now,
   (AckRanges.insertPn s.ackRanges p.pn).2)

/-- `transmission_interest`: forced while `Active` -/
def forcedInterest (s : State) : Bool := s.transmissionState.isActive

-- ---------------------------------------------------------------------------------------------
-- operation histories

inductive Op where
  | processed (p : Processed)
  /-- one `Normal::on_transmit`: `on_transmit`, and `on_transmit_complete` iff it returned `true` -/
  | transmit (c : Constraint) (m : Mode) (now ownPn : Nat) (fits ctxAckEliciting pingFits : Bool)
  | packetAck (a : AckSet)
  | packetLoss (a : AckSet)
  | timeout (now : Nat)
  deriving Repr, DecidableEq

inductive Out where
  | none
  /-- the ACK frame that was written (+ whether the ack manager added a PING) -/
  | frame (f : AckFrame) (ping : Bool)
  /-- what `insert_packet_number` reported -/
  | inserted (o : AckRanges.Outcome)
  deriving Repr, DecidableEq

/-- `Normal::on_transmit`: `did_send_ack = on_transmit(ctx)`; `if did_send_ack { on_transmit_complete(ctx) }` -/
def transmit (s : State) (c : Constraint) (m : Mode) (now ownPn : Nat) (fits ae pingFits : Bool) : Option (State × Out) :=
  match onTransmit s c m now fits with
  | some f =>
    match onTransmitComplete s c ownPn ae pingFits with
    | some r => some (r.1, .frame f r.2)
    | none => none
  | none => some (s, .none)

/-- one operation; `none` = one of the two `.expect(..)` panics -/
def step (s : State) : Op → Option (State × Out)
  | .processed p => some ((onProcessedPacket s p).1, .inserted (onProcessedPacket s p).2)
  | .transmit c m now ownPn fits ae pingFits => transmit s c m now ownPn fits ae pingFits
  | .packetAck a =>
    match onPacketAck s a with
    | some s' => some (s', .none)
    | none => none
  | .packetLoss a => some (onPacketLoss s a, .none)
  | .timeout now => some (onTimeout s now, .none)

/-- a whole history; the outputs in operation order -/
def run (s : State) : List Op → Option (State × List Out)
  | [] => some (s, [])
  | op :: rest =>
    match step s op with
    | some (s', o) =>
      match run s' rest with
      | some (s'', os) => some (s'', o :: os)
      | none => none
    | none => none

end Quic.Conn.AckManager
