import QuicModel.Data.AckRanges
/-
  `AckManager` of quic/s2n-quic-transport/src/ack/ack_manager.rs together with
  `AckTransmissionState` (ack/ack_transmission_state.rs), `ack::transmission::{Set, Transmission}`
  (s2n-quic-core/src/ack/transmission.rs), `ack::Settings` (s2n-quic-core/src/ack/settings.rs), the
  `Timer` it uses (s2n-quic-core/src/time/timer.rs, `Timestamp::has_elapsed`) and the
  `transmission::{Constraint, Mode}` predicates it consults.

  Transcribed functions (control flow statement by statement):
    AckTransmissionState::{is_active, should_transmit, activate, on_update, on_transmit}
                                                   -> `TxState.*`
    transmission::Set::{on_transmit, on_update}, Transmission::ack_range   -> `TxSet.*`
    Timer::{set, cancel, is_armed, is_expired, poll_expiration}            -> `Option Nat` + `timerExpired`
    AckManager::new                                -> `init`
    AckManager::on_transmit                        -> `onTransmit`        (does not change the state)
    AckManager::on_transmit_complete               -> `onTransmitComplete`
    AckManager::on_packet_ack / on_packet_loss     -> `onPacketAck` / `onPacketLoss`
    AckManager::on_processed_packet                -> `onProcessedPacket`
    AckManager::on_timeout                         -> `onTimeout`
    AckManager::ack_delay                          -> `ackDelay`
    transmission::application::Normal::on_transmit (the ack-manager part:
      `did_send_ack = on_transmit(ctx)` … `if did_send_ack { on_transmit_complete(ctx) }`)
                                                   -> `Op.transmit` in `step`

  Encoding decisions:
    * packet numbers, timestamps (µs) and durations (µs) are `Nat`; `Timestamp + Duration` overflow is
      not modelled. `PacketNumber::next()` returns `None` at 2^62 - 1 (`pnMax`): transcribed.
    * `Counter<u8, Saturating>` is a `Nat` incremented by `satInc` (saturates at 255).
    * the two `.expect(..)` sites (`on_transmit_complete`: `ack_ranges.max_value()`;
      `on_packet_ack`: `ack_ranges.remove(..)`) are `none` results; `QuicProofs.Props.C08AckManager.
      ackmgr_no_panic` shows they are unreachable. The `debug_assert!` in `on_transmit_complete`
      (`should_transmit` still holds) is the `Op.transmit` composition itself.
    * what the `WriteContext` contributes is an input of the op: the constraint, the mode, the current
      time, the packet number of the packet being assembled, whether the ACK frame fits
      (`write_ack_frame(..).is_some()`), the packet's ack elicitation when `on_transmit_complete` runs and
      whether a PING frame fits. The theorems hold for every choice.
    * events (`on_rx_ack_range_dropped`, `on_ack_processed`) are the `Outcome` returned by
      `onProcessedPacket`.
  The `ack_eliciting_transmissions` set really is the two-slot `Set { stable, latest }`, not a list.
-/
namespace Quic.Conn.AckManager
open Quic.Data.IvSet
open Quic.Data

/-- largest packet number (`VarInt::MAX` = 2^62 - 1) -/
def pnMax : Nat := 4611686018427387903

-- ---------------------------------------------------------------------------------------------
-- transmission::{Constraint, Mode}

inductive Constraint where
  | none | retransmissionOnly | congestionLimited | amplificationLimited
  deriving Repr, DecidableEq

def Constraint.canTransmit : Constraint → Bool
  | .none => true
  | _ => false

/-- `self.can_transmit() || self.is_retransmission_only()` -/
def Constraint.canRetransmit (c : Constraint) : Bool :=
  c.canTransmit || (match c with | .retransmissionOnly => true | _ => false)

inductive Mode where
  | lossRecoveryProbing | mtuProbing | pathValidationOnly | normal
  deriving Repr, DecidableEq

def Mode.isNormal : Mode → Bool
  | .normal => true
  | _ => false

-- ---------------------------------------------------------------------------------------------
-- AckTransmissionState

inductive TxState where
  | disabled
  | passive (retransmissions : Nat)
  | active (retransmissions : Nat)
  deriving Repr, DecidableEq

def TxState.isActive : TxState → Bool
  | .active _ => true
  | _ => false

/-- `should_transmit`: the match arms in source order -/
def TxState.shouldTransmit (st : TxState) (c : Constraint) (m : Mode) (hasRanges : Bool) : Bool :=
  if !hasRanges then false
  else if !m.isNormal then true
  else
    match st with
    | .disabled => false
    | .passive _ => c.canTransmit || c.canRetransmit
    | .active _ => true

/-- `activate`: `Passive{n}` becomes `Active{n}`, everything else stays -/
def TxState.activate : TxState → TxState
  | .passive r => .active r
  | st => st

def intervalScale : Nat := 2
def rangeScale : Nat := 10
def maxRetransmissions : Nat := 10

/-- the retransmission budget of `on_update`:
    `(interval_len / INTERVAL_SCALE + spread / RANGE_SCALE).min(MAX_RETRANSMISSIONS)` -/
def newRetransmissions (r : IvSet) : Nat :=
  min (r.intervalLen / intervalScale + AckRanges.spread r / rangeScale) maxRetransmissions

/-- `on_update(&ack_ranges)` -/
def TxState.onUpdate (st : TxState) (r : IvSet) : TxState :=
  if r.isEmpty then .disabled
  else
    let n := newRetransmissions r
    match st with
    | .active _ => .active n
    | .passive _ => .passive n
    | .disabled => .passive n

/-- `on_transmit(has_ranges)`: `retransmissions.checked_sub(1)` -/
def TxState.onTransmit : TxState → TxState
  | .active r | .passive r => if 1 ≤ r then .passive (r - 1) else .disabled
  | .disabled => .disabled

-- ---------------------------------------------------------------------------------------------
-- ack::transmission

structure Transmission where
  sentInPacket : Nat
  largestReceivedAcked : Nat
  deriving Repr, DecidableEq

/-- an `ack::Set` argument: a list of inclusive ranges (every caller passes one `PacketNumberRange`) -/
abbrev AckSet := List Interval

def AckSet.contains (a : AckSet) (pn : Nat) : Bool := a.any (fun r => decide (r.lo ≤ pn) && decide (pn ≤ r.hi))

/-- `Transmission::ack_range`: `pn_zero ..= largest_received_packet_number_acked` when the packet
    that carried the ACK frame is in the set -/
def Transmission.ackRange (t : Transmission) (a : AckSet) : Option Interval :=
  if a.contains t.sentInPacket then some ⟨0, t.largestReceivedAcked⟩ else none

structure TxSet where
  stable : Option Transmission
  latest : Option Transmission
  deriving Repr, DecidableEq

def TxSet.empty : TxSet := ⟨none, none⟩

/-- `Set::on_transmit` -/
def TxSet.onTransmit (s : TxSet) (t : Transmission) : TxSet :=
  { latest := some t, stable := if s.stable.isNone then some t else s.stable }

/-- `Set::on_update`: the latest transmission is tried first -/
def TxSet.onUpdate (s : TxSet) (a : AckSet) : TxSet × Option Interval :=
  match s.latest.bind (fun t => t.ackRange a) with
  | some r => (⟨none, none⟩, some r)
  | none =>
    match s.stable.bind (fun t => t.ackRange a) with
    | some r => ({ s with stable := s.latest }, some r)
    | none => (s, none)

-- ---------------------------------------------------------------------------------------------
-- Timer / Timestamp

/-- `K_GRANULARITY` in µs -/
def granularityUs : Nat := 1000

/-- `Timer::is_expired(now)` = `expiration.has_elapsed(now)` = `expiration < now + K_GRANULARITY` -/
def timerExpired (timer : Option Nat) (now : Nat) : Bool :=
  match timer with
  | some t => decide (t < now + granularityUs)
  | none => false

-- ---------------------------------------------------------------------------------------------
-- Settings and state

structure Settings where
  /-- `max_ack_delay` in µs -/
  maxAckDelay : Nat
  ackDelayExponent : Nat
  ackElicitationInterval : Nat
  ackRangesLimit : Nat
  deriving Repr, DecidableEq

/-- `Settings::RECOMMENDED` -/
def Settings.recommended : Settings := ⟨25000, 3, 4, 10⟩
/-- `Settings::EARLY` (Initial and Handshake spaces) -/
def Settings.early : Settings := { Settings.recommended with maxAckDelay := 0, ackDelayExponent := 0 }

/-- `Settings::encode_ack_delay`: `(micros / 2^exponent).try_into().unwrap_or(VarInt::MAX)` -/
def Settings.encodeAckDelay (c : Settings) (micros : Nat) : Nat := min (micros / 2 ^ c.ackDelayExponent) pnMax

inductive Ecn where
  | notEct | ect1 | ect0 | ce
  deriving Repr, DecidableEq

structure EcnCounts where
  ect0 : Nat
  ect1 : Nat
  ce : Nat
  deriving Repr, DecidableEq

def satVarInt (x : Nat) : Nat := if x < pnMax then x + 1 else pnMax

/-- `EcnCounts::increment` (`saturating_add`) -/
def EcnCounts.increment (e : EcnCounts) : Ecn → EcnCounts
  | .ect0 => { e with ect0 := satVarInt e.ect0 }
  | .ect1 => { e with ect1 := satVarInt e.ect1 }
  | .ce => { e with ce := satVarInt e.ce }
  | .notEct => e

/-- `EcnCounts::as_option` -/
def EcnCounts.asOption (e : EcnCounts) : Option EcnCounts := if e = ⟨0, 0, 0⟩ then none else some e

/-- `Counter<u8, Saturating> += 1` -/
def satInc (x : Nat) : Nat := if x < 255 then x + 1 else 255

structure State where
  ackDelayTimer : Option Nat
  ackElicitingTransmissions : TxSet
  ackRanges : IvSet
  ackSettings : Settings
  largestReceivedPacketNumberAcked : Nat
  largestReceivedPacketNumberAt : Option Nat
  processedPacketsSinceTransmission : Nat
  transmissionsSinceElicitation : Nat
  transmissionState : TxState
  ecnCounts : EcnCounts
  deriving Repr, DecidableEq

/-- `AckManager::new(space, ack_settings)` (`Ranges::new` panics on a zero limit) -/
def init (c : Settings) : State :=
  { ackDelayTimer := none
    ackElicitingTransmissions := TxSet.empty
    ackRanges := Quic.Data.AckRanges.new c.ackRangesLimit
    ackSettings := c
    largestReceivedPacketNumberAcked := 0
    largestReceivedPacketNumberAt := none
    processedPacketsSinceTransmission := 0
    transmissionsSinceElicitation := 0
    transmissionState := .disabled
    ecnCounts := ⟨0, 0, 0⟩ }

/-- the ACK frame handed to `write_ack_frame`: `ack_ranges` iterated DESCENDING -/
structure AckFrame where
  ackDelay : Nat
  ranges : List Interval
  ecnCounts : Option EcnCounts
  deriving Repr, DecidableEq

/-- `ack_delay(now)`: `now.saturating_duration_since(prev)` or 0, encoded -/
def ackDelay (s : State) (now : Nat) : Nat :=
  s.ackSettings.encodeAckDelay (match s.largestReceivedPacketNumberAt with | some prev => now - prev | none => 0)

/-- `on_transmit(context)`: `Some frame` iff it returns `true` (the frame was written). `fits` is the
    result of `context.write_ack_frame(..).is_some()`. The state is not modified. -/
def onTransmit (s : State) (c : Constraint) (m : Mode) (now : Nat) (fits : Bool) : Option AckFrame :=
  let hasRanges := !s.ackRanges.isEmpty
  if !s.transmissionState.shouldTransmit c m hasRanges then none
  else if fits then some ⟨ackDelay s now, AckRanges.ackRanges s.ackRanges, s.ecnCounts.asOption⟩
  else none

/-- `on_transmit_complete(context)`; `none` = the `.expect(..)` on `ack_ranges.max_value()` panics.
    `ctxAckEliciting` = `context.ack_elicitation().is_ack_eliciting()`, `pingFits` =
    `context.write_frame(&Ping).is_some()`. Second component: a PING frame was written. -/
def onTransmitComplete (s : State) (c : Constraint) (ownPn : Nat) (ctxAckEliciting pingFits : Bool) : Option (State × Bool) :=
  -- self.ack_delay_timer.cancel()
  let s := { s with ackDelayTimer := none }
  let writePing : Bool := !ctxAckEliciting && ((c.canTransmit || c.canRetransmit) &&
      decide (s.transmissionsSinceElicitation ≥ s.ackSettings.ackElicitationInterval) && pingFits)
  let isAckEliciting := ctxAckEliciting || writePing
  let s := if !ctxAckEliciting && !writePing then
      { s with transmissionsSinceElicitation := satInc s.transmissionsSinceElicitation } else s
  match s.ackRanges.maxValue with
  | none => none
  | some mx =>
    let s := { s with largestReceivedPacketNumberAcked := mx }
    let s := if isAckEliciting then
        { s with transmissionsSinceElicitation := 0
                 ackElicitingTransmissions := s.ackElicitingTransmissions.onTransmit ⟨ownPn, mx⟩ }
      else s
    some ({ s with transmissionState := s.transmissionState.onTransmit
                   processedPacketsSinceTransmission := 0 }, writePing)

/-- `on_packet_ack(_, ack_set)`; `none` = `.expect("The range should always shrink the interval length")` -/
def onPacketAck (s : State) (a : AckSet) : Option State :=
  match s.ackElicitingTransmissions.onUpdate a with
  | (tx, some r) =>
    match s.ackRanges.remove r with
    | (ranges, .ok _) => some { s with ackElicitingTransmissions := tx, ackRanges := ranges }
    | (_, .error _) => none
  | (tx, none) => some { s with ackElicitingTransmissions := tx }

/-- `on_packet_loss(ack_set)` -/
def onPacketLoss (s : State) (a : AckSet) : State :=
  match s.ackElicitingTransmissions.onUpdate a with
  | (tx, some _) =>
    { s with ackElicitingTransmissions := tx
             transmissionState := (s.transmissionState.onUpdate s.ackRanges).activate }
  | (tx, none) => { s with ackElicitingTransmissions := tx }

/-- the part of `ProcessedPacket` the ack manager reads -/
structure Processed where
  pn : Nat
  ackEliciting : Bool
  ecn : Ecn
  pathChallengeOnActivePath : Bool
  /-- `datagram.timestamp` -/
  now : Nat
  deriving Repr, DecidableEq

def packetTolerance : Nat := 10

/-- the `(is_ordered, is_largest)` computation at the top of `on_processed_packet` -/
def orderedLargest (r : IvSet) (pn : Nat) : Bool × Bool :=
  match r.maxValue with
  | some mx =>
    -- `max_value.next()?`
    if mx < pnMax then (decide (pn = mx + 1), decide (pn > mx)) else (true, true)
  | none => (true, true)

/-- `should_activate` for an ack-eliciting packet -/
def shouldActivate (isOrdered isLargest : Bool) (p : Processed) (processedSince : Nat) : Bool :=
  !isLargest || !isOrdered || (p.ecn == .ce) || decide (processedSince ≥ packetTolerance) || p.pathChallengeOnActivePath

/-- `on_processed_packet`; the `Outcome` is what `insert_packet_number` reported (events) -/
def onProcessedPacket (s : State) (p : Processed) : State × AckRanges.Outcome :=
  let (isOrdered, isLargest) := orderedLargest s.ackRanges p.pn
  let (ranges, outcome) := AckRanges.insertPn s.ackRanges p.pn
  let s := { s with ackRanges := ranges, ecnCounts := s.ecnCounts.increment p.ecn }
  let s := { s with transmissionState := s.transmissionState.onUpdate s.ackRanges
                    processedPacketsSinceTransmission := satInc s.processedPacketsSinceTransmission }
  let s := if isLargest then { s with largestReceivedPacketNumberAt := some p.now } else s
  let s :=
    if p.ackEliciting then
      if shouldActivate isOrdered isLargest p s.processedPacketsSinceTransmission then
        { s with transmissionState := s.transmissionState.activate }
      else if s.ackDelayTimer.isNone then
        { s with ackDelayTimer := some (p.now + s.ackSettings.maxAckDelay) }
      else s
    else s
  -- `if self.ack_delay_timer.poll_expiration(now).is_ready()`
  let s := if timerExpired s.ackDelayTimer p.now then
      { s with ackDelayTimer := none, transmissionState := s.transmissionState.activate } else s
  (s, outcome)

/-- `on_timeout(timestamp)` -/
def onTimeout (s : State) (now : Nat) : State :=
  if timerExpired s.ackDelayTimer now then
    { s with ackDelayTimer := none, transmissionState := s.transmissionState.activate }
  else s

/-- `transmission_interest`: forced while `Active` -/
def forcedInterest (s : State) : Bool := s.transmissionState.isActive

-- ---------------------------------------------------------------------------------------------
-- operation histories

inductive Op where
  | processed (p : Processed)
  /-- one `Normal::on_transmit`: `on_transmit`, and `on_transmit_complete` iff it returned `true` -/
  | transmit (c : Constraint) (m : Mode) (now ownPn : Nat) (fits ctxAckEliciting pingFits : Bool)
  | packetAck (a : AckSet)
  | packetLoss (a : AckSet)
  | timeout (now : Nat)
  deriving Repr, DecidableEq

inductive Out where
  | none
  /-- the ACK frame that was written (+ whether the ack manager added a PING) -/
  | frame (f : AckFrame) (ping : Bool)
  /-- what `insert_packet_number` reported -/
  | inserted (o : AckRanges.Outcome)
  deriving Repr, DecidableEq

/-- one operation; `none` = one of the two `.expect(..)` panics -/
def step (s : State) : Op → Option (State × Out)
  | .processed p => let r := onProcessedPacket s p; some (r.1, .inserted r.2)
  | .transmit c m now ownPn fits ae pingFits =>
    match onTransmit s c m now fits with
    | some f =>
      match onTransmitComplete s c ownPn ae pingFits with
      | some (s', ping) => some (s', .frame f ping)
      | none => none
    | none => some (s, .none)
  | .packetAck a =>
    match onPacketAck s a with
    | some s' => some (s', .none)
    | none => none
  | .packetLoss a => some (onPacketLoss s a, .none)
  | .timeout now => some (onTimeout s now, .none)

/-- a whole history; the outputs in operation order -/
def run (s : State) : List Op → Option (State × List Out)
  | [] => some (s, [])
  | op :: rest =>
    match step s op with
    | some (s', o) =>
      match run s' rest with
      | some (s'', os) => some (s'', o :: os)
      | none => none
    | none => none

end Quic.Conn.AckManager
