import QuicModel.Conn.KeySet
/-
  C15 — two `KeySet`s and a channel that may reorder, duplicate and drop.

  Each endpoint keeps everything it ever sealed (`out`, newest first); that list *is* the channel
  towards the peer: the peer may be handed any element at any time, any number of times, or never.
  Packets are tagged (packet number, key-phase bit, sealing generation). Both endpoints start from
  the same 1-RTT secret, so equal generation numbers mean equal keys.
-/
namespace Quic.Conn.KeyUpdateSystem
open Quic.Conn.KeySet

structure Packet where
  pn : Nat
  phase : Bool
  gen : Nat
deriving DecidableEq, Repr

structure Endpoint where
  ks : State
  nextPn : Nat
  out : List Packet
deriving Repr

structure Sys where
  a : Endpoint
  b : Endpoint
deriving Repr

inductive Who where
  | A
  | B
deriving DecidableEq, Repr

def Who.peer : Who → Who
  | .A => .B
  | .B => .A

def Sys.get (y : Sys) : Who → Endpoint
  | .A => y.a
  | .B => y.b

def Sys.set (y : Sys) (x : Who) (e : Endpoint) : Sys :=
  match x with
  | .A => { y with a := e }
  | .B => { y with b := e }

def init (confLimit integrityLimit window : Nat) : Sys :=
  let e : Endpoint := { ks := KeySet.init confLimit integrityLimit window, nextPn := 0, out := [] }
  { a := e, b := e }

inductive SysOp where
  /-- endpoint `x` seals its next packet -/
  | enc (x : Who)
  /-- the channel hands endpoint `x` the peer's packet number `pn` (no-op if the peer never sent it) -/
  | deliver (x : Who) (pn largestAcked pto : Nat)
  /-- an attacker hands endpoint `x` a packet nobody sealed -/
  | forge (x : Who) (phase : Bool) (pn largestAcked pto : Nat)
  | timeout (x : Who) (now : Nat)
deriving DecidableEq, Repr

inductive SysOut where
  | enc (o : EncOut) (pn : Nat)
  | dec (o : DecOut)
  | tick
  /-- `deliver` of a packet that does not exist -/
  | noSuchPacket
deriving DecidableEq, Repr

def Endpoint.findPn (e : Endpoint) (pn : Nat) : Option Packet := e.out.find? (fun p => p.pn == pn)

def Endpoint.encrypt (r : Repairs) (e : Endpoint) : Endpoint × SysOut :=
  match KeySet.encrypt r e.ks with
  | (ks', .sealed ph g) =>
    ({ ks := ks', nextPn := e.nextPn + 1, out := ⟨e.nextPn, ph, g⟩ :: e.out }, .enc (.sealed ph g) e.nextPn)
  | (ks', .aeadLimit) => ({ e with ks := ks' }, .enc .aeadLimit e.nextPn)

def Endpoint.receive (r : Repairs) (e : Endpoint) (phase : Bool) (gen : Option Nat) (pn la pto : Nat) :
    Endpoint × SysOut :=
  let (ks', o) := KeySet.decrypt r e.ks phase gen pn la pto
  ({ e with ks := ks' }, .dec o)

def step (r : Repairs) (y : Sys) : SysOp → Sys × SysOut
  | .enc x =>
    let (e', o) := (y.get x).encrypt r
    (y.set x e', o)
  | .deliver x pn la pto =>
    match (y.get x.peer).findPn pn with
    | some p =>
      let (e', o) := (y.get x).receive r p.phase (some p.gen) p.pn la pto
      (y.set x e', o)
    | none => (y, .noSuchPacket)
  | .forge x phase pn la pto =>
    let (e', o) := (y.get x).receive r phase none pn la pto
    (y.set x e', o)
  | .timeout x now =>
    let e := y.get x
    (y.set x { e with ks := KeySet.timeout e.ks now }, .tick)

def run (r : Repairs) (y : Sys) : List SysOp → Sys
  | [] => y
  | op :: ops => run r (step r y op).1 ops

end Quic.Conn.KeyUpdateSystem
