import QuicModel.Conn.Wakers
/-
  The one request of the transport-level request API that `Quic.Conn.Wakers.WriteWaiter.Req` leaves out: `reset` + `flush`
  (`stream/send_stream.rs` `poll_request` l.779-803): reset the stream and park until the RESET_STREAM is acknowledged.
-/
namespace Quic.Conn.Wakers.WriteWaiter

/-- `poll_request` with `reset = Some(code)`, `flush = true` and a task context -/
def pollResetFlush (s : State) : State :=
  let s1 := (initReset s false).1
  if s1.st = .resetAcknowledged then { s1 with waiter := none } else storeWaker s1 true

/-- network events after the request -/
inductive NetOp where
  | ack (released : Nat) (finAck resetAck : Bool)
  | stopSending
  | internalReset
  | maxStreamData
deriving Repr, DecidableEq

def netStep (s : State) : NetOp → State × Bool
  | .ack n f r => onPacketAck s n f r
  | .stopSending => onStopSending s
  | .internalReset => onInternalReset s
  | .maxStreamData => onMaxStreamData s

/-- run network events, collecting whether any of them reported a wake-up -/
def netRun (s : State) : List NetOp → State × Bool
  | [] => (s, false)
  | op :: ops =>
    let r := netStep s op
    let r2 := netRun r.1 ops
    (r2.1, r.2 || r2.2)

/-- the event releases a writer waiting for the reset acknowledgement: the RESET_STREAM was acknowledged or the connection ended -/
def NetOp.releases : NetOp → Bool
  | .ack _ _ r => r
  | .internalReset => true
  | _ => false

end Quic.Conn.Wakers.WriteWaiter
