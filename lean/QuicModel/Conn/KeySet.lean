import QuicModel.Prelude
/-
  C15 — model of `s2n_quic_core::crypto::application::{KeySet, limited::Key}`
  (quic/s2n-quic-core/src/crypto/application/{keyset.rs,limited.rs}, packet/key_phase.rs).

  Keys are *generation numbers* (how often `derive_next_key` was applied to the handshake's
  1-RTT secret). Ideal-AEAD assumption (DESIGN §3): opening a packet succeeds iff the key in the
  selected slot has the generation the packet was sealed with (forged packets carry no generation).
  Not modelled: HKDF, header protection, `limited::Key::decrypted_packets` (written, never read),
  the reserved-bits check of `EncryptedShort::decrypt`.

  The control flow of `decrypt_packet` / `encryption_phase` is transcribed as it is in the pinned
  code, including two defects (DESIGN §5 F5 and its sibling found in the build round). The two
  candidate repairs are *parameters* of the one shared definition (`Repairs`), so that the pinned
  and the repaired models differ in exactly those two places.
-/
namespace Quic.Conn.KeySet

/-- Candidate repairs; the pinned commit has none of them. -/
structure Repairs where
  /-- F5: `let update_in_progress = self.key_update_in_progress();` sampled before decrypting and
      `rotate_phase()` only if `packet_phase != self.key_phase() && !update_in_progress`. -/
  rotateOnlyIfNoUpdateInProgress : Bool
  /-- F5b: `encryption_phase()` moves to the next phase only if
      `needs_update(..) && !self.key_update_in_progress()` (while the derivation timer is armed the
      "next" slot still holds the *previous* key). -/
  noInitiateWhileUpdateInProgress : Bool
deriving DecidableEq, Repr

def Repairs.pinned : Repairs := ⟨false, false⟩
def Repairs.f5 : Repairs := ⟨true, false⟩
def Repairs.full : Repairs := ⟨true, true⟩

/-- `limited::Key<K>`: the key (its generation), packets sealed with it, `aead_confidentiality_limit()`. -/
structure Slot where
  keyGen : Nat
  encrypted : Nat
  limit : Nat
deriving DecidableEq, Repr

/-- `limited::Key::expired`: `self.encrypted_packets >= self.confidentiality_limit` -/
def Slot.expired (k : Slot) : Bool := decide (k.encrypted ≥ k.limit)

/-- `limited::Key::needs_update`:
    `self.encrypted_packets > self.confidentiality_limit.saturating_sub(limits.key_update_window)` -/
def Slot.needsUpdate (k : Slot) (window : Nat) : Bool := decide (k.encrypted > k.limit - window)

/-- `Timestamp::has_elapsed` granularity (K_GRANULARITY = 1 ms), times are microseconds -/
def granularity : Nat := 1000

/-- `Timer::is_expired(now)` for an armed timer = `deadline.has_elapsed(now)`: `deadline < now + 1ms` -/
def timerExpired (deadline now : Nat) : Bool := decide (deadline < now + granularity)

/-- the integrity check of `decrypt_packet` (after `packet_decryption_failures += 1`):
    `self.decryption_error_count() >= self.aead_integrity_limit` -/
def integrityReached (failures limit : Nat) : Bool := decide (failures ≥ limit)

/-- `self.generation: u16` -/
def generationMax : Nat := 65535

/-- `KeySet<K>`; `phase = true` is `KeyPhase::One`. -/
structure State where
  phase : Bool
  timer : Option Nat
  failures : Nat
  integrityLimit : Nat
  generation : Nat
  slot0 : Slot
  slot1 : Slot
  window : Nat
deriving DecidableEq, Repr

/-- `self.crypto[phase]` -/
def State.slot (s : State) (p : Bool) : Slot := if p then s.slot1 else s.slot0

def State.setSlot (s : State) (p : Bool) (k : Slot) : State :=
  if p then { s with slot1 := k } else { s with slot0 := k }

/-- `active_key()` -/
def State.active (s : State) : Slot := s.slot s.phase
/-- the key in the non-active slot -/
def State.other (s : State) : Slot := s.slot (!s.phase)

/-- `key_update_in_progress()` = `key_derivation_timer.is_armed()` -/
def State.updateInProgress (s : State) : Bool := s.timer.isSome

/-- `KeySet::new(crypto, limits)`: slot 0 = the handshake key (generation 0), slot 1 = its
    derivation; both limits come from the key (`derive_next_key` keeps the cipher suite). -/
def init (confLimit integrityLimit window : Nat) : State :=
  { phase := false, timer := none, failures := 0, integrityLimit := integrityLimit, generation := 0,
    slot0 := ⟨0, 0, confLimit⟩, slot1 := ⟨1, 0, confLimit⟩, window := window }

/-- `derive_and_store_next_key`: `crypto[next_phase] = limited::Key::new(active.derive_next_key())` -/
def State.deriveAndStoreNextKey (s : State) : State :=
  s.setSlot (!s.phase) ⟨s.active.keyGen + 1, 0, s.active.limit⟩

/-- `encryption_phase()` -/
def State.encryptionPhase (r : Repairs) (s : State) : Bool :=
  if s.active.needsUpdate s.window && !(r.noInitiateWhileUpdateInProgress && s.updateInProgress) then !s.phase
  else s.phase

inductive EncOut where
  /-- the packet was sealed under this key phase bit by the key of this generation -/
  | sealed (phase : Bool) (keyGen : Nat)
  /-- `PacketEncodingError::AeadLimitReached` -/
  | aeadLimit
deriving DecidableEq, Repr

/-- `encrypt_packet` (the sealing callback `f` is assumed to succeed) -/
def encrypt (r : Repairs) (s : State) : State × EncOut :=
  let phase := s.encryptionPhase r
  let k := s.slot phase
  if k.expired then (s, .aeadLimit)
  else (s.setSlot phase { k with encrypted := k.encrypted + 1 }, .sealed phase k.keyGen)

inductive DecOut where
  /-- `Ok((packet, None))` -/
  | same
  /-- `Ok((packet, Some(generation)))`: the phase was rotated -/
  | rotated (generation : Nat)
  /-- the AEAD error is passed on -/
  | decryptError
  /-- `transport::Error::AEAD_LIMIT_REACHED` -/
  | aeadLimit
  /-- `self.generation += 1` on a `u16` holding 65535 (debug build: panic; release: wraps) -/
  | generationOverflow
deriving DecidableEq, Repr

/-- `decrypt_packet(packet, largest_acknowledged_packet_number, pto)`.
    `pktGen = none` is a packet nobody sealed (forged / corrupted). -/
def decrypt (r : Repairs) (s : State) (pktPhase : Bool) (pktGen : Option Nat) (pn largestAcked pto : Nat) :
    State × DecOut :=
  -- let mut phase_to_use = self.key_phase() as u8;
  let phaseToUse₀ := s.phase
  -- let phase_switch = phase_to_use != (packet_phase as u8);
  let phaseSwitch := phaseToUse₀ != pktPhase
  -- phase_to_use ^= phase_switch as u8;         (this already is the packet's phase)
  let phaseToUse₁ := phaseToUse₀ ^^ phaseSwitch
  -- if self.key_update_in_progress() && phase_switch { if pn < largest_acked { phase_to_use = packet.key_phase() } }
  let phaseToUse :=
    if s.updateInProgress && phaseSwitch then (if pn < largestAcked then pktPhase else phaseToUse₁)
    else phaseToUse₁
  -- (repair F5) let update_in_progress = self.key_update_in_progress();
  let updateInProgress := s.updateInProgress
  let key := s.slot phaseToUse
  -- packet.decrypt(key.key_mut())  under the ideal-AEAD assumption
  let opened := pktGen == some key.keyGen
  if opened then
    if pktPhase != s.phase && !(r.rotateOnlyIfNoUpdateInProgress && updateInProgress) then
      -- rotate_phase(); set_derivation_timer(pto); Some(self.generation)
      if s.generation + 1 > generationMax then (s, .generationOverflow)
      else
        let s' := { s with generation := s.generation + 1, phase := !s.phase, timer := some pto }
        (s', .rotated s'.generation)
    else (s, .same)
  else
    -- self.packet_decryption_failures += 1; if count >= self.aead_integrity_limit { AEAD_LIMIT_REACHED }
    let s' := { s with failures := s.failures + 1 }
    if integrityReached s'.failures s'.integrityLimit then (s', .aeadLimit) else (s', .decryptError)

/-- `on_timeout(now)`: `Timer::poll_expiration` (armed and `deadline < now + 1ms`) then derive -/
def timeout (s : State) (now : Nat) : State :=
  match s.timer with
  | some deadline =>
    if timerExpired deadline now then ({ s with timer := none }).deriveAndStoreNextKey else s
  | none => s

/-! ### operation histories of one endpoint -/

inductive Op where
  | encrypt
  | decrypt (pktPhase : Bool) (pktGen : Option Nat) (pn largestAcked pto : Nat)
  | timeout (now : Nat)
deriving DecidableEq, Repr

inductive Out where
  | enc (o : EncOut)
  | dec (o : DecOut)
  | tick
deriving DecidableEq, Repr

def step (r : Repairs) (s : State) : Op → State × Out
  | .encrypt => let (s', o) := encrypt r s; (s', .enc o)
  | .decrypt ph g pn la pto => let (s', o) := decrypt r s ph g pn la pto; (s', .dec o)
  | .timeout now => (timeout s now, .tick)

/-- ghost log of the generations of the packets sealed so far, NEWEST FIRST
    (the packet number of an entry is its distance from the end of the list) -/
def Out.addTo : Out → List Nat → List Nat
  | .enc (.sealed _ g), log => g :: log
  | _, log => log

/-- run a history from a state and a log -/
def run (r : Repairs) : State × List Nat → List Op → State × List Nat
  | sl, [] => sl
  | (s, log), op :: ops => run r ((step r s op).1, (step r s op).2.addTo log) ops

/-- all outputs of a history, oldest first -/
def outputs (r : Repairs) : State → List Op → List Out
  | _, [] => []
  | s, op :: ops => (step r s op).2 :: outputs r (step r s op).1 ops

end Quic.Conn.KeySet
