import QuicModel.Codec.PacketNumber
/-
  `TxPacketNumbers` (quic/s2n-quic-transport/src/space/tx_packet_numbers.rs) and the part of the
  packet spaces' `on_transmit` that chooses the packet number
  (space/application.rs `ApplicationSpace::on_transmit` / `on_packet_sent`, space/handshake.rs,
  space/initial.rs; transmission/mod.rs `Transmission::encode` calls
  `tx_packet_numbers.on_transmit(self.packet_number)` once the packet has been written).

  Transcribed functions:
    TxPacketNumbers::new                               -> `init`
    TxPacketNumbers::on_packet_ack                     -> `onPacketAck`
    TxPacketNumbers::on_transmit                       -> `onTransmit`
    TxPacketNumbers::next / largest_sent_packet_number_acked / should_skip_packet_number /
      set_skip_packet_number                           -> fields / `shouldSkip` / `setSkip`
    ApplicationSpace::on_transmit (packet-number choice: PTO-probe skip, optimistic-ack skip,
      early return on a `PacketEncodingError`) + `on_packet_sent` (`set_skip_packet_number`) -> `transmit`
  The skip counter, `requires_probe()` and whether the packet could be encoded are inputs of the
  `transmit` op (any value is allowed: the theorems hold for every choice).
  Timestamps are plain numbers; the packet-number space tag is not modelled.
-/
namespace Quic.Conn.TxPn
open Quic.Codec

structure State where
  /-- `largest_sent_acked.0` -/
  largestSentAcked : Nat
  /-- `largest_sent_acked.1` -/
  ackedAt : Nat
  next : Nat
  skip : Option Nat
  deriving Repr, DecidableEq

/-- `TxPacketNumbers::new(space, now)` -/
def init (now : Nat) : State := ⟨0, now, 0, none⟩

/-- an `ack::Set` given as inclusive ranges (non-empty) -/
abbrev AckSet := List (Nat × Nat)

def AckSet.contains (a : AckSet) (pn : Nat) : Bool := a.any (fun r => decide (r.1 ≤ pn) && decide (pn ≤ r.2))
def AckSet.largest (a : AckSet) : Nat := a.foldl (fun m r => max m r.2) 0

inductive Err
  /-- `transport::Error::PROTOCOL_VIOLATION` "received an ACK for a packet that was not sent" -/
  | protocolViolation
  /-- `.expect(..)` / `.unwrap()` on `PacketNumber::next()` at 2^62 - 1 -/
  | panicOverflow
  deriving Repr, DecidableEq

/-- `TxPacketNumbers::on_packet_ack(timestamp, ack_set, lowest_tracking_packet_number)`.
    Both error returns happen before any field is written. -/
def onPacketAck (s : State) (ts : Nat) (ack : AckSet) (lowestTracking : Nat) : Except Err State :=
  let largest := ack.largest
  if largest ≥ s.next then .error .protocolViolation
  else
    let afterSkip : Except Err (Option Nat) :=
      match s.skip with
      | some sk =>
        if ack.contains sk then .error .protocolViolation
        else
          match PacketNumber.next sk with
          | none => .error .panicOverflow
          | some skipPlusOne => .ok (if lowestTracking > skipPlusOne then none else some sk)
      | none => .ok none
    match afterSkip with
    | .error e => .error e
    | .ok skip' =>
      if largest > s.largestSentAcked then .ok { s with skip := skip', largestSentAcked := largest, ackedAt := ts }
      else .ok { s with skip := skip' }

/-- `TxPacketNumbers::on_transmit(packet_number)`: `self.next = packet_number.next().expect(..)` -/
def onTransmit (s : State) (pn : Nat) : Except Err State :=
  match PacketNumber.next pn with
  | none => .error .panicOverflow
  | some n => .ok { s with next := n }

def shouldSkip (s : State) : Bool := s.skip.isNone
def setSkip (s : State) (pn : Nat) : State := { s with skip := some pn }

/-- `if self.recovery_manager.requires_probe() && packet_number.as_u64() != 0 {
       skipped_packet_number.pto = Some(packet_number); packet_number = packet_number.next().unwrap(); }`
    (all three spaces). Result: (packet number, skipped-for-PTO). -/
def probeSkip (pn0 : Nat) (probe : Bool) : Except Err (Nat × Option Nat) :=
  if probe && decide (pn0 ≠ 0) then
    match PacketNumber.next pn0 with
    | none => .error .panicOverflow
    | some n => .ok (n, some pn0)
  else .ok (pn0, none)

/-- `if *skip_counter == 0 && self.tx_packet_numbers.should_skip_packet_number() {
       if let Some(skip) = skipped.pto { skipped.opt_ack = Some(skip) }   // don't skip an additional packet
       else { skipped.opt_ack = Some(packet_number); packet_number = packet_number.next().unwrap(); } }`
    (application space only). Result: (packet number, skipped-for-optimistic-ack). -/
def optAckSkip (s : State) (pn1 : Nat) (pto : Option Nat) (counterZero : Bool) : Except Err (Nat × Option Nat) :=
  if counterZero && shouldSkip s then
    match pto with
    | some sk => .ok (pn1, some sk)
    | none =>
      match PacketNumber.next pn1 with
      | none => .error .panicOverflow
      | some n => .ok (n, some pn1)
  else .ok (pn1, none)

/-- `Transmission::encode` → `tx_packet_numbers.on_transmit(packet_number)`, then `on_packet_sent`:
    `if let Some(skip) = skipped.opt_ack { self.tx_packet_numbers.set_skip_packet_number(skip) }` -/
def recordSent (s : State) (pn2 : Nat) (optAck : Option Nat) : Except Err State :=
  match onTransmit s pn2 with
  | .error e => .error e
  | .ok s' =>
    match optAck with
    | some sk => .ok (setSkip s' sk)
    | none => .ok s'

/-- the packet-number choice of `ApplicationSpace::on_transmit` followed by
    `Transmission::encode` (→ `on_transmit`) and `on_packet_sent` (→ `set_skip_packet_number`).
    `probe` = `recovery_manager.requires_probe()`, `counterZero` = `skip_counter == Some(0)`
    (always false in the Initial / Handshake spaces), `encoded` = the packet was written (otherwise
    `encrypt_packet(..)?` returns early and nothing is recorded).
    Result: new state and the packet number that went on the wire, if any. -/
def transmit (s : State) (probe counterZero encoded : Bool) : Except Err (State × Option Nat) :=
  match probeSkip s.next probe with
  | .error e => .error e
  | .ok (pn1, pto) =>
    match optAckSkip s pn1 pto counterZero with
    | .error e => .error e
    | .ok (pn2, optAck) =>
      if !encoded then .ok (s, none)
      else
        match recordSent s pn2 optAck with
        | .error e => .error e
        | .ok s' => .ok (s', some pn2)

inductive Op
  | transmit (probe counterZero encoded : Bool)
  | ack (ts : Nat) (set : AckSet) (lowestTracking : Nat)
  deriving Repr

inductive Out
  | sent (pn : Nat)
  | notSent
  | acked
  | err (e : Err)
  deriving Repr, DecidableEq

/-- one operation; an error leaves the state untouched (the connection is closed / the process
    panicked: nothing more is sent with this state, but the op sequence may go on arbitrarily) -/
def step (s : State) : Op → State × Out
  | .transmit p c e =>
    match transmit s p c e with
    | .ok (s', some pn) => (s', .sent pn)
    | .ok (s', none) => (s', .notSent)
    | .error e => (s, .err e)
  | .ack ts set low =>
    match onPacketAck s ts set low with
    | .ok s' => (s', .acked)
    | .error e => (s, .err e)

/-- run a whole history, collecting the outputs -/
def run (s : State) : List Op → State × List Out
  | [] => (s, [])
  | op :: ops =>
    let (s', o) := step s op
    let (s'', os) := run s' ops
    (s'', o :: os)

/-- the packet numbers put on the wire, in order -/
def wire : List Out → List Nat
  | [] => []
  | .sent pn :: os => pn :: wire os
  | _ :: os => wire os

end Quic.Conn.TxPn
