import QuicModel.Prelude
/-
  C15 — the 1-RTT KEY CHAIN: what the `KeySet` model (Conn/KeySet.lean) assumes about
  `crypto::OneRttKey::derive_next_key` and the AEAD, made explicit.

  `KeySet.lean` represents a key by its *generation number* (how often `derive_next_key` was
  applied to the handshake's 1-RTT key) and decides "does this packet open?" by comparing
  generation numbers. That is sound for the physical keys of an endpoint pair exactly when

      a packet sealed by one endpoint with its generation-`i` key opens under the peer's
      generation-`j` key   iff   `i = j`                                             (`ChainOK`)

  i.e. (RFC 9001 §6.1) both endpoints — whatever TLS provider they use — derive the SAME chain
  `secret_<n+1> = HKDF-Expand-Label(secret_<n>, "quic ku", "", Hash.length)`, and every step of
  the chain yields a key different from all earlier ones.

  This file holds
    * `ChainOK` and a decidable checker for finite OBSERVATION TABLES (for each pair `(i, j)`: did
      the generation-`j` opener of the peer open the generation-`i` packet?), replayed by the
      driver on what the harness observed on the real keys;
    * the abstract (ideal-AEAD, generation-tagged) model of the harness' `keychain` component,
      so that model and implementation answer the same seal/open questions;
    * the RFC 8446 §7.1 `HkdfLabel` encoding, the independent reference for the label constants
      the code feeds to HKDF (bridge: QuicProofs/Bridge/KeyChain.lean).
-/
namespace Quic.Conn.KeyChain

/-! ## the assumption -/

/-- `opens i j`: a packet sealed with generation `i` of the sender's chain opens under generation
    `j` of the receiver's chain for the same direction. The `KeySet` model is the special case
    `opens i j = (i == j)`. -/
def ChainOK (opens : Nat → Nat → Bool) : Prop := ∀ i j, opens i j = (i == j)

/-- `ChainOK` restricted to generations `0..n` (what a finite experiment can observe) -/
def ChainOKUpTo (n : Nat) (opens : Nat → Nat → Bool) : Prop := ∀ i j, i ≤ n → j ≤ n → opens i j = (i == j)

/-! ## observation tables -/

/-- one observation: the packet of generation `i` was handed to the opener of generation `j` -/
structure Obs where
  i : Nat
  j : Nat
  opened : Bool
deriving DecidableEq, Repr

/-- first recorded observation for the pair -/
def lookup (t : List Obs) (i j : Nat) : Option Bool :=
  match t with
  | [] => none
  | o :: rest => if o.i == i && o.j == j then some o.opened else lookup rest i j

inductive Verdict where
  /-- every pair `(i, j)` with `i, j ≤ n` was observed, consistently, and opened iff `i = j` -/
  | chainok
  /-- the pair was never observed -/
  | missing (i j : Nat)
  /-- the observation contradicts `ChainOK` -/
  | broken (i j : Nat) (opened : Bool)
  /-- the same pair was observed with both outcomes -/
  | conflict (i j : Nat)
deriving DecidableEq, Repr

/-- all observations of one pair agree with the first one -/
def consistentAt (t : List Obs) (o : Obs) : Bool := lookup t o.i o.j == some o.opened

def firstConflict (t all : List Obs) : Option Obs :=
  match t with
  | [] => none
  | o :: rest => if consistentAt all o then firstConflict rest all else some o

def cell (t : List Obs) (i j : Nat) : Verdict :=
  match lookup t i j with
  | none => .missing i j
  | some b => if b == (i == j) then .chainok else .broken i j b

/-- cells `(i, 0) .. (i, m-1)`, first failure -/
def checkRow (t : List Obs) (i : Nat) : Nat → Verdict
  | 0 => .chainok
  | m + 1 =>
    match checkRow t i m with
    | .chainok => cell t i m
    | v => v

/-- rows `0 .. k-1` (each over columns `0..n`), first failure -/
def checkRows (t : List Obs) (n : Nat) : Nat → Verdict
  | 0 => .chainok
  | k + 1 =>
    match checkRows t n k with
    | .chainok => checkRow t k (n + 1)
    | v => v

/-- does the observation table establish `ChainOK` for generations `0..n`? -/
def check (n : Nat) (t : List Obs) : Verdict :=
  match firstConflict t t with
  | some o => .conflict o.i o.j
  | none => checkRows t n (n + 1)

/-- the complete table of a relation, generations `0..n` -/
def tabulateRow (opens : Nat → Nat → Bool) (i : Nat) : Nat → List Obs
  | 0 => []
  | m + 1 => tabulateRow opens i m ++ [⟨i, m, opens i m⟩]

def tabulateRows (opens : Nat → Nat → Bool) (n : Nat) : Nat → List Obs
  | 0 => []
  | k + 1 => tabulateRows opens n k ++ tabulateRow opens k (n + 1)

def tabulate (n : Nat) (opens : Nat → Nat → Bool) : List Obs := tabulateRows opens n (n + 1)

/-! ## the abstract model of the harness component (ideal AEAD over generation-tagged packets) -/

inductive Side where
  | client
  | server
deriving DecidableEq, Repr

/-- what the model remembers of a sealed packet -/
structure Packet where
  id : String
  sealer : Side
  gen : Nat
  pn : Nat
  header : List Nat
  payload : List Nat
deriving Repr

/-- Ideal AEAD + `ChainOK` for both directions + separation of the two directions (an endpoint's
    opener is keyed from the PEER's write secret, so nobody opens what he sealed himself):
    the stored packet, presented with packet number `pn`, associated data `header` and possibly a
    flipped ciphertext byte to the generation-`gen` opener of `opener`, opens iff nothing differs. -/
def Packet.opensAt (p : Packet) (opener : Side) (gen pn : Nat) (header : List Nat) (tampered : Bool) : Bool :=
  p.sealer != opener && p.gen == gen && p.pn == pn && p.header == header && !tampered

/-- AEAD tag length of every QUIC v1 cipher suite (RFC 9001 §5.3) -/
def tagLen : Nat := 16

/-- largest packet number (2^62 - 1) -/
def maxPn : Nat := 2 ^ 62 - 1

structure State where
  /-- number of generations derived so far per side (generation 0 comes from the handshake) -/
  clientGens : Nat
  serverGens : Nat
  packets : List Packet
  suite : String
  /-- which implementation provides each side's keys: `s2n` / `crypto` (both s2n-quic-crypto) or `rustls` -/
  clientProvider : String
  serverProvider : String
deriving Repr

def State.gens (s : State) : Side → Nat
  | .client => s.clientGens
  | .server => s.serverGens

def State.provider (s : State) : Side → String
  | .client => s.clientProvider
  | .server => s.serverProvider

def State.find (s : State) (id : String) : Option Packet := s.packets.find? (fun p => p.id == id)

def State.next (s : State) : Side → State
  | .client => { s with clientGens := s.clientGens + 1 }
  | .server => { s with serverGens := s.serverGens + 1 }

/-! ## RFC 8446 §7.1 HkdfLabel (independent reference for the label constants) -/

/-- `struct { uint16 length; opaque label<7..255> = "tls13 " + Label; opaque context<0..255> = ""; }`
    (labels are character lists so that the kernel can evaluate the encoding) -/
def hkdfLabel (length : Nat) (label : List Char) : List Nat :=
  let full := (['t', 'l', 's', '1', '3', ' '] ++ label).map Char.toNat
  [length / 256 % 256, length % 256, full.length] ++ full ++ [0]

def quicKey : List Char := ['q', 'u', 'i', 'c', ' ', 'k', 'e', 'y']
def quicIv : List Char := ['q', 'u', 'i', 'c', ' ', 'i', 'v']
def quicHp : List Char := ['q', 'u', 'i', 'c', ' ', 'h', 'p']
def quicKu : List Char := ['q', 'u', 'i', 'c', ' ', 'k', 'u']

/-- RFC 9001 §5.1 / §5.4.1 / §6.1 and RFC 8446 B.4: per cipher suite (hash output length, AEAD key length) -/
def suiteParams : String → Option (Nat × Nat)
  | "TLS_AES_128_GCM_SHA256" => some (32, 16)
  | "TLS_AES_256_GCM_SHA384" => some (48, 32)
  | "TLS_CHACHA20_POLY1305_SHA256" => some (32, 32)
  | _ => none

/-- the four HkdfLabels a suite must use: "quic key" (key length), "quic iv" (12), "quic hp" (key length),
    "quic ku" (hash length: the next secret is as long as the current one) -/
def rfcLabels (suite : String) : Option (List Nat × List Nat × List Nat × List Nat) :=
  match suiteParams suite with
  | some (h, k) => some (hkdfLabel k quicKey, hkdfLabel 12 quicIv, hkdfLabel k quicHp, hkdfLabel h quicKu)
  | none => none

end Quic.Conn.KeyChain
