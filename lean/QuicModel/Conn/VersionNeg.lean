import QuicModel.Prelude
/-
  Decision table of `endpoint::version::Negotiator::on_packet`
  (quic/s2n-quic-transport/src/endpoint/version.rs):

    client endpoint                          -> Ok(())           forward, nothing queued
    Initial,  version supported              -> Ok(())
    Initial,  unsupported, payload_len < 1200-> Err(Error)       dropped, nothing queued
    Initial,  unsupported, payload_len >=1200-> Err(Error)       VN queued unless `transmissions.len() == max_peers`
    ZeroRtt,  supported                      -> Ok(())
    ZeroRtt,  unsupported                    -> Err(Error)       nothing queued
    VersionNegotiation                       -> Ok(())           never answered with VN
    anything else (Handshake, Retry, Short)  -> Ok(())

  and the size of the Version Negotiation packet (core `packet/version_negotiation.rs` encoder):
  tag(1) + version(4) + dcid_len(1) + dcid + scid_len(1) + scid + 4 per supported version.
-/
namespace Quic.Conn.VersionNeg

inductive Kind where
  | initial | zeroRtt | handshake | retry | short | versionNegotiation
  deriving Repr, DecidableEq

inductive Verdict where
  | forward   -- Ok(())
  | drop      -- Err(Error): datagram dropped with reason UnsupportedVersion
  deriving Repr, DecidableEq

structure Result where
  verdict : Verdict
  /-- a Version Negotiation transmission was pushed onto `transmissions` -/
  vnQueued : Bool
  deriving Repr, DecidableEq

/-- `path::MINIMUM_MAX_DATAGRAM_SIZE` -/
def minimumMaxDatagramSize : Nat := 1200

/-- `SUPPORTED_VERSIONS` -/
def supportedVersions : List Nat := [1]

def isSupported (version : Nat) : Bool := supportedVersions.any (fun v => v == version)

def onPacket (isServer : Bool) (kind : Kind) (supported : Bool) (payloadLen queueLen maxPeers : Nat) : Result :=
  if !isServer then ⟨.forward, false⟩
  else match kind with
    | .initial =>
      if supported then ⟨.forward, false⟩
      else if payloadLen < minimumMaxDatagramSize then ⟨.drop, false⟩
      else if queueLen != maxPeers then ⟨.drop, true⟩
      else ⟨.drop, false⟩
    | .zeroRtt => if supported then ⟨.forward, false⟩ else ⟨.drop, false⟩
    | .versionNegotiation => ⟨.forward, false⟩
    | _ => ⟨.forward, false⟩

/-- encoded length of the Version Negotiation packet built by `VersionNegotiation::from_initial` -/
def vnLen (dcidLen scidLen nVersions : Nat) : Nat := 1 + 4 + 1 + dcidLen + 1 + scidLen + 4 * nVersions

/-- `packet::long::DESTINATION_CONNECTION_ID_MAX_LEN` (longer ids are rejected by the decoder) -/
def connectionIdMaxLen : Nat := 20

end Quic.Conn.VersionNeg
