import QuicModel.Prelude
import QuicModel.Conn.StatelessReset
/-
  Datagram size rule for datagrams carrying an Initial packet
  (quic/s2n-quic-transport/src/connection/transmission.rs `write_payload`,
   s2n-quic-core/src/packet/encoding.rs `encode_packet`, transmission/mod.rs `encode`):

    cap = path.clamp_datagram_size(buffer.len(), mode)            (>= 1200: MINIMUM_MAX_DATAGRAM_SIZE)
    pn_space_to_pad = if !has_transmission(initial)  { None }
                      else if has_transmission(application) || mtu interest { Some(ApplicationData) }
                      else if has_transmission(handshake) { Some(Handshake) } else { Some(Initial) }
    each space in order Initial, Handshake, ApplicationData is given
        min_packet_len = Some(encoder.capacity())  iff it is the space to pad
    after the Initial packet was written by a SERVER and it is not ack-eliciting: pn_space_to_pad = None
    packet: minimum_packet_len = max(min_packet_len.unwrap_or(0), min_indistinguishable_packet_len(tag)+1);
            the payload is padded so that the packet has at least that length; if the estimate
            overflows the remaining capacity the packet is not written (InsufficientSpace)

  Which frames a space wants to write is not modelled: per space the model takes whether it has
  transmission interest and the natural (unpadded) length of the packet its `on_transmit` would
  produce (`none`: `on_transmit` returned an error / nothing written).
-/
namespace Quic.Conn.InitialPadding
open Quic.Conn

inductive Space where
  | initial | handshake | application
  deriving Repr, DecidableEq

structure SpaceTx where
  /-- `has_transmission(space, constraint)` -/
  interest : Bool
  /-- header + packet number + payload + tag of the packet `on_transmit` would write without padding -/
  natural : Option Nat
  ackEliciting : Bool := true
  deriving Repr, DecidableEq

def SpaceTx.idle : SpaceTx := { interest := false, natural := none }

/-- `minimum_packet_len` in `PacketEncoder::encode_packet` -/
def minimumPacketLen (minPacketLen : Option Nat) (tagLen : Nat) : Nat :=
  max (minPacketLen.getD 0) (StatelessReset.minIndistinguishablePacketLen tagLen + 1)

/-- bytes written by one space into the remaining capacity `rem` (0 = nothing written) -/
def writePacket (rem : Nat) (minPacketLen : Option Nat) (tagLen : Nat) (s : SpaceTx) : Nat :=
  match s.natural with
  | none => 0
  | some n =>
    let len := max n (minimumPacketLen minPacketLen tagLen)
    if len ≤ rem then len else 0

def spaceToPad (ini hs app : SpaceTx) : Option Space :=
  if !ini.interest then none
  else if app.interest then some .application
  else if hs.interest then some .handshake
  else some .initial

structure Datagram where
  initialLen : Nat
  handshakeLen : Nat
  applicationLen : Nat
  deriving Repr, DecidableEq

def Datagram.len (d : Datagram) : Nat := d.initialLen + d.handshakeLen + d.applicationLen

/-- one iteration of `write_payload`'s loop body -/
def build (isServer : Bool) (cap tagLen : Nat) (ini hs app : SpaceTx) : Datagram :=
  let pad0 := spaceToPad ini hs app
  let minI := if pad0 == some .initial then some cap else none
  let li := writePacket cap minI tagLen ini
  -- server: a non-ack-eliciting Initial cancels the padding of the later spaces
  let pad1 := if li != 0 && isServer && !ini.ackEliciting then none else pad0
  let rem1 := cap - li
  let minH := if pad1 == some .handshake then some rem1 else none
  let lh := writePacket rem1 minH tagLen hs
  let rem2 := rem1 - lh
  let minA := if pad1 == some .application then some rem2 else none
  let la := writePacket rem2 minA tagLen app
  ⟨li, lh, la⟩

/-- the space selected for padding did write a packet -/
def padSpaceWrote (ini hs app : SpaceTx) (d : Datagram) : Bool :=
  match spaceToPad ini hs app with
  | none => false
  | some .initial => d.initialLen != 0
  | some .handshake => d.handshakeLen != 0
  | some .application => d.applicationLen != 0

/-- server side of RFC 9000 §14.1: `endpoint/initial.rs` drops Initial datagrams below 1200 bytes -/
def serverAcceptsInitialDatagram (payloadLen : Nat) : Bool := !(payloadLen < 1200)

end Quic.Conn.InitialPadding
