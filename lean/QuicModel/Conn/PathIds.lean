import QuicModel.Conn.PeerIds
/-
  Which PEER connection ID addresses the packets of which PATH: the part of
  `quic/s2n-quic-transport/src/path/manager.rs` that stores one `peer_connection_id` per path
  (`handle_connection_migration`, `update_active_path`, `on_new_connection_id`) on top of the transcribed
  `PeerIdRegistry` (`Conn.PeerIds`, whose `activeCid` is the id of the ACTIVE path).

  * a path is identified by its index in `Manager.paths`; `others` holds the `peer_connection_id` of every path that
    is not the active one
  * `on_new_connection_id` replaces a retired id of the ACTIVE path only; the other paths keep what they have until
    `update_active_path` makes one of them active again (then a retired id is replaced and WRITTEN BACK to the path)
  * non-active paths still send: PATH_CHALLENGE frames of a pending path validation go out on the path they validate
    (`path_validation_only_transmission`), addressed to that path's stored id
  * ghost: `sent` — for every packet the model lets the endpoint build: path, destination connection id, whether the
    path was the active one, and whether the registry still had that id active (not retired by the peer's Retire Prior To)
-/
namespace Quic.Conn.PathIds
open Quic.Conn.PeerIds (Cid Token)

structure Sent where
  path : Nat
  cid : Cid
  onActive : Bool
  unretired : Bool
deriving DecidableEq, Repr

structure State where
  reg : PeerIds.State
  /-- index of the active path -/
  active : Nat := 0
  /-- (path index, `peer_connection_id`) of the non-active paths -/
  others : List (Nat × Cid) := []
  /-- number of paths created so far (`paths.len()`) -/
  nPaths : Nat := 1
  sent : List Sent := []
deriving Repr

def init (peerId : Cid) (rotate : Bool) : State := { reg := PeerIds.init peerId rotate }

def pathCid (s : State) (p : Nat) : Option Cid :=
  if p = s.active then some s.reg.activeCid else (s.others.find? (fun e => e.1 == p)).map (·.2)

/-- `handle_connection_migration`: a datagram from an unknown peer address creates a (non-active) path. When the peer
    also changed the destination id it used, a fresh peer id is consumed for the path if there is one; otherwise the
    path shares the active path's id. -/
def newPath (s : State) (peerChangedDcid : Bool) : State :=
  if peerChangedDcid then
    match PeerIds.consumeNew s.reg.ids with
    | some (c, ids) => { s with reg := { s.reg with ids := ids }, others := (s.nPaths, c) :: s.others, nPaths := s.nPaths + 1 }
    | none => { s with others := (s.nPaths, s.reg.activeCid) :: s.others, nPaths := s.nPaths + 1 }
  else { s with others := (s.nPaths, s.reg.activeCid) :: s.others, nPaths := s.nPaths + 1 }

/-- `update_active_path(new_path_id)` (a non-probing packet arrived on a path that is not the active one).
    `writeBack = true` is the code: the id the path ends up with — its own if the registry still has it active, else a
    freshly consumed one — is stored in `self[new_path_id].peer_connection_id`. With no id to consume the function
    returns `INTERNAL_ERROR` before anything changed. `writeBack = false` is the variant that forgets the store. -/
def switchTo (writeBack : Bool) (s : State) (p : Nat) : State :=
  if p = s.active then s else
  match (s.others.find? (fun e => e.1 == p)).map (·.2) with
  | none => s
  | some cid =>
    let rest := (s.active, s.reg.activeCid) :: s.others.filter (fun e => !(e.1 == p))
    if PeerIds.isActive s.reg cid then
      { s with reg := { s.reg with activeCid := cid }, active := p, others := rest }
    else match PeerIds.consumeNew s.reg.ids with
      | none => s
      | some (c, ids) =>
        { s with reg := { s.reg with ids := ids, activeCid := if writeBack then c else cid }, active := p, others := rest }

inductive Op where
  | newPath (peerChangedDcid : Bool)
  | switchTo (p : Nat)
  /-- `Manager::on_new_connection_id` -/
  | onNewConnectionId (id : Cid) (seq rpt : Nat) (token : Token)
  /-- a packet is built for path `p` (anything on the active path; a path-validation probe on another one) -/
  | send (p : Nat)
deriving Repr

def step (writeBack : Bool) (s : State) : Op → State
  | .newPath b => newPath s b
  | .switchTo p => switchTo writeBack s p
  | .onNewConnectionId id seq rpt tok =>
    match PeerIds.onNewConnectionId s.reg id seq rpt tok with
    | .ok r => { s with reg := r }
    | .error _ => s          -- the connection is closed with an error: nothing is sent any more
  | .send p =>
    match pathCid s p with
    | some c => { s with sent := s.sent ++ [{ path := p, cid := c, onActive := decide (p = s.active), unretired := PeerIds.isActive s.reg c }] }
    | none => s

def run (writeBack : Bool) (s : State) : List Op → State
  | [] => s
  | op :: ops => run writeBack (step writeBack s op) ops

end Quic.Conn.PathIds
