/-
  Model of the connection's peer idle timer
  (`quic/s2n-quic-transport/src/connection/connection_impl.rs`, `connection_timers.rs`):

    * `get_idle_timer_duration` (l.470):
        `let mut duration = self.limits.max_idle_timeout()?.as_millis() as u64;`
        `duration = duration.max(3 * self.current_pto().as_millis() as u64);`
        `Some(Duration::from_millis(duration))`
      -- the negotiated idle timeout AND the PTO are truncated to whole MILLIseconds before the
      `3 *` and the `max`; `None` when the idle timeout is disabled (both sides 0);
      `current_pto()` = `active_path().pto_period(ApplicationData)` (includes the PTO back-off).
    * `on_processed_packet` (l.492): `if let Some(duration) = …  { peer_idle_timer.set(packet.datagram.timestamp + duration);
       reset_peer_idle_timer_on_send = true; }`
    * `on_ack_eliciting_packet_sent` (l.533, called once per transmission burst from `on_transmit`
      l.1085 when the burst contained an ack-eliciting packet):
      `if core::mem::take(&mut reset_peer_idle_timer_on_send) { if let Some(duration) = … { peer_idle_timer.set(timestamp + duration) } }`
    * `on_timeout` (l.1245): `if peer_idle_timer.poll_expiration(timestamp).is_ready() { return Err(idle_timer_expired()) }`
      with `Timer::poll_expiration` = `is_expired` ⇒ cancel; `Timestamp::has_elapsed(now)` ⇔ `self < now + 1 ms`.

  Units as in the code: timestamps in µs, the PTO argument in µs (`Duration` of whole µs),
  the idle timeout in ms.
-/
namespace Quic.Conn.IdleTimer

/-- the literal `3` of `get_idle_timer_duration` (bridged to /repo by `Bridge/Timers.lean`) -/
def PTO_MULTIPLIER : Nat := 3

/-- `MaxIdleTimeout::RECOMMENDED` (ms): the default an endpoint advertises -/
def DEFAULT_MAX_IDLE_TIMEOUT_MS : Nat := 30000

/-- `MAX_HANDSHAKE_DURATION_DEFAULT` (s): what reports the failure of a connection whose idle timer was never
    armed (no packet processed yet) -/
def MAX_HANDSHAKE_DURATION_DEFAULT_SECS : Nat := 10

/-- `K_GRANULARITY.as_micros()` used by `Timestamp::has_elapsed` -/
def K_GRANULARITY_US : Nat := 1000

structure State where
  /-- `timers.peer_idle_timer` (expiration timestamp, µs) -/
  deadline : Option Nat := none
  /-- `timers.reset_peer_idle_timer_on_send` -/
  resetOnSend : Bool := false
  /-- `limits.max_idle_timeout()` in ms (`none` = disabled) -/
  idleMs : Option Nat := some 30000
  /-- the connection was closed with `idle_timer_expired` (all timers cancelled) -/
  expired : Bool := false
deriving Repr, DecidableEq

def init (idleMs : Option Nat) : State := { idleMs := idleMs }

/-- `get_idle_timer_duration()` in ms; `ptoUs` = `current_pto()` in µs -/
def duration (idleMs : Option Nat) (ptoUs : Nat) : Option Nat :=
  match idleMs with
  | none => none
  | some d => some (max d (PTO_MULTIPLIER * (ptoUs / 1000)))

/-- `timestamp + Duration::from_millis(duration)` -/
def arm (t durMs : Nat) : Nat := t + durMs * 1000

/-- `on_processed_packet` at `packet.datagram.timestamp = t` -/
def processed (s : State) (t ptoUs : Nat) : State :=
  match duration s.idleMs ptoUs with
  | some d => { s with deadline := some (arm t d), resetOnSend := true }
  | none => s

/-- `on_ack_eliciting_packet_sent(timestamp = t)` -/
def sentAckEliciting (s : State) (t ptoUs : Nat) : State :=
  if s.resetOnSend then
    let s := { s with resetOnSend := false }       -- `core::mem::take`
    match duration s.idleMs ptoUs with
    | some d => { s with deadline := some (arm t d) }
    | none => s
  else s

/-- `Timer::is_expired(now)` -/
def isExpired (deadline : Option Nat) (now : Nat) : Bool :=
  match deadline with
  | some d => decide (d < now + K_GRANULARITY_US)
  | none => false

/-- the idle-timer part of `on_timeout(timestamp = t)`; `true` = `Err(idle_timer_expired())` -/
def timeout (s : State) (t : Nat) : State × Bool :=
  if isExpired s.deadline t then ({ s with deadline := none, resetOnSend := s.resetOnSend, expired := true }, true)
  else (s, false)

inductive Op where
  | processed (t ptoUs : Nat)
  | sentAckEliciting (t ptoUs : Nat)
  | timeout (t : Nat)
deriving Repr, DecidableEq

/-- one operation; a connection that reported the idle expiry is closed: nothing happens any more -/
def step (s : State) (op : Op) : State :=
  if s.expired then s else
  match op with
  | .processed t p => processed s t p
  | .sentAckEliciting t p => sentAckEliciting s t p
  | .timeout t => (timeout s t).1

def run (s : State) : List Op → State
  | [] => s
  | op :: ops => run (step s op) ops

end Quic.Conn.IdleTimer
