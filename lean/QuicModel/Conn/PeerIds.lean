import QuicModel.Prelude
import QuicModel.Rfc.PeerView
/-
  Transcription of `quic/s2n-quic-transport/src/connection/peer_id_registry.rs` (PeerIdRegistry): the
  connection IDs the PEER issued to this endpoint, their use and their retirement, plus the two places of
  `path/manager.rs` that decide which of them addresses outgoing packets on the active path
  (`Manager::on_new_connection_id`, and the RETIRE_CONNECTION_ID frames written by `Manager::on_transmit`
  into packets of the active path).

  * connection IDs / tokens are byte strings; packet numbers are `Nat`
  * `stateless_reset_map` bookkeeping is not modelled (it does not influence which frames are sent)
  * ghost: `events` — NEW_CONNECTION_ID frames accepted (`rxNcid`), the handshake id (`hsPeer`) and every
    RETIRE_CONNECTION_ID frame written, together with the destination connection ID of the active path at
    that moment (`txRetire seq (some dcid)`).
-/
namespace Quic.Conn.PeerIds
open Quic.Rfc.PeerView (Frame Ev)

abbrev Cid := List Nat
abbrev Token := List Nat

/-- `ACTIVE_CONNECTION_ID_LIMIT` -/
def activeConnectionIdLimit : Nat := 3
/-- `RETIRED_CONNECTION_ID_LIMIT` -/
def retiredConnectionIdLimit : Nat := activeConnectionIdLimit * 2

inductive Status where
  | new
  | inUse
  | inUsePendingNewConnectionId
  | pendingRetirement
  | pendingRetirementRetransmission
  | pendingAcknowledgement (pn : Nat)
deriving DecidableEq, Repr

structure IdInfo where
  id : Cid
  seq : Nat
  token : Option Token
  status : Status
deriving DecidableEq, Repr

inductive Err where
  | invalidNewConnectionId
  | exceededActiveConnectionIdLimit
  | exceededRetiredConnectionIdLimit
  /-- `Manager::on_new_connection_id`: the active path's id was retired and no unused id remains -/
  | noUnusedConnectionId
deriving DecidableEq, Repr

def Err.str : Err → String
  | .invalidNewConnectionId => "invalid-new-connection-id"
  | .exceededActiveConnectionIdLimit => "exceeded-active-limit"
  | .exceededRetiredConnectionIdLimit => "exceeded-retired-limit"
  | .noUnusedConnectionId => "no-unused-connection-id"

namespace IdInfo

/-- `is_active` -/
def isActive (i : IdInfo) : Bool :=
  match i.status with
  | .new | .inUse | .inUsePendingNewConnectionId => true
  | _ => false

/-- `is_retire_ready` -/
def isRetireReady (i : IdInfo) (rpt : Nat) : Bool := i.isActive && decide (i.seq < rpt)

/-- `validate_new_connection_id`: `ok true` = valid duplicate, `ok false` = unrelated -/
def validateNewConnectionId (i : IdInfo) (newId : Cid) (token : Token) (seq : Nat) : Except Err Bool :=
  let tokEq := i.token == some token
  let seqEq := i.seq == seq
  if i.id == newId then
    if !tokEq || !seqEq then .error .invalidNewConnectionId else .ok true
  else if seqEq || tokEq then .error .invalidNewConnectionId
  else .ok false

end IdInfo

structure State where
  /-- `registered_ids` -/
  ids : List IdInfo
  retirePriorTo : Nat
  rotateHandshake : Bool
  /-- `active_path().peer_connection_id` (destination connection ID of packets on the active path) -/
  activeCid : Cid
  events : List Ev
deriving Repr

/-- `PeerIdRegistry::new` + `register_initial_connection_id` (the path manager starts with that id) -/
def init (peerId : Cid) (rotate : Bool) : State :=
  { ids := [{ id := peerId, seq := 0, token := none,
              status := if rotate then .inUsePendingNewConnectionId else .inUse }],
    retirePriorTo := 0, rotateHandshake := rotate, activeCid := peerId, events := [.hsPeer 0 peerId] }

/-- "Upon receipt of an increased Retire Prior To field …": an active id below it becomes `PendingRetirement` -/
def IdInfo.retireIfReady (i : IdInfo) (rpt : Nat) : IdInfo :=
  if i.isRetireReady rpt then { i with status := .pendingRetirement } else i

/-- result of the loop over the registered ids in `on_new_connection_id` -/
structure Scan where
  ids : List IdInfo
  activeCount : Nat
  isDuplicate : Bool
  /-- index-free stand-in for `id_pending_new_connection_id`: was one found -/
  pending : Bool

/-- the `for id_info in registered_ids.iter_mut()` loop; stops with the error of `validate…?` -/
def scan (rpt : Nat) (newId : Cid) (token : Token) (seq : Nat) :
    List IdInfo → Except Err Scan
  | [] => .ok { ids := [], activeCount := 0, isDuplicate := false, pending := false }
  | i :: rest =>
    match i.validateNewConnectionId newId token seq with
    | .error e => .error e
    | .ok dup =>
      match scan rpt newId token seq rest with
      | .error e => .error e
      | .ok r =>
        .ok { ids := i.retireIfReady rpt :: r.ids,
              activeCount := (if (i.retireIfReady rpt).isActive then 1 else 0) + r.activeCount,
              isDuplicate := dup || r.isDuplicate,
              pending := ((i.retireIfReady rpt).status == .inUsePendingNewConnectionId) || r.pending }

/-- set the FIRST id that is `InUsePendingNewConnectionId` to `PendingRetirement` -/
def retirePendingNew : List IdInfo → List IdInfo
  | [] => []
  | i :: rest =>
    if i.status == .inUsePendingNewConnectionId then { i with status := .pendingRetirement } :: rest
    else i :: retirePendingNew rest

/-- the `PeerIdInfo` built for a non-duplicate frame ("… MUST send a corresponding RETIRE_CONNECTION_ID frame that
    retires the newly received connection ID" when its sequence number is below Retire Prior To) -/
def newInfo (newId : Cid) (seq : Nat) (token : Token) (rpt : Nat) : IdInfo :=
  IdInfo.retireIfReady { id := newId, seq := seq, token := some token, status := .new } rpt

/-- `registered_ids` after pushing the new id: an id waiting for a new connection id is retired when the new one is usable -/
def newIdsList (r : Scan) (n : IdInfo) : List IdInfo :=
  (if n.isActive && r.pending then retirePendingNew r.ids else r.ids) ++ [n]

/-- `active_id_count` after pushing the new id -/
def newActiveCount (r : Scan) (n : IdInfo) : Nat :=
  if n.isActive then (if r.pending then r.activeCount + 1 - 1 else r.activeCount + 1) else r.activeCount

/-- `PeerIdRegistry::on_new_connection_id`. NOTE (transcribed quirk): the scan mutates `registered_ids`
    in place while validating, so when a later element makes `validate…?` fail, the statuses already
    changed stay changed (the connection is closed with the error anyway). The model returns the state
    unchanged on error. -/
def registryOnNewConnectionId (s : State) (newId : Cid) (seq rpt : Nat) (token : Token) : Except Err State :=
  match scan (max s.retirePriorTo rpt) newId token seq s.ids with
  | .error e => .error e
  | .ok r =>
    if !r.isDuplicate then
      if newActiveCount r (newInfo newId seq token (max s.retirePriorTo rpt)) > activeConnectionIdLimit then
        .error .exceededActiveConnectionIdLimit
      else if (newIdsList r (newInfo newId seq token (max s.retirePriorTo rpt))).length
                - newActiveCount r (newInfo newId seq token (max s.retirePriorTo rpt)) > retiredConnectionIdLimit then
        .error .exceededRetiredConnectionIdLimit
      else .ok { s with ids := newIdsList r (newInfo newId seq token (max s.retirePriorTo rpt)),
                        retirePriorTo := max s.retirePriorTo rpt,
                        events := s.events ++ [.rxNcid { seq := seq, rpt := rpt, cid := newId, token := token }] }
    else
      if r.ids.length - r.activeCount > retiredConnectionIdLimit then .error .exceededRetiredConnectionIdLimit
      else .ok { s with ids := r.ids, retirePriorTo := max s.retirePriorTo rpt,
                        events := s.events ++ [.rxNcid { seq := seq, rpt := rpt, cid := newId, token := token }] }

/-- `is_active(peer_id)` -/
def isActive (s : State) (id : Cid) : Bool := s.ids.any (fun i => i.id == id && i.isActive)

/-- `consume_new_id_inner`: the first id in status `New` becomes `InUse` -/
def consumeNew : List IdInfo → Option (Cid × List IdInfo)
  | [] => none
  | i :: rest =>
    if i.status == .new then some (i.id, { i with status := .inUse } :: rest)
    else match consumeNew rest with
      | some (c, r) => some (c, i :: r)
      | none => none

/-- `path::Manager::on_new_connection_id` -/
def onNewConnectionId (s : State) (newId : Cid) (seq rpt : Nat) (token : Token) : Except Err State :=
  match registryOnNewConnectionId s newId seq rpt token with
  | .error e => .error e
  | .ok s1 =>
    if !isActive s1 s1.activeCid then
      match consumeNew s1.ids with
      | some (c, ids) => .ok { s1 with ids := ids, activeCid := c }
      | none => .error .noUnusedConnectionId
    else .ok s1

/-- `Manager::update_active_path`: the new active path keeps its id if the registry still has it active,
    otherwise it consumes an unused one (`INTERNAL_ERROR` when there is none: state unchanged) -/
def updateActivePath (s : State) (pathCid : Cid) : State :=
  if isActive s pathCid then { s with activeCid := pathCid }
  else match consumeNew s.ids with
    | some (c, ids) => { s with ids := ids, activeCid := c }
    | none => s

/-- `consume_new_id_for_new_path` (a new, non-active path takes an unused id if there is one) -/
def consumeForNewPath (s : State) : State :=
  match consumeNew s.ids with
  | some (_, ids) => { s with ids := ids }
  | none => s

inductive Interest where
  | none | newData | lostData
deriving DecidableEq, Repr

def IdInfo.transmissionInterest (i : IdInfo) : Interest :=
  match i.status with
  | .pendingRetirementRetransmission => .lostData
  | .pendingRetirement => .newData
  | _ => .none

/-- constraint of the write context: 0 = none, 1 = retransmission only, 2 = congestion limited, 3 = amplification limited -/
def Interest.canTransmit (i : Interest) (c : Nat) : Bool :=
  if c == 3 then false
  else match i with
    | .lostData => c == 0 || c == 1
    | .newData => c == 0
    | .none => false

/-- the loop of `PeerIdRegistry::on_transmit` (packets of the active path: destination = `dcid`); `room` = how many
    more RETIRE_CONNECTION_ID frames fit into packet `pn` -/
def transmitLoop (dcid : Cid) (c : Nat) (pn : Nat) : List IdInfo → Nat → List IdInfo × List Ev
  | [], _ => ([], [])
  | i :: rest, room =>
    if i.transmissionInterest.canTransmit c then
      match room with
      | r + 1 =>
        let (ids, ev) := transmitLoop dcid c pn rest r
        ({ i with status := .pendingAcknowledgement pn } :: ids, .txRetire i.seq (some dcid) :: ev)
      | 0 =>
        let (ids, ev) := transmitLoop dcid c pn rest 0
        (i :: ids, ev)
    else
      let (ids, ev) := transmitLoop dcid c pn rest room
      (i :: ids, ev)

/-- `on_transmit` (the registry-level interest gate only skips the loop when no id can transmit, which the
    loop reproduces) -/
def onTransmit (s : State) (c pn : Nat) (room : Nat) : State :=
  { s with ids := (transmitLoop s.activeCid c pn s.ids room).1,
           events := s.events ++ (transmitLoop s.activeCid c pn s.ids room).2 }

/-- `on_packet_ack`: acknowledged retirements are forgotten -/
def onPacketAck (s : State) (set : List Nat) : State :=
  { s with ids := s.ids.filter (fun i =>
      match i.status with
      | .pendingAcknowledgement pn => !set.contains pn
      | _ => true) }

/-- `on_packet_loss` -/
def onPacketLoss (s : State) (set : List Nat) : State :=
  { s with ids := s.ids.map (fun i =>
      match i.status with
      | .pendingAcknowledgement pn =>
        if set.contains pn then { i with status := .pendingRetirementRetransmission } else i
      | _ => i) }

inductive Op where
  | onNewConnectionId (id : Cid) (seq rpt : Nat) (token : Token)
  | onTransmit (c pn : Nat) (room : Nat)
  | onPacketAck (set : List Nat)
  | onPacketLoss (set : List Nat)
  | updateActivePath (pathCid : Cid)
  | consumeForNewPath
deriving Repr

/-- a failed NEW_CONNECTION_ID closes the connection: the state is kept (no further frames matter) -/
def step (s : State) : Op → State
  | .onNewConnectionId id seq rpt tok =>
    match onNewConnectionId s id seq rpt tok with
    | .ok s' => s'
    | .error _ => s
  | .onTransmit c pn w => onTransmit s c pn w
  | .onPacketAck set => onPacketAck s set
  | .onPacketLoss set => onPacketLoss s set
  | .updateActivePath c => updateActivePath s c
  | .consumeForNewPath => consumeForNewPath s

def run (s : State) : List Op → State
  | [] => s
  | op :: ops => run (step s op) ops

end Quic.Conn.PeerIds
