import QuicModel.Conn.LocalIds
/-
  Transcription of the datagram-routing lookup of `quic/s2n-quic-transport/src/connection/connection_id_mapper.rs`:
  `ConnectionIdMapper::lookup_internal_connection_id` together with the two maps it consults

    * `LocalIdMap`   (`local_id_map`):   connection IDs the endpoint ISSUED (handshake id + NEW_CONNECTION_ID) -> connection
    * `InitialIdMap` (`initial_id_map`): the client-chosen original Destination Connection IDs of connections whose
      handshake is young (kept for retransmitted Initial packets; a server only) -> connection; a bidirectional map
      (`initial_to_internal_id_map` / `internal_to_initial_id_map`)

  The contents of the second map are chosen by REMOTE parties (any client picks its original DCID freely), the
  contents of the first by the endpoint itself. The order in which the lookup consults them therefore decides whether
  a stranger can capture the datagrams of an established connection (C13: "every datagram addressed to any of its
  unretired IDs is delivered to the connection the ID was issued for").

  `lookupIn order` is the lookup for an arbitrary consultation order; `lookup` is the one the code implements
  (`lookupOrder`, re-read from the source by tools/extractors/cid_mapper.py and pinned by QuicProofs/Bridge/CidMapper.lean).
  Connection IDs are byte strings (`List Nat`), internal connection ids are `Nat`.
-/
namespace Quic.Conn.IdMapper
open Quic.Conn.LocalIds (Cid mapGet mapTryInsert mapRemove)

/-- `connection::id::Classification` (the part the lookup produces) -/
inductive Classification where
  | issued      -- `Classification::Local`
  | initial     -- `Classification::Initial`
deriving DecidableEq, Repr

/-- the two maps of `ConnectionIdMapperState` a lookup can consult -/
inductive Source where
  | localMap
  | initialMap
deriving DecidableEq, Repr

/-- numeric code used by the extractor (tie G): 1 = `local_id_map`, 2 = `initial_id_map` -/
def Source.code : Source → Nat
  | .localMap => 1
  | .initialMap => 2

/-- `InitialId::MIN_LEN` (`id!(InitialId, 8)`): `InitialId::try_from(LocalId)` fails for shorter ids -/
def initialIdMinLen : Nat := 8

structure State where
  /-- `endpoint_type.is_server()` -/
  isServer : Bool
  /-- `local_id_map` -/
  localMap : List (Cid × Nat) := []
  /-- `initial_id_map.initial_to_internal_id_map` -/
  initToInt : List (Cid × Nat) := []
  /-- `initial_id_map.internal_to_initial_id_map` -/
  intToInit : List (Nat × Cid) := []
deriving Repr

def intGet (m : List (Nat × Cid)) (k : Nat) : Option Cid :=
  (m.find? (fun e => e.1 == k)).map (·.2)

/-- what one of the two maps answers for a destination connection ID -/
def consult (s : State) (id : Cid) : Source → Option (Nat × Classification)
  | .localMap => (mapGet s.localMap id).map (fun o => (o, Classification.issued))
  | .initialMap =>
    -- `if self.endpoint_type.is_server() { InitialId::try_from(*connection_id).ok().and_then(get) } else { None }`
    if s.isServer && decide (initialIdMinLen ≤ id.length) then
      (mapGet s.initToInt id).map (fun o => (o, Classification.initial))
    else none

/-- consult the maps in the given order, first answer wins (`a.or_else(|| b)`) -/
def lookupIn (order : List Source) (s : State) (id : Cid) : Option (Nat × Classification) :=
  match order with
  | [] => none
  | src :: rest =>
    match consult s id src with
    | some r => some r
    | none => lookupIn rest s id

/-- the order of `lookup_internal_connection_id`: `local_id_map.get(..).map(..).or_else(|| .. initial_id_map.get(..) ..)` -/
def lookupOrder : List Source := [.localMap, .initialMap]

/-- `ConnectionIdMapper::lookup_internal_connection_id` -/
def lookup (s : State) (id : Cid) : Option (Nat × Classification) := lookupIn lookupOrder s id

/-! ### the operations that change the two maps -/

inductive Op where
  /-- `LocalIdMap::try_insert` (a `LocalIdRegistry` registers an id it generated) -/
  | insertLocal (id : Cid) (owner : Nat)
  /-- `LocalIdMap::remove` (retirement / drop of the owning registry) -/
  | removeLocal (id : Cid)
  /-- `ConnectionIdMapper::try_insert_initial_id` (first Initial of a new connection; the id is the CLIENT's choice) -/
  | insertInitial (id : Cid) (owner : Nat)
  /-- `ConnectionIdMapper::remove_initial_id` (3 PTO after the handshake completed, or connection drop) -/
  | removeInitial (owner : Nat)
deriving Repr

def Op.isInitialOp : Op → Bool
  | .insertInitial _ _ => true
  | .removeInitial _ => true
  | _ => false

/-- `InitialIdMap::try_insert`: refused when either direction is occupied -/
def initialTryInsert (s : State) (id : Cid) (owner : Nat) : State :=
  match mapGet s.initToInt id, intGet s.intToInit owner with
  | none, none => { s with initToInt := (id, owner) :: s.initToInt, intToInit := (owner, id) :: s.intToInit }
  | _, _ => s

/-- `InitialIdMap::remove` -/
def initialRemove (s : State) (owner : Nat) : State :=
  match intGet s.intToInit owner with
  | none => s
  | some id => { s with intToInit := s.intToInit.filter (fun e => !(e.1 == owner)), initToInt := mapRemove s.initToInt id }

def step (s : State) : Op → State
  | .insertLocal id owner =>
    match mapTryInsert s.localMap id owner with
    | some m => { s with localMap := m }
    | none => s
  | .removeLocal id => { s with localMap := mapRemove s.localMap id }
  | .insertInitial id owner => if s.isServer then initialTryInsert s id owner else s
  | .removeInitial owner => if s.isServer then initialRemove s owner else s

def run (s : State) : List Op → State
  | [] => s
  | op :: ops => run (step s op) ops

end Quic.Conn.IdMapper
