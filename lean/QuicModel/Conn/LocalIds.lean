import QuicModel.Prelude
import QuicModel.Rfc.PeerView
/-
  Transcription of `quic/s2n-quic-transport/src/connection/local_id_registry.rs` (LocalIdRegistry) together
  with the part of `connection_id_mapper.rs` it touches (`LocalIdMap`: try_insert / remove / get) and of
  `connection_impl.rs::on_new_connection_id` (interest → generate → register).

  * time is virtual: a `Timestamp` is a `Nat` of microseconds; `has_elapsed(now)` ⇔ `self < now + 1 ms`
  * connection IDs / stateless-reset tokens are byte strings (`List Nat`)
  * `debug_assert!`/`assert!` under `cfg!(debug_assertions)`, `expect`, and checked arithmetic that would
    panic are made explicit: the operation answers `Out.panic` and leaves the state unchanged
    (the harness builds have debug assertions enabled; the connection would be gone)
  * the `Memo` caches are not modelled (they are recomputed queries; `check_consistency` asserts that)
  * the shared `ConnectionIdMapperState.local_id_map` is a finite map `List (Cid × InternalId)`; other
    connections of the same endpoint act on it through `envInsert` / `envRemove`
  * ghost (not in the Rust code): `events` — every NEW_CONNECTION_ID frame written by `on_transmit` and
    every RETIRE_CONNECTION_ID accepted by `on_retire_connection_id`, in order (`Rfc.PeerView.Ev`).
-/
namespace Quic.Conn.LocalIds
open Quic.Rfc.PeerView (Frame Ev View observe)

abbrev Cid := List Nat
abbrev Token := List Nat

/-- `MAX_ACTIVE_CONNECTION_ID_LIMIT` -/
def maxActiveConnectionIdLimit : Nat := 3
/-- `EXPIRATION_BUFFER` = 30 s (µs) -/
def expirationBuffer : Nat := 30000000
/-- `RTT_MULTIPLIER` -/
def rttMultiplier : Nat := 3
/-- `K_GRANULARITY` = 1 ms (µs), used by `Timestamp::has_elapsed` -/
def kGranularity : Nat := 1000
/-- `stateless_reset::Token::ZEROED` -/
def zeroedToken : Token := List.replicate 16 0

/-- `Timestamp::has_elapsed` -/
def hasElapsed (t now : Nat) : Bool := decide (t < now + kGranularity)

inductive Status where
  | pendingIssuance
  | pendingReissue
  | pendingAcknowledgement (pn : Nat)
  | active
  | pendingRetirementConfirmation (removal : Option Nat)
  | pendingRemoval (removal : Nat)
deriving DecidableEq, Repr

inductive Interest where
  | none | newData | lostData | forced
deriving DecidableEq, Repr

def Interest.rank : Interest → Nat
  | .none => 0 | .newData => 1 | .lostData => 2 | .forced => 3

def Interest.max (a b : Interest) : Interest := if a.rank < b.rank then b else a

inductive Constraint where
  | none | amplificationLimited | congestionLimited | retransmissionOnly
deriving DecidableEq, Repr

/-- `transmission::Interest::can_transmit` -/
def Interest.canTransmit : Interest → Constraint → Bool
  | _, .amplificationLimited => false
  | .forced, _ => true
  | .lostData, c => c == .none || c == .retransmissionOnly
  | .newData, c => c == .none
  | .none, _ => false

structure IdInfo where
  id : Cid
  seq : Nat
  retirementTime : Option Nat
  token : Token
  status : Status
deriving DecidableEq, Repr

namespace IdInfo

/-- `removal_time` -/
def removalTime (i : IdInfo) : Option Nat :=
  match i.status with
  | .pendingRetirementConfirmation r => r
  | .pendingRemoval r => some r
  | _ => none

/-- `next_status_change_time` = `removal_time().or(retirement_time)` -/
def nextStatusChangeTime (i : IdInfo) : Option Nat :=
  match i.removalTime with
  | some t => some t
  | none => i.retirementTime

/-- `is_retired` -/
def isRetired (i : IdInfo) : Bool :=
  match i.status with
  | .pendingRetirementConfirmation _ => true
  | .pendingRemoval _ => true
  | _ => false

/-- `is_retire_ready` -/
def isRetireReady (i : IdInfo) (now : Nat) : Bool :=
  !i.isRetired && (match i.retirementTime with
                   | some t => hasElapsed t now
                   | none => false)

/-- `is_expired` -/
def isExpired (i : IdInfo) (now : Nat) : Bool :=
  match i.removalTime with
  | some t => hasElapsed t now
  | none => false

/-- `retire(timestamp)`: PendingRetirementConfirmation(timestamp + EXPIRATION_BUFFER) -/
def retire (i : IdInfo) (timestamp : Option Nat) : IdInfo :=
  { i with status := .pendingRetirementConfirmation (timestamp.map (· + expirationBuffer)) }

/-- `transmission_interest` -/
def transmissionInterest (i : IdInfo) : Interest :=
  match i.status with
  | .pendingIssuance => .newData
  | .pendingReissue => .lostData
  | _ => .none

/-- `counts_towards_limit` -/
def countsTowardsLimit (i : IdInfo) : Bool := !i.isRetired

end IdInfo

structure State where
  internalId : Nat
  /-- `registered_ids` -/
  ids : List IdInfo
  nextSeq : Nat
  retirePriorTo : Nat
  /-- `active_connection_id_limit: u8` -/
  limit : Nat
  rotateHandshake : Bool
  /-- the endpoint-wide `local_id_map` (shared with the other connections) -/
  map : List (Cid × Nat)
  /-- ghost: wire-level events of this endpoint in emission/processing order -/
  events : List Ev
  /-- ghost: what the peer is entitled to know = `events` folded through `Rfc.PeerView.observe` -/
  view : View
  /-- ghost: every (sequence number, id, token) `register_connection_id` accepted, oldest first -/
  registered : List (Nat × Cid × Token)
deriving Repr

inductive Out where
  | ok
  | connectionIdInUse
  | invalidSequenceNumber
  | panic (why : String)
deriving DecidableEq, Repr

def Out.str : Out → String
  | .ok => "ok"
  | .connectionIdInUse => "err in-use"
  | .invalidSequenceNumber => "err invalid-seq"
  | .panic w => "panic " ++ w

/-! ### the shared mapper -/

def mapGet (m : List (Cid × Nat)) (id : Cid) : Option Nat :=
  (m.find? (fun e => e.1 == id)).map (·.2)

/-- `LocalIdMap::try_insert` -/
def mapTryInsert (m : List (Cid × Nat)) (id : Cid) (owner : Nat) : Option (List (Cid × Nat)) :=
  match mapGet m id with
  | some _ => none
  | none => some ((id, owner) :: m)

/-- `LocalIdMap::remove` -/
def mapRemove (m : List (Cid × Nat)) (id : Cid) : List (Cid × Nat) :=
  m.filter (fun e => !(e.1 == id))

/-! ### queries (the `Memo`s) -/

/-- `active_id_count` -/
def activeIdCount (s : State) : Nat := (s.ids.filter IdInfo.countsTowardsLimit).length

/-- `transmission_interest` memo: max over the ids -/
def transmissionInterest (s : State) : Interest :=
  s.ids.foldl (fun acc i => acc.max i.transmissionInterest) .none

/-- `next_expiration` memo: min over `next_status_change_time` -/
def nextExpiration (s : State) : Option Nat :=
  s.ids.foldl (fun acc i =>
    match acc, i.nextStatusChangeTime with
    | some a, some t => some (min a t)
    | none, some t => some t
    | a, none => a) none

/-- `ack_interest` memo -/
def ackInterest (s : State) : Bool :=
  s.ids.any (fun i => match i.status with | .pendingAcknowledgement _ => true | _ => false)

/-! ### operations -/

/-- `set_active_connection_id_limit` -/
def setActiveConnectionIdLimit (s : State) (peerLimit : Nat) : State :=
  { s with limit := min maxActiveConnectionIdLimit peerLimit }

/-- `expiration - EXPIRATION_BUFFER` would underflow -/
def expirationUnderflow : Option Nat → Bool
  | some e => decide (e < expirationBuffer)
  | none => false

/-- the state after a successful `register_connection_id` (`m` = the mapper with the new entry) -/
def registerOk (s : State) (id : Cid) (expiration : Option Nat) (token : Token) (m : List (Cid × Nat)) : State :=
  { s with map := m, nextSeq := s.nextSeq + 1, registered := s.registered ++ [(s.nextSeq, id, token)],
           ids := s.ids ++ [{ id := id, seq := s.nextSeq, retirementTime := expiration.map (· - expirationBuffer),
                              token := token, status := .pendingIssuance }] }

/-- `register_connection_id` (including `validate_new_connection_id`, whose checks are debug assertions) -/
def registerConnectionId (s : State) (id : Cid) (expiration : Option Nat) (token : Token) : State × Out :=
  if s.ids.any (fun i => i.id == id) then (s, .connectionIdInUse)
  -- validate_new_connection_id
  else if ¬ (activeIdCount s < s.limit) then (s, .panic "active-connection-id-limit")
  else if s.ids.any (fun i => i.token == token) then (s, .panic "duplicate-stateless-reset-token")
  else
    match mapTryInsert s.map id s.internalId with
    | none => (s, .connectionIdInUse)
    | some m =>
      -- `expiration - EXPIRATION_BUFFER` (Duration subtraction panics on underflow)
      if expirationUnderflow expiration then (s, .panic "expiration-underflow")
      -- `next_sequence_number += 1` on a u32
      else if s.nextSeq + 1 ≥ 2 ^ 32 then (s, .panic "sequence-number-overflow")
      else (registerOk s id expiration token m, .ok)

/-- the registry before the handshake id is registered (limit "1 until we know the actual limit") -/
def emptyState (internalId : Nat) (map : List (Cid × Nat)) (rotate : Bool) : State :=
  { internalId := internalId, ids := [], nextSeq := 0, retirePriorTo := 0, limit := 1,
    rotateHandshake := rotate, map := map, events := [], view := {}, registered := [] }

/-- `LocalIdRegistry::new`: registers the handshake connection ID and makes it `Active`.
    `none` = the constructor panics (`expect("initial id added above")`). -/
def new (internalId : Nat) (map : List (Cid × Nat)) (handshakeId : Cid) (expiration : Option Nat)
    (token : Token) (rotate : Bool) : Option State :=
  match (registerConnectionId (emptyState internalId map rotate) handshakeId expiration token).1.ids with
  | [] => none
  | i :: rest =>
    some { (registerConnectionId (emptyState internalId map rotate) handshakeId expiration token).1 with
                   ids := { i with status := .active } :: rest,
                   events := [.hs i.seq i.id (some i.token)],
                   view := observe {} (.hs i.seq i.id (some i.token)) }

/-- `iter_mut().find(p)` followed by an update of the element found: the element found (as it was) and the
    list with that FIRST match replaced -/
def updateFirst (p : IdInfo → Bool) (f : IdInfo → IdInfo) : List IdInfo → Option (IdInfo × List IdInfo)
  | [] => none
  | i :: rest =>
    if p i then some (i, f i :: rest)
    else match updateFirst p f rest with
      | some (x, r) => some (x, i :: r)
      | none => none

/-- the `filter(..).find(..)` predicate of `on_retire_connection_id` -/
def retirable (seq : Nat) (i : IdInfo) : Bool :=
  (match i.status with | .pendingRemoval _ => false | _ => true) && i.seq == seq

/-- `on_retire_connection_id` -/
def onRetireConnectionId (s : State) (seq : Nat) (dcid : Cid) (rtt now : Nat) : State × Out :=
  if seq ≥ s.nextSeq then (s, .invalidSequenceNumber)
  else
    -- removal time based on RTT: `timestamp + rtt * RTT_MULTIPLIER`
    match updateFirst (retirable seq) (fun i => { i with status := .pendingRemoval (now + rtt * rttMultiplier) }) s.ids with
    | some (info, ids) =>
      if info.id == dcid then (s, .invalidSequenceNumber)
      else ({ s with ids := ids, events := s.events ++ [.rxRetire seq], view := observe s.view (.rxRetire seq) }, .ok)
    | none => ({ s with events := s.events ++ [.rxRetire seq], view := observe s.view (.rxRetire seq) }, .ok)

/-- `connection_id_interest`: `none` = u8 subtraction underflow (panic), `some n` = Interest::New(n) / None for 0 -/
def connectionIdInterest (s : State) : Option Nat :=
  if s.limit < activeIdCount s then none else some (s.limit - activeIdCount s)

/-- `unregister_expired_ids` -/
def unregisterExpiredIds (s : State) (now : Nat) : State :=
  let gone := s.ids.filter (fun i => i.isExpired now)
  { s with ids := s.ids.filter (fun i => !i.isExpired now),
           map := gone.foldl (fun m i => mapRemove m i.id) s.map }

/-- per-id effect of the retirement loop of `on_timeout` -/
def IdInfo.retireIfReady (now : Nat) (i : IdInfo) : IdInfo :=
  if i.isRetireReady now then i.retire (some now) else i

/-- `on_timeout` -/
def onTimeout (s : State) (now : Nat) : State :=
  match nextExpiration s with
  | some t =>
    if hasElapsed t now then
      unregisterExpiredIds
        { s with ids := s.ids.map (IdInfo.retireIfReady now),
                 retirePriorTo := s.ids.foldl (fun r i => if i.isRetireReady now then max r (i.seq + 1) else r) s.retirePriorTo }
        now
    else s
  | none => s

/-- the loop of `on_transmit`: every id whose interest can transmit asks `write_frame`. The write context
    is abstracted to `room` = how many more NEW_CONNECTION_ID frames fit into packet `pn` (the frames of one
    connection have equal size, so once one does not fit none of the following does). -/
def transmitLoop (rpt : Nat) (c : Constraint) (pn : Nat) :
    List IdInfo → Nat → List IdInfo × List Ev
  | [], _ => ([], [])
  | i :: rest, room =>
    if i.transmissionInterest.canTransmit c then
      match room with
      | r + 1 =>
        let (ids, ev) := transmitLoop rpt c pn rest r
        ({ i with status := .pendingAcknowledgement pn } :: ids,
         .txNcid { seq := i.seq, rpt := rpt, cid := i.id, token := i.token } :: ev)
      | 0 =>
        let (ids, ev) := transmitLoop rpt c pn rest 0
        (i :: ids, ev)
    else
      let (ids, ev) := transmitLoop rpt c pn rest room
      (i :: ids, ev)

/-- `on_transmit` -/
def onTransmit (s : State) (c : Constraint) (pn : Nat) (room : Nat) : State :=
  if !(transmissionInterest s).canTransmit c then s
  else
    let (ids, ev) := transmitLoop s.retirePriorTo c pn s.ids room
    { s with ids := ids, events := s.events ++ ev, view := ev.foldl observe s.view }

/-- per-id effect of `on_packet_ack` -/
def IdInfo.onAck (set : List Nat) (i : IdInfo) : IdInfo :=
  match i.status with
  | .pendingAcknowledgement pn =>
    -- "Once the NEW_CONNECTION_ID is acknowledged, we don't need the stateless reset token anymore."
    if set.contains pn then { i with status := .active, token := zeroedToken } else i
  | _ => i

/-- `on_packet_ack` -/
def onPacketAck (s : State) (set : List Nat) : State :=
  if !ackInterest s then s else { s with ids := s.ids.map (IdInfo.onAck set) }

/-- per-id effect of `on_packet_loss` -/
def IdInfo.onLoss (set : List Nat) (i : IdInfo) : IdInfo :=
  match i.status with
  | .pendingAcknowledgement pn => if set.contains pn then { i with status := .pendingReissue } else i
  | _ => i

/-- `on_packet_loss` -/
def onPacketLoss (s : State) (set : List Nat) : State :=
  if !ackInterest s then s else { s with ids := s.ids.map (IdInfo.onLoss set) }

/-- `retire_handshake_connection_id` -/
def retireHandshakeConnectionId (s : State) : State :=
  match updateFirst (fun i => i.seq == 0 && !i.isRetired) (fun i => i.retire i.retirementTime) s.ids with
  | some (h, ids) => { s with ids := ids, retirePriorTo := max s.retirePriorTo (h.seq + 1) }
  | none => s

/-- `on_handshake_confirmed` -/
def onHandshakeConfirmed (s : State) : State :=
  if s.rotateHandshake then retireHandshakeConnectionId s else s

/-- `connection_impl.rs::on_new_connection_id`: ask the registry how many ids it wants and register that many
    outputs of the generator (`gen` = the ids/tokens the generator will produce, `expiration` from `lifetime()`);
    stops at the first error like the `?` in the Rust loop -/
def registerMany (s : State) : Nat → List (Cid × Token) → Option Nat → State × Out
  | 0, _, _ => (s, .ok)
  | _ + 1, [], _ => (s, .ok)
  | n + 1, (id, tok) :: gen, expiration =>
    match registerConnectionId s id expiration tok with
    | (s', .ok) => registerMany s' n gen expiration
    | r => r

def connOnNewConnectionId (s : State) (gen : List (Cid × Token)) (expiration : Option Nat) : State × Out :=
  match connectionIdInterest s with
  | none => (s, .panic "interest-underflow")
  | some n => registerMany s n gen expiration

/-! ### histories -/

inductive Op where
  /-- `set_active_connection_id_limit(p)` with the peer's transport parameter `p` (a parameter of the run) -/
  | setLimit
  | register (id : Cid) (expiration : Option Nat) (token : Token)
  | onRetire (seq : Nat) (dcid : Cid) (rtt now : Nat)
  | onTimeout (now : Nat)
  | onTransmit (c : Constraint) (pn : Nat) (room : Nat)
  | onPacketAck (set : List Nat)
  | onPacketLoss (set : List Nat)
  | onHandshakeConfirmed
  /-- another connection of the endpoint registers one of its ids at the shared mapper -/
  | envInsert (id : Cid) (owner : Nat)
  /-- another connection unregisters one of ITS ids (a registry only ever removes ids it inserted) -/
  | envRemove (id : Cid)
deriving Repr

/-- one operation; `p` is the peer's `active_connection_id_limit` transport parameter -/
def step (p : Nat) (s : State) : Op → State × Out
  | .setLimit => (setActiveConnectionIdLimit s p, .ok)
  | .register id e t => registerConnectionId s id e t
  | .onRetire seq dcid rtt now => onRetireConnectionId s seq dcid rtt now
  | .onTimeout now => (onTimeout s now, .ok)
  | .onTransmit c pn w => (onTransmit s c pn w, .ok)
  | .onPacketAck set => (onPacketAck s set, .ok)
  | .onPacketLoss set => (onPacketLoss s set, .ok)
  | .onHandshakeConfirmed => (onHandshakeConfirmed s, .ok)
  | .envInsert id owner =>
    if owner = s.internalId then (s, .ok)
    else match mapTryInsert s.map id owner with
      | some m => ({ s with map := m }, .ok)
      | none => (s, .connectionIdInUse)
  | .envRemove id =>
    if mapGet s.map id = some s.internalId then (s, .ok)
    else ({ s with map := mapRemove s.map id }, .ok)

def run (p : Nat) (s : State) : List Op → State
  | [] => s
  | op :: ops => run p (step p s op).1 ops

/-- `ConnectionIdMapper::lookup_internal_connection_id` restricted to the local id map -/
def lookup (s : State) (id : Cid) : Option Nat := mapGet s.map id

/-- the NEW_CONNECTION_ID frames emitted so far (wire-level ghost) -/
def framesOf (ev : List Ev) : List Frame :=
  ev.filterMap (fun e => match e with | .txNcid f => some f | _ => none)

def emitted (s : State) : List Frame := framesOf s.events

end Quic.Conn.LocalIds
