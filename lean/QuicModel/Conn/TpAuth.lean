import QuicModel.Prelude
import QuicModel.Rfc.TransportParams
/-
  Connection-ID authentication through transport parameters (RFC 9000 §7.3).

  `Conn.TpAuth` transcribes the decision logic of
    quic/s2n-quic-transport/src/space/session_context.rs
      SessionContext::on_server_params                      (lines 89-223, run by a CLIENT on the server's block)
      SessionContext::on_client_params                      (lines 226-281, run by a SERVER on the client's block)
      SessionContext::validate_initial_source_connection_id (lines 292-324)
  restricted to the connection-ID checks, in the order the code performs them; every `Err` below is
  `transport::Error::TRANSPORT_PARAMETER_ERROR.with_reason(<the reason in the comment>)` in the code.
  Comparisons are `ct_eq` on byte slices = equality of the byte strings (length included).
  These functions are private to s2n-quic-transport: there is no differential tie from vh-core; the
  end-to-end tie (T) is the place where this model is checked against the code.

  `Rfc.TpAuth` is the §7.3 requirement written as a predicate.
-/
namespace Quic.Conn.TpAuth
open Quic.Rfc.TransportParams (Role)

inductive AuthErr where
  | iscidMismatch                -- "initial_source_connection_id mismatch"
  | iscidMissing                 -- "missing initial_source_connection_id"
  | rscidMismatch                -- "retry_source_connection_id mismatch"
  | rscidAbsentAfterRetry        -- "retry_source_connection_id transport parameter absent after receiving a Retry packet from the server"
  | rscidPresentWithoutRetry     -- "retry_source_connection_id transport parameter present when no Retry packet was received"
  | odcidMismatch                -- "original_destination_connection_id mismatch"
  | odcidMissing                 -- "missing original_destination_connection_id"
  deriving DecidableEq, Repr

/-- what the validating endpoint observed on the wire -/
structure Handshake where
  /-- `path_manager.active_path().peer_connection_id`: Source Connection ID of the peer's first Initial -/
  peerScid : List Nat
  /-- `self.retry_cid`: Source Connection ID of the Retry packet the client received, if any -/
  retryScid : Option (List Nat)
  /-- `self.initial_cid`: Destination Connection ID of the client's first Initial -/
  originalDcid : List Nat
  deriving DecidableEq, Repr

/-- the three connection-ID parameters of the peer's (successfully decoded) block -/
structure PeerCids where
  iscid : Option (List Nat)
  odcid : Option (List Nat)
  rscid : Option (List Nat)
  deriving DecidableEq, Repr

/-- `validate_initial_source_connection_id` -/
def validateIscid (peer : Option (List Nat)) (expected : List Nat) : Except AuthErr Unit :=
  match peer with
  | some v => if v ≠ expected then .error .iscidMismatch else .ok ()
  | none => .error .iscidMissing

/-- `on_server_params` (the client validates the server's parameters) -/
def onServerParams (h : Handshake) (p : PeerCids) : Except AuthErr Unit :=
  match validateIscid p.iscid h.peerScid with
  | .error e => .error e
  | .ok () =>
    let retry : Except AuthErr Unit :=
      match h.retryScid, p.rscid with
      | some r, some t => if r ≠ t then .error .rscidMismatch else .ok ()
      | some _, none => .error .rscidAbsentAfterRetry
      | none, some _ => .error .rscidPresentWithoutRetry
      | none, none => .ok ()
    match retry with
    | .error e => .error e
    | .ok () =>
      match p.odcid with
      | some v => if v ≠ h.originalDcid then .error .odcidMismatch else .ok ()
      | none => .error .odcidMissing

/-- `on_client_params` (the server validates the client's parameters; the decoder has already
    rejected original_destination_connection_id / retry_source_connection_id from a client) -/
def onClientParams (h : Handshake) (p : PeerCids) : Except AuthErr Unit :=
  validateIscid p.iscid h.peerScid

/-- `role` = who SENT the parameters -/
def authenticate (role : Role) (h : Handshake) (p : PeerCids) : Except AuthErr Unit :=
  match role with
  | .server => onServerParams h p
  | .client => onClientParams h p

def isOk : Except AuthErr Unit → Bool
  | .ok _ => true
  | .error _ => false

end Quic.Conn.TpAuth

namespace Quic.Rfc.TpAuth
open Quic.Rfc.TransportParams (Role)
open Quic.Conn.TpAuth (Handshake PeerCids)

/-- RFC 9000 §7.3.  "An endpoint MUST treat the absence of the initial_source_connection_id transport
    parameter from either endpoint or the absence of the original_destination_connection_id transport
    parameter from the server as a connection error of type TRANSPORT_PARAMETER_ERROR.  An endpoint
    MUST treat the following as a connection error of type TRANSPORT_PARAMETER_ERROR or
    PROTOCOL_VIOLATION: absence of the retry_source_connection_id transport parameter from the server
    after receiving a Retry packet, presence of the retry_source_connection_id transport parameter
    when no Retry packet was received, or a mismatch between values received from a peer in these
    transport parameters and the value sent in the corresponding Destination or Source Connection ID
    fields of Initial packets." -/
def authentic (role : Role) (h : Handshake) (p : PeerCids) : Bool :=
  match role with
  | .server =>
    -- initial_source_connection_id = SCID of the server's first Initial,
    -- original_destination_connection_id = DCID of the client's first Initial,
    -- retry_source_connection_id present exactly when a Retry was received, and equal to its SCID
    decide (p.iscid = some h.peerScid) && decide (p.odcid = some h.originalDcid) && decide (p.rscid = h.retryScid)
  | .client =>
    decide (p.iscid = some h.peerScid)

end Quic.Rfc.TpAuth
