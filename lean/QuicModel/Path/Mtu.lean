/-
  Model of `quic/s2n-quic-core/src/path/mtu.rs` (`mtu::Config`/`Builder`/`Controller`), transcribed
  function by function. Machine integers are `Nat`; the u16 subtractions of the Rust code are written
  with truncated `-` and the theorems (`QuicProofs.Props.C02Mtu`) show their operands are ordered in
  every reachable state (so the debug-build panic / release-build wrap never happens).
  Not modelled: `needs_to_send_completion` / `mtu_probing_complete_support` (dc MtuProbingComplete
  frame; never enabled by the driver), events published, header/tag length of the writer (0 in D).
  Times are microseconds.
-/
namespace Quic.Path.Mtu

def MAX_PROBES : Nat := 3
def ETHERNET_MTU : Nat := 1500
def PROBE_THRESHOLD : Nat := 20
def BLACK_HOLE_THRESHOLD : Nat := 3
def BLACK_HOLE_COOL_OFF_US : Nat := 60 * 1000000
def PMTU_RAISE_TIMER_US : Nat := 600 * 1000000
def MINIMUM_MAX_DATAGRAM_SIZE : Nat := 1200
def UDP_HEADER_LEN : Nat := 8
def IPV4_MIN_HEADER_LEN : Nat := 20
def IPV6_MIN_HEADER_LEN : Nat := 40
/-- `MINIMUM_MTU = MINIMUM_MAX_DATAGRAM_SIZE + UDP_HEADER_LEN + const_min(IPV4_MIN_HEADER_LEN, IPV6_MIN_HEADER_LEN)` -/
def MINIMUM_MTU : Nat := MINIMUM_MAX_DATAGRAM_SIZE + UDP_HEADER_LEN + min IPV4_MIN_HEADER_LEN IPV6_MIN_HEADER_LEN
def DEFAULT_MAX_MTU : Nat := 1500
/-- `Timestamp::has_elapsed` adds `K_GRANULARITY` (1 ms) to `now` -/
def K_GRANULARITY_US : Nat := 1000

/-! ## Config / Builder -/
structure Config where
  initial : Nat
  base : Nat
  max : Nat
deriving DecidableEq, Repr

/-- `Config::is_valid` -/
def Config.isValid (c : Config) : Bool := decide (c.base ≤ c.initial) && decide (c.initial ≤ c.max)

/-- `impl TryFrom<u16> for $name` -/
def tryFrom (v : Nat) : Option Nat := if v < MINIMUM_MTU then none else some v

structure Builder where
  initial : Option Nat := none
  base : Option Nat := none
  max : Option Nat := none
deriving DecidableEq, Repr

/-- `ensure!(cond)` on an optional earlier setting -/
def okWith (o : Option Nat) (p : Nat → Bool) : Bool := match o with | some x => p x | none => true

def Builder.withInitial (b : Builder) (v : Nat) : Option Builder :=
  if !okWith b.base (fun x => decide (v ≥ x)) then none
  else if !okWith b.max (fun x => decide (v ≤ x)) then none
  else match tryFrom v with
    | none => none
    | some x => some { b with initial := some x }

def Builder.withBase (b : Builder) (v : Nat) : Option Builder :=
  if !okWith b.initial (fun x => decide (x ≥ v)) then none
  else if !okWith b.max (fun x => decide (v ≤ x)) then none
  else match tryFrom v with
    | none => none
    | some x => some { b with base := some x }

def Builder.withMax (b : Builder) (v : Nat) : Option Builder :=
  if !okWith b.initial (fun x => decide (x ≤ v)) then none
  else if !okWith b.base (fun x => decide (x ≤ v)) then none
  else match tryFrom v with
    | none => none
    | some x => some { b with max := some x }

def Builder.build (b : Builder) : Option Config :=
  let base := b.base.getD MINIMUM_MTU
  let mx := b.max.getD DEFAULT_MAX_MTU
  let initial? : Option Nat :=
    match b.initial with
    | some i => some i
    | none => tryFrom (min (Nat.max MINIMUM_MTU base) mx)
  match initial? with
  | none => none
  | some initial =>
    let c : Config := { initial := initial, base := base, max := mx }
    if c.isValid then some c else none

/-! ## Controller -/
inductive St where
  | early | disabled | searchRequested
  | searching (pn : Nat) (t : Nat)
  | searchComplete
deriving DecidableEq, Repr

structure Ctl where
  state : St
  base : Nat            -- base_plpmtu
  plpmtu : Nat
  maxUdp : Nat          -- max_udp_payload
  probed : Nat          -- probed_size
  maxProbe : Nat        -- max_probe_size
  probeCount : Nat
  bh : Nat              -- black_hole_counter (Saturating u8)
  largestAcked : Option Nat
  timer : Option Nat    -- pmtu_raise_timer
deriving DecidableEq, Repr

def ipHdr (v6 : Bool) : Nat := if v6 then IPV6_MIN_HEADER_LEN else IPV4_MIN_HEADER_LEN

/-- `$name::max_datagram_size` -/
def maxDatagramSize (mtu : Nat) (v6 : Bool) : Nat :=
  Nat.max (mtu - UDP_HEADER_LEN - ipHdr v6) MINIMUM_MAX_DATAGRAM_SIZE

/-- `Controller::next_probe_size` -/
def nextProbeSize (current mx : Nat) : Nat := current + ((mx - current) / 2)

/-- `Controller::is_next_probe_size_above_threshold` -/
def Ctl.above (c : Ctl) : Bool := decide (c.probed - c.plpmtu ≥ PROBE_THRESHOLD)

/-- `Controller::new` -/
def Ctl.new (cfg : Config) (v6 : Bool) : Ctl :=
  let base := maxDatagramSize cfg.base v6
  let maxUdp := maxDatagramSize cfg.max v6
  let plpmtu := maxDatagramSize cfg.initial v6
  let ips := min (if cfg.initial > ETHERNET_MTU - PROBE_THRESHOLD then nextProbeSize plpmtu maxUdp
                  else ETHERNET_MTU - UDP_HEADER_LEN - ipHdr v6) maxUdp
  let st := if plpmtu > base then St.early
            else if ips - base < PROBE_THRESHOLD then St.searchComplete
            else St.disabled
  { state := st, base := base, plpmtu := plpmtu, maxUdp := maxUdp, probed := ips, maxProbe := maxUdp,
    probeCount := 0, bh := 0, largestAcked := none, timer := none }

/-- `set_search_complete` -/
def Ctl.setComplete (c : Ctl) : Ctl := { c with state := .searchComplete }

/-- `update_probed_size` -/
def Ctl.updateProbed (c : Ctl) : Ctl := { c with probed := nextProbeSize c.plpmtu c.maxProbe }

/-- `arm_pmtu_raise_timer` -/
def Ctl.armTimer (c : Ctl) (ts : Nat) : Ctl :=
  let c := { c with maxProbe := c.maxUdp }
  let c := c.updateProbed
  if c.above then { c with timer := some ts } else c

/-- `request_new_search` -/
def Ctl.requestNewSearch (c : Ctl) (last : Option Nat) : Ctl :=
  if c.above then { c with probeCount := 0, state := .searchRequested }
  else
    let c := c.setComplete
    match last with
    | some t => c.armTimer (t + PMTU_RAISE_TIMER_US)
    | none => c

/-- `enable` -/
def Ctl.enable (c : Ctl) : Ctl :=
  if c.state = .disabled ∨ c.state = .early then c.requestNewSearch none else c

/-- `on_timeout` (`Timer::poll_expiration` → `Timestamp::has_elapsed`) -/
def Ctl.onTimeout (c : Ctl) (now : Nat) : Ctl :=
  match c.timer with
  | some t => if t < now + K_GRANULARITY_US then ({ c with timer := none } : Ctl).requestNewSearch none else c
  | none => c

/-- `largest_acked_mtu_sized_packet.is_none_or(|pn| packet_number > pn)` -/
def newerThanAcked (la : Option Nat) (pn : Nat) : Bool :=
  match la with | none => true | some x => decide (pn > x)

/-- result of ack/loss: `MtuResult` and the number of `on_mtu_update` calls on the congestion controller -/
structure Res where
  upd : Option Nat
  cc : Nat
deriving DecidableEq, Repr

def nc : Res := ⟨none, 0⟩

/-- `on_packet_ack`; `app` = `packet_number.space().is_application_data()` -/
def Ctl.onAck (c : Ctl) (pn bytes : Nat) (app : Bool) : Ctl × Res :=
  let c := if c.state = .early ∧ bytes > c.base then
             (if c.above then { c with state := .disabled } else c.setComplete)
           else c
  if c.state = .disabled then (c, nc)
  else if !app then (c, nc)
  else
    let c := if decide (bytes ≥ c.plpmtu) && newerThanAcked c.largestAcked pn then
               { c with bh := 0, largestAcked := some pn } else c
    match c.state with
    | .searching ppn t =>
      if pn = ppn then
        let c := { c with plpmtu := c.probed }
        let c := c.updateProbed
        let c := c.requestNewSearch (some t)
        (c, ⟨some c.plpmtu, 1⟩)
      else (c, nc)
    | _ => (c, nc)

/-- `on_black_hole_detected` -/
def Ctl.onBlackHole (c : Ctl) (now : Nat) : Ctl × Res :=
  let c := { c with bh := 0, largestAcked := none, plpmtu := c.base }
  let c := c.setComplete
  let c := c.armTimer (now + BLACK_HOLE_COOL_OFF_US)
  (c, ⟨some c.plpmtu, 1⟩)

/-- the `(base_plpmtu + 1..=plpmtu).contains(&lost_bytes) && is_none_or(..) && new_loss_burst` test -/
def Ctl.lossCounts (c : Ctl) (pn bytes : Nat) (burst : Bool) : Bool :=
  (decide (c.base + 1 ≤ bytes) && decide (bytes ≤ c.plpmtu)) && newerThanAcked c.largestAcked pn && burst

/-- last match arm of `on_packet_loss` -/
def Ctl.lossOther (c : Ctl) (pn bytes : Nat) (burst : Bool) (now : Nat) : Ctl × Res :=
  let c := if c.lossCounts pn bytes burst then { c with bh := min 255 (c.bh + 1) } else c
  if c.bh > BLACK_HOLE_THRESHOLD then c.onBlackHole now else (c, nc)

/-- `on_packet_loss` -/
def Ctl.onLoss (c : Ctl) (pn bytes : Nat) (burst : Bool) (now : Nat) (app : Bool) : Ctl × Res :=
  if !(decide (c.state = .early) || app) then (c, nc)
  else match c.state with
    | .disabled => (c, nc)
    | .early =>
      let c := { c with plpmtu := c.base }
      let c := if c.above then { c with state := .disabled } else c.setComplete
      (c, ⟨some c.plpmtu, 1⟩)
    | .searching ppn _ =>
      if ppn = pn then
        if c.probeCount = MAX_PROBES then
          let c := { c with maxProbe := c.probed }
          let c := c.updateProbed
          (c.requestNewSearch none, nc)
        else ({ c with state := .searchRequested }, nc)
      else c.lossOther pn bytes burst now
    | .searchComplete => c.lossOther pn bytes burst now
    | .searchRequested => c.lossOther pn bytes burst now

/-- `on_transmit_probe` in `MtuProbing` mode with a writer of remaining capacity `cap`, header/tag length 0,
    whose `write_frame` yields packet number `pn` (or `None` when `fail`) at time `now` -/
def Ctl.onTx (c : Ctl) (pn now cap : Nat) (fail : Bool) : Ctl :=
  if c.state ≠ .searchRequested then c
  else if cap < c.probed then c.setComplete
  else if fail then c
  else { c with probeCount := c.probeCount + 1, state := .searching pn now }

inductive Ev where
  | enable
  | tx (pn now cap : Nat) (fail : Bool)
  | ack (pn bytes : Nat) (app : Bool)
  | loss (pn bytes : Nat) (burst : Bool) (now : Nat) (app : Bool)
  | timeout (now : Nat)
deriving DecidableEq, Repr

def Ctl.stepR (c : Ctl) : Ev → Ctl × Res
  | .enable => (c.enable, nc)
  | .tx pn now cap fail => (c.onTx pn now cap fail, nc)
  | .ack pn bytes app => c.onAck pn bytes app
  | .loss pn bytes burst now app => c.onLoss pn bytes burst now app
  | .timeout now => (c.onTimeout now, nc)

def Ctl.step (c : Ctl) (e : Ev) : Ctl := (c.stepR e).1

def Ctl.run (c : Ctl) : List Ev → Ctl
  | [] => c
  | e :: es => (c.step e).run es

/-- `probe_needed` -/
def Ctl.probeNeeded (c : Ctl) : Bool := decide (c.state = .searchRequested)

end Quic.Path.Mtu
