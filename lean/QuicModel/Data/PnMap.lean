import QuicModel.Prelude
/-
  Model of `quic/s2n-quic-core/src/packet/number/map.rs` (`packet::number::Map<V>`, the ring
  buffer that tracks sent packets; C16, used by C09).

  `Quic.Data.PnMap` transcribes the Rust code: `values : Box<[Option<V>]>` is a
  `List (Option Nat)` (V = u64 in the harness), `start`/`end`/`index` as in the struct, `index =
  values.len()` is the "empty" marker.  Functions return `Option`: `none` means the Rust code
  panics there (`debug_assert!`, `assert!` of `PacketNumberRange::new`, `unreachable!()`,
  `expect`, `unwrap`).  Slice indexing is always by a value reduced `% values.len()` (or `0`, or
  a distance the buffer was just resized beyond), so out-of-bounds indexing is not modelled.
  Not modelled: allocation failure of `resize`, the lazily drained `RemoveIter` when the caller
  leaks it (`Drop` drains it, so the effect is that of a full drain).

  `Quic.Data.RefMap` is the independent reference: a plain association list.
-/
namespace Quic.Data.PnMap

/-- `const DEFAULT_CAPACITY: usize = 8` -/
def defaultCapacity : Nat := 8

structure State where
  values : List (Option Nat)
  start : Nat
  endPn : Nat
  index : Nat
deriving Repr, DecidableEq

/-- `Map::default()` -/
def init : State :=
  { values := List.replicate defaultCapacity none, start := 0, endPn := 0, index := defaultCapacity }

/-- `fn is_empty`: `self.index == self.values.len()` -/
def isEmpty (s : State) : Bool := s.index == s.values.length

/-- `fn logical_clear` -/
def logicalClear (s : State) : State := { s with index := s.values.length }

/-- `fn pn_index` (`checked_distance(start)` = `pn.checked_sub(start)`) -/
def pnIndex (s : State) (pn : Nat) : Option Nat :=
  if isEmpty s then none
  else if pn > s.endPn then none
  else if pn < s.start then none
  else some ((s.index + (pn - s.start)) % s.values.length)

/-- `self.values[i]` as an `Option<V>` -/
def slot (s : State) (i : Nat) : Option Nat := s.values.getD i none

/-- `fn get` -/
def get (s : State) (pn : Nat) : Option Nat :=
  match pnIndex s pn with
  | none => none
  | some i => slot s i

/-- the `for packet_number in PacketNumberRange::new(packet_number, self.end)` search of `set_start` -/
def findUp (s : State) (pn : Nat) : Nat → Option Nat
  | 0 => none
  | fuel + 1 => if (get s pn).isSome then some pn else findUp s (pn + 1) fuel

/-- `fn set_start`; `none` = a `debug_assert!`/`assert!`/`unreachable!()`/`expect` fired -/
def setStart (s : State) (pn : Nat) : Option State :=
  if isEmpty s then none
  else if pn < s.start then none
  else if pn > s.endPn then none
  else
    match findUp s pn (s.endPn + 1 - pn) with
    | none => none
    | some p =>
      match pnIndex s p with
      | none => none
      | some i => some { s with index := i, start := p }

/-- the `.rev()` search of `set_end` -/
def findDown (s : State) (pn : Nat) : Nat → Option Nat
  | 0 => none
  | fuel + 1 =>
    if (get s pn).isSome then some pn
    else if pn = 0 then none
    else findDown s (pn - 1) fuel

/-- `fn set_end` -/
def setEnd (s : State) (pn : Nat) : Option State :=
  if isEmpty s then none
  else if pn < s.start then none
  else if pn > s.endPn then none
  else
    match findDown s pn (pn + 1 - s.start) with
    | none => none
    | some p => some { s with endPn := p }

/-- the `loop { new_len *= 2; if len < new_len { break } }` of `resize` -/
def growLen (newLen len : Nat) : Nat → Nat
  | 0 => newLen
  | fuel + 1 =>
    let n := newLen * 2
    if len < n then n else growLen n len fuel

/-- `fn resize` -/
def resize (s : State) (len : Nat) : State :=
  let newLen := growLen s.values.length len (len + 1)
  let vals := s.values.drop s.index ++ s.values.take s.index
  { s with values := vals ++ List.replicate (newLen - vals.length) none, index := 0 }

/-- the index computation shared by `insert` and `insert_or_update` -/
def placeFor (s : State) (pn : Nat) : State × Nat :=
  let distance := pn - s.start
  if distance ≥ s.values.length then (resize s distance, distance)
  else (s, (s.index + distance) % s.values.length)

/-- `fn insert`; `none` = the monotonicity `debug_assert!` fired -/
def insert (s : State) (pn v : Nat) : Option State :=
  if isEmpty s then
    some { values := s.values.set 0 (some v), start := pn, endPn := pn, index := 0 }
  else if !(decide (pn > s.start) && decide (pn > s.endPn)) then none
  else
    let p := placeFor s pn
    some { p.1 with values := p.1.values.set p.2 (some v), endPn := pn }

/-- `fn insert_or_update`; `none` = `debug_assert!(packet_number >= self.start)` fired -/
def insertOrUpdate (s : State) (pn v : Nat) (update : Nat → Nat) : Option State :=
  if isEmpty s then
    some { values := s.values.set 0 (some v), start := pn, endPn := pn, index := 0 }
  else if !(decide (pn ≥ s.start)) then none
  else
    let p := placeFor s pn
    let entry := match slot p.1 p.2 with
      | some prev => some (update prev)
      | none => some v
    some { p.1 with values := p.1.values.set p.2 entry, endPn := max s.endPn pn }

/-- `fn remove` -/
def remove (s : State) (pn : Nat) : Option (State × Option Nat) :=
  match pnIndex s pn with
  | none => some (s, none)
  | some i =>
    match slot s i with
    | none => some (s, none)
    | some info =>
      let s1 := { s with values := s.values.set i none }
      let r : Option State :=
        match s.start == pn, s.endPn == pn with
        | true, true => some (logicalClear s1)
        | true, false => setStart s1 (pn + 1)
        | false, true => if pn = 0 then none else setEnd s1 (pn - 1)
        | false, false => some s1
      match r with
      | none => none
      | some s2 => some (s2, some info)

/-- `RemoveIter::next` run to exhaustion (collect or `Drop`) -/
def drain (vals : List (Option Nat)) (idx pn : Nat) : Nat → List (Option Nat) × List (Nat × Nat)
  | 0 => (vals, [])
  | rem + 1 =>
    let idx' := (idx + 1) % vals.length
    match vals.getD idx none with
    | some v =>
      let r := drain (vals.set idx none) idx' (pn + 1) rem
      (r.1, (pn, v) :: r.2)
    | none => drain vals idx' (pn + 1) rem

/-- the `match (range.start().cmp(&start), range.end().cmp(&end))` of `RemoveIter::new`:
    (packets after the bounds update, iterator start, iterator end, iterator index) -/
def removePlan (s : State) (lo hi : Nat) : Option (State × Nat × Nat × Nat) :=
  match compare lo s.start, compare hi s.endPn with
  | .lt, .eq | .lt, .gt | .eq, .gt | .eq, .eq =>
    some (logicalClear s, s.start, s.endPn, s.index)
  | .lt, .lt | .eq, .lt =>
    match setStart s (hi + 1) with
    | none => none
    | some s1 => some (s1, s.start, hi, s.index)
  | .gt, .gt | .gt, .eq =>
    match pnIndex s lo with
    | none => none
    | some i =>
      if lo = 0 then none
      else
        match setEnd s (lo - 1) with
        | none => none
        | some s1 => some (s1, lo, s.endPn, i)
  | .gt, .lt =>
    match pnIndex s lo with
    | none => none
    | some i => some (s, lo, hi, i)

/-- `fn remove_range` = `RemoveIter::new` followed by a full drain. `lo ≤ hi` is the
    `PacketNumberRange` the caller built. -/
def removeRange (s : State) (lo hi : Nat) : Option (State × List (Nat × Nat)) :=
  if isEmpty s then some (s, [])
  else if hi < s.start || lo > s.endPn then some (s, [])
  else
    match removePlan s lo hi with
    | none => none
    | some (s1, itStart, itEnd, itIndex) =>
      let r := drain s1.values itIndex itStart (itEnd - itStart + 1)
      some ({ s1 with values := r.1 }, r.2)

/-- `Iter::next` run to exhaustion over `head.chain(tail)` -/
def collect : List (Option Nat) → Nat → Nat → List (Nat × Nat)
  | _, _, 0 => []
  | [], _, _ + 1 => []
  | some v :: r, pn, rem + 1 => (pn, v) :: collect r (pn + 1) rem
  | none :: r, pn, rem + 1 => collect r (pn + 1) rem

/-- the ring read from `index`: `values[index..] ++ values[..index]` -/
def ring (s : State) : List (Option Nat) := s.values.drop s.index ++ s.values.take s.index

/-- `fn iter` collected -/
def iter (s : State) : List (Nat × Nat) :=
  if isEmpty s then [] else collect (ring s) s.start (s.endPn - s.start + 1)

/-- `IterMut` run to exhaustion applying `f pn v` to every entry: new ring contents -/
def mapRing (f : Nat → Nat → Nat) : List (Option Nat) → Nat → Nat → List (Option Nat)
  | l, _, 0 => l
  | [], _, _ + 1 => []
  | some v :: r, pn, rem + 1 => some (f pn v) :: mapRing f r (pn + 1) rem
  | none :: r, pn, rem + 1 => none :: mapRing f r (pn + 1) rem

/-- `fn iter_mut` + assignment through every yielded reference -/
def iterMut (s : State) (f : Nat → Nat → Nat) : State :=
  if isEmpty s then s
  else
    let r := mapRing f (ring s) s.start (s.endPn - s.start + 1)
    let k := s.values.length - s.index
    { s with values := r.drop k ++ r.take k }

/-- the `for pn in PacketNumberRange::new(start, end)` loop of `clear` -/
def clearSlots (s : State) (vals : List (Option Nat)) (pn : Nat) : Nat → List (Option Nat)
  | 0 => vals
  | fuel + 1 =>
    match pnIndex s pn with
    | some i => clearSlots s (vals.set i none) (pn + 1) fuel
    | none => clearSlots s vals (pn + 1) fuel

/-- `fn clear`; `none` = `PacketNumberRange::new` assertion (`start ≤ end`) -/
def clear (s : State) : Option State :=
  if isEmpty s then some s
  else if s.start > s.endPn then none
  else
    let vals := clearSlots s s.values s.start (s.endPn - s.start + 1)
    some (logicalClear { s with values := vals })

/-- `fn get_range`; `none` = `PacketNumberRange::new` assertion -/
def getRange (s : State) : Option (Nat × Nat) :=
  if s.start > s.endPn then none else some (s.start, s.endPn)

/-! #### histories -/

/-- mutating operations (the observers `get`, `iter`, `is_empty`, `get_range` are functions of the state) -/
inductive Op where
  | insert (pn v : Nat)
  | insertOrUpdate (pn v : Nat)
  | remove (pn : Nat)
  | removeRange (lo hi : Nat)
  | clear
deriving Repr, DecidableEq

inductive Out where
  | unit
  | removed (v : Option Nat)
  | entries (l : List (Nat × Nat))
deriving Repr, DecidableEq

/-- one operation; `upd prev v` is what the `update` closure of `insert_or_update` stores;
    `none` = panic -/
def step (upd : Nat → Nat → Nat) (s : State) : Op → Option (State × Out)
  | .insert pn v =>
    match insert s pn v with
    | none => none
    | some s' => some (s', .unit)
  | .insertOrUpdate pn v =>
    match insertOrUpdate s pn v (fun p => upd p v) with
    | none => none
    | some s' => some (s', .unit)
  | .remove pn =>
    match remove s pn with
    | none => none
    | some (s', r) => some (s', .removed r)
  | .removeRange lo hi =>
    match removeRange s lo hi with
    | none => none
    | some (s', l) => some (s', .entries l)
  | .clear =>
    match clear s with
    | none => none
    | some s' => some (s', .unit)

/-- the precondition the code `debug_assert!`s (and its callers satisfy): inserts are strictly
    above everything contained, `insert_or_update` is not below the start, ranges are ordered -/
def pre (s : State) : Op → Bool
  | .insert pn _ => isEmpty s || (decide (pn > s.start) && decide (pn > s.endPn))
  | .insertOrUpdate pn _ => isEmpty s || decide (pn ≥ s.start)
  | .removeRange lo hi => decide (lo ≤ hi)
  | .remove _ => true
  | .clear => true

/-- a whole history; `none` = some operation panicked -/
def run (upd : Nat → Nat → Nat) (s : State) : List Op → Option (State × List Out)
  | [] => some (s, [])
  | op :: ops =>
    match step upd s op with
    | none => none
    | some (s', o) =>
      match run upd s' ops with
      | none => none
      | some (s'', os) => some (s'', o :: os)

/-- every operation of the history meets `pre` in the state it is applied to -/
def preAll (upd : Nat → Nat → Nat) (s : State) : List Op → Bool
  | [] => true
  | op :: ops =>
    pre s op &&
      match step upd s op with
      | none => false
      | some (s', _) => preAll upd s' ops

end Quic.Data.PnMap

/-! ### reference: a plain association list -/
namespace Quic.Data.RefMap
open Quic.Data.PnMap (Op Out)

/-- key/value pairs; the first pair with a key is the binding -/
abbrev State := List (Nat × Nat)

def init : State := []

def lookup (m : State) (k : Nat) : Option Nat :=
  match m with
  | [] => none
  | (k', v) :: r => if k' = k then some v else lookup r k

def erase (m : State) (k : Nat) : State := m.filter (fun e => e.1 != k)

def eraseRange (m : State) (lo hi : Nat) : State := m.filter (fun e => !(decide (lo ≤ e.1) && decide (e.1 ≤ hi)))

/-- the bindings with keys `lo, lo+1, …` (`n` of them), ascending -/
def slice (m : State) (lo : Nat) : Nat → List (Nat × Nat)
  | 0 => []
  | n + 1 =>
    match lookup m lo with
    | some v => (lo, v) :: slice m (lo + 1) n
    | none => slice m (lo + 1) n

def step (upd : Nat → Nat → Nat) (m : State) : Op → State × Out
  | .insert pn v => ((pn, v) :: m, .unit)
  | .insertOrUpdate pn v =>
    match lookup m pn with
    | some prev => ((pn, upd prev v) :: m, .unit)
    | none => ((pn, v) :: m, .unit)
  | .remove pn => (erase m pn, .removed (lookup m pn))
  | .removeRange lo hi => (eraseRange m lo hi, .entries (slice m lo (hi + 1 - lo)))
  | .clear => ([], .unit)

def run (upd : Nat → Nat → Nat) (m : State) : List Op → State × List Out
  | [] => (m, [])
  | op :: ops =>
    let r := step upd m op
    let rest := run upd r.1 ops
    (rest.1, r.2 :: rest.2)

end Quic.Data.RefMap
