import QuicModel.Data.RefBuf
/-
  History-level specification vocabulary for the reassembly buffer: what a history of API calls
  *wrote* (the first-writer-wins byte map of the accepted writes), what was *read* (the
  concatenation of everything handed out), what was *skipped*. Nothing here looks inside
  `RefBuf.segs`; the C16/C01 theorems relate these notions to the buffer's behaviour.
-/
namespace Quic.Data.RefBuf

/-- a stream segment as it arrives (STREAM frame payload / `write_at[_fin]` arguments) -/
structure Frame where
  off : Nat
  data : List Nat
  fin : Bool
  deriving Repr, DecidableEq

def Frame.end_ (f : Frame) : Nat := f.off + f.data.length

/-- the byte frame `f` carries for absolute offset `i` -/
def Frame.byteAt (f : Frame) (i : Nat) : Option Nat :=
  if f.off ≤ i then f.data[i - f.off]? else none

/-- first-writer-wins byte map of a list of frames in arrival order -/
def firstWriter (fs : List Frame) (i : Nat) : Option Nat :=
  fs.findSome? (fun f => f.byteAt i)

/-- is offset `i` inside one of the `[from, to)` ranges -/
def inRanges (rs : List (Nat × Nat)) (i : Nat) : Bool :=
  rs.any (fun r => decide (r.1 ≤ i) && decide (i < r.2))

/-- a buffer together with the ghost history since the last `reset` -/
structure Trace where
  buf : RefBuf := {}
  /-- accepted writes, arrival order -/
  accepted : List Frame := []
  /-- concatenation of all bytes handed out -/
  reads : List Nat := []
  /-- `[from, to)` offset ranges discarded by accepted skips -/
  skips : List (Nat × Nat) := []

def Trace.init : Trace := {}

def Trace.step (t : Trace) : Op → Trace
  | .write off data fin =>
    match write t.buf off data fin with
    | .ok b => { t with buf := b, accepted := t.accepted ++ [⟨off, data, fin⟩] }
    | .error _ => t
  | .pop w =>
    { t with buf := (pop t.buf w).1, reads := t.reads ++ (pop t.buf w).2 }
  | .skip n =>
    match skip t.buf n with
    | .ok b => { t with buf := b, skips := t.skips ++ [(t.buf.consumed, t.buf.consumed + n)] }
    | .error _ => t
  | .reset => Trace.init

/-- the ghost-annotated run of a history from the empty buffer -/
def trace (ops : List Op) : Trace := ops.foldl Trace.step Trace.init

/-- the offsets below `consumed` that were read (not skipped), in order -/
def Trace.readOffsets (t : Trace) : List Nat :=
  (List.range t.buf.consumed).filter (fun i => !inRanges t.skips i)

/-- highest offset a history has seen: ends of accepted writes and skip targets -/
def Trace.highest (t : Trace) : Nat :=
  max ((t.accepted.map Frame.end_).foldl max 0) ((t.skips.map (·.2)).foldl max 0)

/-- the final size a history has established: the end of the first accepted FIN -/
def Trace.established (t : Trace) : Option Nat :=
  (t.accepted.find? (·.fin)).map Frame.end_

/-- state invariant of the buffer -/
structure Inv (s : RefBuf) : Prop where
  /-- nothing is consumed beyond the highest offset seen -/
  consumed_le : s.consumed ≤ s.maxRecv
  /-- every held byte lies in `[consumed, maxRecv)` (`byteAt` is `none` below `consumed` by construction) -/
  stored_lt : ∀ i, (byteAt s i).isSome → s.consumed ≤ i ∧ i < s.maxRecv
  /-- a known final size is at least every offset seen -/
  final_ge : ∀ f, s.finalSize = some f → s.maxRecv ≤ f
  /-- offsets fit a VarInt -/
  max_le : s.maxRecv ≤ maxOffset

/-- the history invariant: the buffer holds exactly the first-writer-wins bytes at and above
    `consumed`, what was read is exactly that map on the non-skipped offsets below `consumed`,
    and the cursors are functions of the history -/
structure TInv (t : Trace) : Prop where
  inv : Inv t.buf
  stored : ∀ i, t.buf.consumed ≤ i → byteAt t.buf i = firstWriter t.accepted i
  reads : t.reads.map some = t.readOffsets.map (firstWriter t.accepted)
  skips_below : ∀ r ∈ t.skips, r.2 ≤ t.buf.consumed
  maxRecv_eq : t.buf.maxRecv = t.highest
  final_eq : t.buf.finalSize = t.established

/-! ### C01 vocabulary: frames cut from a sender's byte string, events at the receiver -/

/-- frame `f` carries exactly the sender's bytes at its offset, and FIN marks the end of `w` -/
def Consistent (w : List Nat) (f : Frame) : Prop :=
  f.data = (w.drop f.off).take f.data.length ∧ f.end_ ≤ w.length ∧ (f.fin = true → f.end_ = w.length)

instance (w : List Nat) (f : Frame) : Decidable (Consistent w f) := by
  unfold Consistent; infer_instance

/-- what happens at the receiver: a frame arrives, or the application reads -/
inductive Ev
  | frame (f : Frame)
  | pop (watermark : Option Nat)
  deriving Repr

def Ev.toOp : Ev → Op
  | .frame f => .write f.off f.data f.fin
  | .pop w => .pop w

/-- bytes the application has read after the events `evs` -/
def readsOf (evs : List Ev) : List Nat := (trace (evs.map Ev.toOp)).reads

/-- receiver buffer after the events `evs` -/
def bufOf (evs : List Ev) : RefBuf := (trace (evs.map Ev.toOp)).buf

end Quic.Data.RefBuf
