import QuicModel.Data.RefBuf
/-
  `Data.SlotBuf` — second layer: a functional transcription of the slot/allocation layer of
  `s2n_quic_core::buffer::Reassembler` (reassembler.rs, reassembler/slot.rs, reassembler/reader.rs,
  reassembler/request.rs). It predicts what `Data.RefBuf` abstracts away: the slot layout,
  hence the chunk boundaries of every `pop`/`pop_watermarked` and `report()`.

  A slot is `{start, endAlloc, data}` (`Slot {start, end, data: BytesMut}`); the `BytesMut`
  capacity is `endAlloc - start` by the slot invariant, so the buffer itself is not modelled
  (splitting/unsplitting of the shared allocation is pointer bookkeeping; the `assume!`s that
  guard it are checked by the debug build of the harness).

  Loops (`write_reader_at`, `write_reader_with_alloc`) run on explicit fuel; running out of
  fuel or indexing outside the deque (`assume!(false)` in the code) is `none`.
-/
namespace Quic.Data.SlotBuf
open Quic.Data.RefBuf (Err maxOffset allocationSize alignOffset handleFin)

structure Slot where
  start : Nat
  /-- `end`: end of the allocation -/
  endAlloc : Nat
  data : List Nat
  deriving Repr, DecidableEq

namespace Slot
def end_ (s : Slot) : Nat := s.start + s.data.length
def isFull (s : Slot) : Bool := s.end_ == s.endAlloc
def isOccupied (s : Slot) (prev : Nat) : Bool := !s.data.isEmpty && s.start == prev
def shouldDrop (s : Slot) : Bool := s.start == s.endAlloc

/-- `Slot::skip_until` (`Slot::skip`): drop `offset - start` bytes of the range (held or not) -/
def skipUntil (s : Slot) (offset : Nat) : Slot :=
  if offset ≥ s.start then
    let n := offset - s.start
    { s with start := s.start + n, data := s.data.drop n }
  else s
end Slot

/-- `Request` -/
structure Reader where
  off : Nat
  data : List Nat
  fin : Bool
  deriving Repr

namespace Reader
def isEmpty (r : Reader) : Bool := r.data.isEmpty
/-- `Reader::skip_until` (default impl over `read_chunk`) -/
def skipUntil (r : Reader) (offset : Nat) : Reader :=
  if offset > r.off then
    let n := min (offset - r.off) r.data.length
    { r with off := r.off + n, data := r.data.drop n }
  else r
def advance (r : Reader) (n : Nat) : Reader := { r with off := r.off + n, data := r.data.drop n }
end Reader

structure SlotBuf where
  slots : List Slot := []
  /-- `cursors.start_offset` -/
  start : Nat := 0
  maxRecv : Nat := 0
  finalOffset : Option Nat := none
  deriving Repr

def init : SlotBuf := {}

/-- `Slot::try_write_reader`: returns (slot, reader, split-off filled slot, filled_slot flag) -/
def tryWriteReader (s : Slot) (r : Reader) (filledSlot : Bool) : Slot × Reader × Option Slot × Bool :=
  let end_ := s.end_
  if end_ < s.endAlloc then
    -- trim off chunks we've already copied
    let r := r.skipUntil end_
    if r.isEmpty then (s, r, none, filledSlot)
    else
      let start := r.off
      -- make sure this slot owns this range of data
      if ¬ (start < s.endAlloc) then (s, r, none, filledSlot)
      else if start == end_ then
        -- write_reader_append
        let chunkLen := s.endAlloc - end_
        let n := min chunkLen r.data.length
        ({ s with data := s.data ++ r.data.take n }, r.advance n, none, filledSlot || chunkLen == n)
      else
        -- write_reader_split
        let chunkLen := s.endAlloc - start
        let n := min chunkLen r.data.length
        let filled : Slot := { start := start, endAlloc := s.endAlloc, data := r.data.take n }
        ({ s with endAlloc := start }, r.advance n, some filled, filledSlot || chunkLen == n)
  else
    -- we've already filled this slot so skip the entire thing on the reader
    (s, r.skipUntil s.endAlloc, none, filledSlot)

/-- what the write loops read from the cursors: `start_offset` and `final_offset` -/
structure Ctx where
  start : Nat
  finalOffset : Option Nat

/-- `Reassembler::allocate_slot` -/
def allocateSlot (c : Ctx) (r : Reader) : Slot :=
  let start := r.off
  let size := allocationSize start
  let offset := alignOffset start size
  -- don't allocate for data we've already consumed
  let (offset, size) :=
    if c.start > offset then (c.start, size - (c.start - offset)) else (offset, size)
  let size :=
    match c.finalOffset with
    | some f =>
      if f - r.off - r.data.length = 0 then
        let cand := (start - offset) + r.data.length
        if cand < size then cand else size
      else size
    | none => size
  { start := offset, endAlloc := offset + size, data := [] }

/-- `Reassembler::insert` -/
def insertAt (l : List Slot) (idx : Nat) (s : Slot) : List Slot := l.take idx ++ s :: l.drop idx

/-- `write_reader_with_alloc` -/
def writeWithAlloc (c : Ctx) : Nat → List Slot → Reader → Nat → Bool → Option (List Slot × Reader × Nat × Bool)
  | 0, _, _, _, _ => none
  | fuel + 1, slots, r, idx, fs =>
    if r.isEmpty then some (slots, r, idx, fs)
    else
      let stop : Bool := match slots[idx]? with
        | some next => !decide (next.start > r.off)
        | none => false
      if stop then some (slots, r, idx, fs)
      else
        let slot := allocateSlot c r
        let (slot, r, filled, fs) := tryWriteReader slot r fs
        let slots := insertAt slots idx slot
        let idx := idx + 1
        let (slots, idx) := match filled with
          | some f => (insertAt slots idx f, idx + 1)
          | none => (slots, idx)
        writeWithAlloc c fuel slots r idx fs

/-- the `while` loop of `write_reader_at` -/
def writeAtLoop (c : Ctx) : Nat → List Slot → Reader → Nat → Bool → Option (List Slot × Nat × Bool)
  | 0, _, _, _, _ => none
  | fuel + 1, slots, r, idx, fs =>
    if r.isEmpty then some (slots, idx, fs)
    else
      match slots[idx]? with
      | none => none
      | some slot =>
        let (slot, r, filled, fs) := tryWriteReader slot r fs
        let slots := slots.set idx slot
        let idx := idx + 1
        let (slots, idx) := match filled with
          | some f => (insertAt slots idx f, idx + 1)
          | none => (slots, idx)
        if r.isEmpty then some (slots, idx, fs)
        else
          match writeWithAlloc c (fuel + 1) slots r idx fs with
          | none => none
          | some (slots, r, idx, fs) => writeAtLoop c fuel slots r idx fs

/-- `unsplit_range`, indices visited from `hi - 1` down to `lo` -/
def unsplitRange (slots : List Slot) (lo : Nat) : Nat → List Slot
  | 0 => slots
  | n + 1 =>
    let idx := lo + n
    let slots :=
      match slots[idx]?, slots[idx + 1]? with
      | some slot, some next =>
        if slot.isFull && next.start == slot.end_ &&
            alignOffset slot.start (allocationSize slot.start) == alignOffset next.start (allocationSize next.start) then
          (slots.take idx) ++ { slot with data := slot.data ++ next.data, endAlloc := next.endAlloc } :: slots.drop (idx + 2)
        else slots
      | _, _ => slots
    unsplitRange slots lo n

/-- `write_reader_at` -/
def writeAt (c : Ctx) (slots : List Slot) (r : Reader) (idx : Nat) : Option (List Slot) :=
  match writeAtLoop c (r.data.length + slots.length + 2) slots r idx false with
  | none => none
  | some (slots, idx', fs) =>
    if fs then some (unsplitRange slots idx (idx' - idx)) else some slots

/-- index of the last slot with `start <= offset` (the search from the back) -/
def selectSlot (slots : List Slot) (off : Nat) : Option Nat :=
  let rec go : List Slot → Nat → Option Nat → Option Nat
    | [], _, acc => acc
    | s :: rest, i, acc => go rest (i + 1) (if s.start ≤ off then some i else acc)
  go slots 0 none

/-- `write_reader_impl` -/
def writeImpl (c : Ctx) (slots : List Slot) (r : Reader) : Option (List Slot) :=
  if r.isEmpty then some slots
  else
    match selectSlot slots r.off with
    | some idx => writeAt c slots r idx
    | none =>
      let slot := allocateSlot c r
      let (slot, r, filled, _) := tryWriteReader slot r true
      let (slots, idx) := match filled with
        | some f => (slot :: f :: slots, 1)
        | none => (slot :: slots, 0)
      if r.isEmpty then some slots else writeAt c slots r idx

/-- `write_at` / `write_at_fin`; `none` = the model ran into a state the code `assume!`s away -/
def write (b : SlotBuf) (off : Nat) (data : List Nat) (fin : Bool) : Option (Except Err SlotBuf) :=
  if off + data.length > maxOffset then some (.error .outOfRange)
  else
    let r : Reader := (⟨off, data, fin⟩ : Reader).skipUntil b.start
    let readerFinal := if fin then some (r.off + r.data.length) else none
    match handleFin b.finalOffset b.maxRecv r.off r.data.length readerFinal with
    | .error e => some (.error e)
    | .ok (fs, mr) =>
      -- the cursors are updated before `write_reader_impl` runs (it sees the new final offset)
      match writeImpl ⟨b.start, fs⟩ b.slots r with
      | some slots => some (.ok { b with finalOffset := fs, maxRecv := mr, slots := slots })
      | none => none

/-- `final_size.is_some_and(|f| f <= slot.end_allocated() && watermark >= slot.buffered_len())` -/
def finalHere (finalOffset : Option Nat) (slot : Slot) (watermark : Option Nat) : Bool :=
  match finalOffset with
  | some f =>
    decide (f ≤ slot.endAlloc) &&
      (match watermark with
       | some w => decide (w ≥ slot.data.length)
       | none => true)
  | none => false

/-- length handed out by `slot.read_chunk(watermark)` (`BytesMut::read_chunk`) -/
def readN (slot : Slot) (watermark : Option Nat) : Nat :=
  match watermark with
  | some w => min w slot.data.length
  | none => slot.data.length

/-- `Storage::read_chunk` of the reassembler: one chunk -/
def readChunk (b : SlotBuf) (watermark : Option Nat) : SlotBuf × List Nat :=
  match b.slots with
  | [] => (b, [])
  | slot :: rest =>
    -- make sure the slot has some data
    if !slot.isOccupied b.start then (b, [])
    else if finalHere b.finalOffset slot watermark then
      -- `slot.consume()`: all data, `start = end` so `should_drop()` holds and the slot is popped
      ({ b with slots := rest, start := b.start + slot.data.length }, slot.data)
    else
      let n := readN slot watermark
      let chunk := slot.data.take n
      let slot' : Slot := { slot with start := slot.start + chunk.length, data := slot.data.drop n }
      ({ b with slots := if slot'.shouldDrop then rest else slot' :: rest, start := b.start + chunk.length }, chunk)

/-- the slot-clearing loop of `Reassembler::skip` -/
def skipSlots (newStart : Nat) : List Slot → List Slot
  | [] => []
  | slot :: rest =>
    if slot.endAlloc < newStart then skipSlots newStart rest
    else
      let slot := slot.skipUntil newStart
      if slot.shouldDrop then rest else slot :: rest

/-- `Reassembler::skip` -/
def skip (b : SlotBuf) (n : Nat) : Except Err SlotBuf :=
  if n = 0 then .ok b
  else
    let newStart := b.start + n
    if newStart > maxOffset then .error .outOfRange
    else
      let go : Except Err SlotBuf :=
        .ok { b with maxRecv := max b.maxRecv newStart, start := newStart, slots := skipSlots newStart b.slots }
      match b.finalOffset with
      | some f => if f ≥ newStart then go else .error .invalidFin
      | none => go

/-- `iter()`: the occupied chunks from `start_offset` -/
def chunks (b : SlotBuf) : List (List Nat) :=
  let rec go : List Slot → Nat → List (List Nat)
    | [], _ => []
    | s :: rest, prev => if s.isOccupied prev then s.data :: go rest s.end_ else []
  go b.slots b.start

/-- `report()` = (bytes, chunks) -/
def report (b : SlotBuf) : Nat × Nat :=
  let cs := chunks b
  (cs.foldl (fun a c => a + c.length) 0, cs.length)

def len (b : SlotBuf) : Nat := (report b).1

def totalReceivedLen (b : SlotBuf) : Nat :=
  let rec go : List Slot → Nat → Nat
    | [], off => off
    | s :: rest, off => if s.isOccupied off then go rest s.end_ else off
  go b.slots b.start

def isEmpty (b : SlotBuf) : Bool :=
  match b.slots with
  | s :: _ => !s.isOccupied b.start
  | [] => true

def isWritingComplete (b : SlotBuf) : Bool :=
  match b.finalOffset with
  | some f => totalReceivedLen b == f
  | none => false

def isReadingComplete (b : SlotBuf) : Bool := b.finalOffset == some b.start

/-- slot layout `(start, end, end_allocated)` for every slot -/
def layout (b : SlotBuf) : List (Nat × Nat × Nat) := b.slots.map (fun s => (s.start, s.end_, s.endAlloc))

/-- the held byte of absolute offset `i` (the abstraction towards `RefBuf.byteAt`) -/
def byteAt (b : SlotBuf) (i : Nat) : Option Nat :=
  b.slots.findSome? (fun s => if s.start ≤ i then s.data[i - s.start]? else none)

end Quic.Data.SlotBuf
