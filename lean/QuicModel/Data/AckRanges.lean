import QuicModel.Data.IntervalSet
/-
  `ack::Ranges` of quic/s2n-quic-core/src/ack/ranges.rs: an `IntervalSet<PacketNumber>` created
  `with_limit(limit)` whose `insert_packet_number_range` sheds the lowest range when the limit is hit.

  Transcribed rule (read from the code, not from the doc comment):
    1. `self.0.insert(interval)`; `Ok` ⇒ `Ok(())`.
    2. otherwise `pop_min()`:
         * `Some(min)` and `min < pn_range.start()` (the `PartialOrd<T> for Interval<T>` instance:
           `min.start < start ∧ min.end < start`): insert again — `Err(LowestRangeDropped{min})`
           (if that insert failed too: `debug_assert!` + `Err(RangeInsertionFailed)` with `min` gone);
         * `Some(min)` otherwise (the new range is itself the lowest): `insert_front(min)` puts the
           popped interval back, `Err(RangeInsertionFailed{new range})` — the set is unchanged;
         * `None`: `debug_assert!(false)` + `Err(RangeInsertionFailed)`.
  `PacketNumberRange::new` asserts `start <= end`, so the interval is always valid.
  Everything else (`remove`, `min_value`, `max_value`, `contains`, `interval_len`, `pop_min`, `clear`)
  is the `IntervalSet` method reached through `Deref`/`DerefMut`. `ack_ranges()` iterates the
  intervals in DESCENDING order (`inclusive_ranges().rev()`).
-/
namespace Quic.Data.AckRanges
open Quic.Data.IvSet

/-- `ack::ranges::Error` + the two `debug_assert!` sites (panics in debug builds) -/
inductive Outcome where
  | ok
  | lowestRangeDropped (min max : Nat)
  | rangeInsertionFailed (min max : Nat)
  /-- `debug_assert!(insert_res.is_ok())` / `debug_assert!(false)` -/
  | debugAssert
  deriving Repr, DecidableEq

/-- `Settings::default().ack_ranges_limit` = `RECOMMENDED_RANGES_LIMIT` (ack/settings.rs); re-extracted
    by tools/extractors/ack_ranges.py and bridged in QuicProofs.Bridge.AckRanges -/
def defaultLimit : Nat := 10

/-- `Ranges::new(limit)` (`limit` non-zero, else `expect` panics) -/
def new (limit : Nat) : IvSet := IvSet.withLimit limit

/-- `min < pn_range.start()` through `impl PartialOrd<T> for Interval<T>` -/
def minBelow (mn : Interval) (start : Nat) : Bool := mn.cmpVal start == .lt

/-- `Ranges::insert_packet_number_range` for the valid range `[lo, hi]` -/
def insertRange (s : IvSet) (lo hi : Nat) : IvSet × Outcome :=
  match s.insert ⟨lo, hi⟩ with
  | .ok s' => (s', .ok)
  | .error _ =>
    match s.popMin with
    | (s1, some mn) =>
      if minBelow mn lo then
        match s1.insert ⟨lo, hi⟩ with
        | .ok s2 => (s2, .lowestRangeDropped mn.lo mn.hi)
        | .error _ => (s1, .debugAssert)
      else
        -- `let _ = self.0.insert_front(min);`
        match s1.insertFront mn with
        | .ok s2 => (s2, .rangeInsertionFailed lo hi)
        | .error _ => (s1, .rangeInsertionFailed lo hi)
    | (s1, none) => (s1, .debugAssert)

/-- `insert_packet_number` -/
def insertPn (s : IvSet) (pn : Nat) : IvSet × Outcome := insertRange s pn pn

/-- `spread`: `max - min` or 0 -/
def spread (s : IvSet) : Nat :=
  match s.minValue, s.maxValue with
  | some mn, some mx => mx - mn
  | _, _ => 0

/-- `ack_ranges()`: descending -/
def ackRanges (s : IvSet) : List Interval := s.ivs.reverse

/-- `Ranges::default()` -/
def default : IvSet := new defaultLimit

end Quic.Data.AckRanges
