import QuicModel.Prelude
/-
  `IntervalSet<T>` of quic/s2n-quic-core/src/interval_set/{mod,insert,remove,intersection,interval}.rs

  The model transcribes the *structure* of the Rust code:
    * `Interval { start, end }` closed intervals (`lo`, `hi` here; `end` is a Lean keyword);
    * `insert.rs`: `Insertion::scan` (one pass over the slots starting at `start_index`, the 9-way
      `match (a.start.cmp(b.start), a.end.cmp(b.end))`, the mutable `range_a`, the `replace_range`
      bookkeeping with `set_start = min` / `set_end = max`) followed by `Insertion::apply`
      (`checked_sub`, the 0/1/2/_ arms, `ensure_can_insert`);
    * `remove.rs`: `Removal::scan` (mutates the slots in place while scanning; `push_range` with the
      `?` early exit when `can_push_range` is false) followed by `Removal::apply`;
    * `mod.rs`: `insert`/`insert_front`/`remove`/`union`/`difference` (`set_operation` threading the
      returned index as the next scan hint), `index_for` (0 below 16 slots, binary search above),
      `binary_search_with`, `contains`, `pop_min`, `min_value`, `max_value`, `count`,
      `interval_len`, `set_limit`, `remove_limit`, `clear`;
    * `intersection.rs`: the in-place `apply` and the `Intersection` iterator.

  Encoding decisions (the only places where the text is not literally the Rust text):
    * machine integers are `Nat`. `step_down_saturating` is `x - 1` (truncated subtraction is the
      saturating one at 0). `step_up_saturating` is `x + 1` inside insert/remove scan: at every such
      call site the argument is strictly smaller than another bound held by the same match arm
      (`(Greater,Greater)`: `b.end < a.end`; `(Less,Less)`, `(Equal,Less)`, `(Greater,Less)`:
      `a.end < b.end`), so the saturating branch is dead for every integer type. In
      `intersection::apply` the second `step_up_saturating` *can* saturate, so that function takes
      the type's maximum `mx` as a parameter (`stepUpSat`).
    * the `usize::MAX..0` "intentionally invalid" `replace_range` is `rs = none, re = 0`: `none`
      stands for the `usize::MAX` start. (`VecDeque` indices are ≤ `isize::MAX`, so `min(MAX, i) = i`
      and `end.checked_sub(MAX) = None` for every reachable `end`.)
    * operations that can panic on an index (`ranges[index] = …`, `VecDeque::insert`, `drain`) are
      modelled with the explicit error `Error.indexPanic`; `insert_no_panic`-style corollaries in
      QuicProofs show it is unreachable on well-formed sets.

  The *independent reference* is `Quic.Data.IvSpec` at the end of the file: membership predicates
  and plain element lists. `QuicProofs.Props.C16IntervalSet` relates the two.
-/
namespace Quic.Data.IvSet

structure Interval where
  lo : Nat
  hi : Nat
  deriving Repr, DecidableEq, Inhabited

/-- `IntervalSetError` (+ the modelled index panic) -/
inductive Error where
  | limitExceeded
  | invalidInterval
  | indexPanic
  deriving Repr, DecidableEq

/-- three-way comparison, `Ord::cmp` on integers -/
def cmp (x y : Nat) : Ordering := if x < y then .lt else if x = y then .eq else .gt

/-- `Interval::is_valid` -/
def Interval.isValid (i : Interval) : Bool := i.lo ≤ i.hi

/-- `Interval::should_coalesce`: `self.start <= other.end_exclusive()` -/
def Interval.shouldCoalesce (self other : Interval) : Bool := self.lo ≤ other.hi + 1

/-- `impl PartialOrd<T> for Interval<T>` -/
def Interval.cmpVal (i : Interval) (v : Nat) : Ordering :=
  match cmp i.lo v, cmp i.hi v with
  | .eq, _ => .eq
  | _, .eq => .eq
  | .gt, .lt => .eq
  | .lt, .gt => .eq
  | .lt, .lt => .lt
  | .gt, .gt => .gt

/-- `Interval::len` (as a mathematical integer; the Rust `usize` overflows for the full `u64` range) -/
def Interval.len (i : Interval) : Nat := 1 + (i.hi - i.lo)

/-- `Interval::from_range_bounds` for `(Included lo, Included hi)` -/
def fromInclusive (lo hi : Nat) : Except Error Interval :=
  if (Interval.mk lo hi).isValid then .ok ⟨lo, hi⟩ else .error .invalidInterval

/-- `Interval::from_range_bounds` for `lo..hiEx` (`Included lo, Excluded hiEx`): `step_down` fails at 0 -/
def fromRange (lo hiEx : Nat) : Except Error Interval :=
  if hiEx = 0 then .error .invalidInterval
  else if (Interval.mk lo (hiEx - 1)).isValid then .ok ⟨lo, hiEx - 1⟩ else .error .invalidInterval

-- ---------------------------------------------------------------------------------------------
-- replace_range bookkeeping shared by insert.rs / remove.rs

/-- `replace_range: Range<usize>`; `rs = none` is the `usize::MAX` start of `usize::MAX..0` -/
structure Replace where
  rs : Option Nat
  re : Nat
  deriving Repr, DecidableEq

def Replace.init : Replace := ⟨none, 0⟩

/-- `self.replace_range.start = min(self.replace_range.start, start)` -/
def Replace.setStart (r : Replace) (x : Nat) : Replace :=
  { r with rs := match r.rs with | none => some x | some y => some (min y x) }

/-- `self.replace_range.end = max(self.replace_range.end, end)` -/
def Replace.setEnd (r : Replace) (x : Nat) : Replace := { r with re := max r.re x }

/-- `replace_range.end.checked_sub(replace_range.start)` -/
def Replace.count (r : Replace) : Option Nat :=
  match r.rs with
  | none => none
  | some s => if s ≤ r.re then some (r.re - s) else none

-- ---------------------------------------------------------------------------------------------
-- VecDeque primitives with their panics

/-- `VecDeque::insert(index, value)`; panics if `index > len` -/
def vecInsert (l : List Interval) (i : Nat) (v : Interval) : Except Error (List Interval) :=
  if i ≤ l.length then .ok (l.take i ++ v :: l.drop i) else .error .indexPanic

/-- `ranges[index] = value`; panics if `index >= len` -/
def vecSet (l : List Interval) (i : Nat) (v : Interval) : Except Error (List Interval) :=
  if i < l.length then .ok (l.take i ++ v :: l.drop (i + 1)) else .error .indexPanic

/-- `VecDeque::remove(index)` (returns `None` when out of bounds, no panic) -/
def vecRemove (l : List Interval) (i : Nat) : List Interval := l.take i ++ l.drop (i + 1)

/-- `VecDeque::drain(a..b)`; panics if `a > b` or `b > len` -/
def vecDrain (l : List Interval) (a b : Nat) : Except Error (List Interval) :=
  if a ≤ b ∧ b ≤ l.length then .ok (l.take a ++ l.drop b) else .error .indexPanic

-- ---------------------------------------------------------------------------------------------
-- insert.rs

inductive InsScan where
  /-- `scan` returned `Some(index)`: the interval is already present -/
  | found (index : Nat)
  /-- `scan` returned `None`; the final `Insertion` state and the (mutated) `range` -/
  | done (rep : Replace) (a : Interval)
  deriving Repr, DecidableEq

/-- `Insertion::scan` over the slots `bs` whose first element has slot index `i` -/
def insertScan : List Interval → Nat → Replace → Interval → InsScan
  | [], _, rep, a => .done rep a
  | b :: rest, i, rep, a =>
    match cmp a.lo b.lo, cmp a.hi b.hi with
    -- the ranges are equal | A is a subset of B (ends with B)
    | .eq, .eq | .gt, .eq => .found (i + 1)
    -- A is a subset of B
    | .eq, .lt | .gt, .lt => .found i
    | .gt, .gt =>
      if a.shouldCoalesce b then
        -- range A is part of range B: A.start = B.start, mark B obsolete
        insertScan rest (i + 1) ((rep.setStart i).setEnd (i + 1)) { a with lo := b.lo }
      else
        -- range A comes later
        insertScan rest (i + 1) rep a
    -- A contains B, spilling over into the next slot: mark B as obsolete
    | .eq, .gt | .lt, .gt => insertScan rest (i + 1) ((rep.setStart i).setEnd (i + 1)) a
    -- A ends with B: mark B as obsolete and stop
    | .lt, .eq => .done ((rep.setStart i).setEnd (i + 1)) a
    | .lt, .lt =>
      if b.shouldCoalesce a then
        -- A overlaps part of B: A.end = B.end, mark B obsolete, stop
        .done ((rep.setStart i).setEnd (i + 1)) { a with hi := b.hi }
      else
        -- A comes before B: insert here
        .done ((rep.setStart i).setEnd i) a

/-- `ensure_can_insert` -/
def underLimit (limit : Option Nat) (prevLen : Nat) : Bool :=
  match limit with
  | some l => l > prevLen
  | none => true

/-- `Insertion::apply` -/
def insertApply (ranges : List Interval) (rep : Replace) (a : Interval) (limit : Option Nat) :
    Except Error (List Interval × Nat) :=
  let prevLen := ranges.length
  match rep.count with
  | none =>
    -- `checked_sub` failed: add it to the end
    if underLimit limit prevLen then .ok (ranges ++ [a], prevLen) else .error .limitExceeded
  | some cnt =>
    let index := rep.rs.getD 0
    match cnt with
    | 0 =>
      if underLimit limit prevLen then
        match vecInsert ranges index a with
        | .ok l => .ok (l, index)
        | .error e => .error e
      else .error .limitExceeded
    | 1 =>
      match vecSet ranges index a with
      | .ok l => .ok (l, index)
      | .error e => .error e
    | 2 =>
      match vecSet ranges index a with
      | .ok l => .ok (vecRemove l (index + 1), index)
      | .error e => .error e
    | _ =>
      match vecSet ranges index a with
      | .ok l =>
        match vecDrain l (index + 1) rep.re with
        | .ok l' => .ok (l', index)
        | .error e => .error e
      | .error e => .error e

/-- `insert::insert(ranges, range, start_index, limit) -> Result<usize, _>`; the set is only
    modified on `Ok` -/
def insertAt (ranges : List Interval) (range : Interval) (startIndex : Nat) (limit : Option Nat) :
    Except Error (List Interval × Nat) :=
  match insertScan (ranges.drop startIndex) startIndex Replace.init range with
  | .found index => .ok (ranges, index)
  | .done rep a => insertApply ranges rep a limit

-- ---------------------------------------------------------------------------------------------
-- remove.rs

structure Removal where
  rep : Replace
  pushRange : Option Interval
  canPush : Bool
  deriving Repr, DecidableEq

inductive RemScan where
  /-- `scan` returned `Some(index)`; the slots (mutated in place) -/
  | found (index : Nat) (slots : List Interval)
  /-- `scan` returned `None`; final `Removal` state and the slots (mutated in place) -/
  | done (rm : Removal) (slots : List Interval)
  deriving Repr, DecidableEq

def RemScan.cons (b : Interval) : RemScan → RemScan
  | .found i s => .found i (b :: s)
  | .done rm s => .done rm (b :: s)

/-- `Removal::scan` over the slots `bs` whose first element has slot index `i`; returns the
    scanned slots as left behind by the in-place mutations -/
def removeScan : List Interval → Nat → Removal → Interval → RemScan
  | [], _, rm, _ => .done rm []
  | b :: rest, i, rm, a =>
    match cmp a.lo b.lo, cmp a.hi b.hi with
    -- A is a prefix of B: B.start = A.end_exclusive
    | .eq, .lt => .found i ({ b with lo := a.hi + 1 } :: rest)
    -- A is a suffix of B: B.end = A.start_exclusive
    | .gt, .eq => .found (i + 1) ({ b with hi := a.lo - 1 } :: rest)
    -- A strictly inside B: split; `self.push_range(..)?` leaves `scan` before B is touched
    | .gt, .lt =>
      let rm' := { rm with pushRange := some ⟨a.hi + 1, b.hi⟩ }
      if rm.canPush then
        .done { rm' with rep := (rm'.rep.setStart (i + 1)).setEnd (i + 1) } ({ b with hi := a.lo - 1 } :: rest)
      else
        .done rm' (b :: rest)
    | .gt, .gt =>
      if a.shouldCoalesce b then
        -- A overlaps the tail of B: B.end = A.start_exclusive; set_start(next_slot)
        (removeScan rest (i + 1) { rm with rep := rm.rep.setStart (i + 1) } a).cons { b with hi := a.lo - 1 }
      else
        -- A comes later
        (removeScan rest (i + 1) rm a).cons b
    -- A contains B, spilling over into the next slot: mark B obsolete
    | .eq, .gt | .lt, .gt =>
      (removeScan rest (i + 1) { rm with rep := (rm.rep.setStart i).setEnd (i + 1) } a).cons b
    -- equal | A ends with B: mark B obsolete, stop
    | .eq, .eq | .lt, .eq => .done { rm with rep := (rm.rep.setStart i).setEnd (i + 1) } (b :: rest)
    | .lt, .lt =>
      if b.shouldCoalesce a then
        -- A overlaps the head of B: B.start = A.end_exclusive; set_end(slot_index); stop
        .done { rm with rep := rm.rep.setEnd i } ({ b with lo := a.hi + 1 } :: rest)
      else
        -- A comes before B
        .done rm (b :: rest)

/-- `Removal::apply` -/
def removeApply (ranges : List Interval) (rm : Removal) : List Interval × Except Error Nat :=
  match rm.pushRange with
  | some iv =>
    if rm.canPush then
      -- `index = replace_range.start` (usize::MAX when never set: `insert` would panic)
      match rm.rep.rs with
      | none => (ranges, .error .indexPanic)
      | some index =>
        match vecInsert ranges index iv with
        | .ok l => (l, .ok index)
        | .error e => (ranges, .error e)
    else (ranges, .error .limitExceeded)
  | none =>
    match rm.rep.count with
    | none => (ranges, .ok 0)
    | some cnt =>
      let index := rm.rep.rs.getD 0
      match cnt with
      | 0 => (ranges, .ok index)
      | 1 => (vecRemove ranges index, .ok index)
      | _ =>
        match vecDrain ranges index rm.rep.re with
        | .ok l => (l, .ok index)
        | .error e => (ranges, .error e)

/-- `remove::remove(ranges, range, start_index, limit)`; the slots are mutated in place, so the
    (possibly modified) slots are returned next to the result -/
def removeAt (ranges : List Interval) (range : Interval) (startIndex : Nat) (limit : Option Nat) :
    List Interval × Except Error Nat :=
  let canPush := match limit with
    | some l => decide (l > ranges.length + 1)
    | none => true
  match removeScan (ranges.drop startIndex) startIndex ⟨Replace.init, none, canPush⟩ range with
  | .found index slots => (ranges.take startIndex ++ slots, .ok index)
  | .done rm slots => removeApply (ranges.take startIndex ++ slots) rm

-- ---------------------------------------------------------------------------------------------
-- mod.rs

structure IvSet where
  limit : Option Nat
  ivs : List Interval
  deriving Repr, DecidableEq

def IvSet.empty : IvSet := ⟨none, []⟩
/-- `IntervalSet::with_limit` (the argument is a `NonZeroUsize`) -/
def IvSet.withLimit (l : Nat) : IvSet := ⟨some l, []⟩
def IvSet.setLimit (s : IvSet) (l : Nat) : IvSet := { s with limit := some l }
def IvSet.removeLimit (s : IvSet) : IvSet := { s with limit := none }
def IvSet.intervalLen (s : IvSet) : Nat := s.ivs.length
def IvSet.clear (s : IvSet) : IvSet := { s with ivs := [] }
def IvSet.isEmpty (s : IvSet) : Bool := s.ivs.isEmpty

/-- `pop_min`: `self.intervals.pop_front()` -/
def IvSet.popMin (s : IvSet) : IvSet × Option Interval :=
  match s.ivs with
  | [] => (s, none)
  | b :: rest => ({ s with ivs := rest }, some b)

/-- `count`: sum of `Interval::len` (mathematical; `usize` overflow not modelled) -/
def IvSet.count (s : IvSet) : Nat := (s.ivs.map Interval.len).sum

def IvSet.minValue (s : IvSet) : Option Nat := s.ivs.head?.map (·.lo)
def IvSet.maxValue (s : IvSet) : Option Nat := s.ivs.getLast?.map (·.hi)

/-- the `while size > 1` loop of `binary_search_with`; returns `some result` on the early
    `Equal` exit, otherwise the final `base` -/
def bsearchLoop (l : List Interval) (v : Nat) : Nat → Nat → Nat → Sum Nat Nat
  | 0, _, base => .inr base
  | fuel + 1, size, base =>
    if size > 1 then
      let half := size / 2
      let mid := base + half
      match (l.getD mid default).cmpVal v with
      | .eq => .inl mid
      | .gt => bsearchLoop l v fuel (size - half) base
      | .lt => bsearchLoop l v fuel (size - half) mid
    else .inr base

/-- `binary_search_with`: `(ordering of the probed slot relative to value, slot index)`;
    `on_greater(0)` for the empty set -/
def bsearch (l : List Interval) (v : Nat) : Ordering × Nat :=
  if l.length = 0 then (.gt, 0)
  else
    match bsearchLoop l v l.length l.length 0 with
    | .inl mid => (.eq, mid)
    | .inr base => ((l.getD base default).cmpVal v, base)

/-- `contains` -/
def IvSet.contains (s : IvSet) (v : Nat) : Bool := (bsearch s.ivs v).1 == .eq

/-- `index_for`: "it's faster just to iterate through the set for smaller lengths" -/
def linearScanBelow : Nat := 16

/-- `index_for` -/
def indexFor (l : List Interval) (r : Interval) : Nat :=
  if l.length < linearScanBelow then 0 else (bsearch l r.lo).2

/-- `IntervalSet::insert` (after `from_range_bounds`) -/
def IvSet.insert (s : IvSet) (r : Interval) : Except Error IvSet :=
  if s.ivs.isEmpty then .ok { s with ivs := [r] }
  else
    match insertAt s.ivs r (indexFor s.ivs r) s.limit with
    | .ok (l, _) => .ok { s with ivs := l }
    | .error e => .error e

/-- `IntervalSet::insert_front` -/
def IvSet.insertFront (s : IvSet) (r : Interval) : Except Error IvSet :=
  if s.ivs.isEmpty then .ok { s with ivs := [r] }
  else
    match insertAt s.ivs r 0 s.limit with
    | .ok (l, _) => .ok { s with ivs := l }
    | .error e => .error e

/-- `IntervalSet::remove`; the set is returned in both outcomes (in-place mutation) -/
def IvSet.remove (s : IvSet) (r : Interval) : IvSet × Except Error Unit :=
  if s.ivs.isEmpty then (s, .ok ())
  else
    match removeAt s.ivs r (indexFor s.ivs r) s.limit with
    | (l, .ok _) => ({ s with ivs := l }, .ok ())
    | (l, .error e) => ({ s with ivs := l }, .error e)

/-- the `for interval in iter` loop of `set_operation` with `apply = insert` -/
def unionLoop (limit : Option Nat) : List Interval → List Interval → Nat → List Interval × Except Error Unit
  | [], l, _ => (l, .ok ())
  | r :: rest, l, index =>
    match insertAt l r index limit with
    | .ok (l', index') => unionLoop limit rest l' index'
    | .error e => (l, .error e)

/-- `IntervalSet::union` -/
def IvSet.union (s other : IvSet) : IvSet × Except Error Unit :=
  if s.ivs.isEmpty then ({ s with ivs := other.ivs }, .ok ())
  else
    match other.ivs with
    | [] => (s, .ok ())
    | r :: rest =>
      match unionLoop s.limit (r :: rest) s.ivs (indexFor s.ivs r) with
      | (l, res) => ({ s with ivs := l }, res)

/-- the loop of `set_operation` with `apply = remove` -/
def differenceLoop (limit : Option Nat) : List Interval → List Interval → Nat → List Interval × Except Error Unit
  | [], l, _ => (l, .ok ())
  | r :: rest, l, index =>
    match removeAt l r index limit with
    | (l', .ok index') => differenceLoop limit rest l' index'
    | (l', .error e) => (l', .error e)

/-- `IntervalSet::difference` -/
def IvSet.difference (s other : IvSet) : IvSet × Except Error Unit :=
  if s.ivs.isEmpty then (s, .ok ())
  else
    match other.ivs with
    | [] => (s, .ok ())
    | r :: rest =>
      match differenceLoop s.limit (r :: rest) s.ivs (indexFor s.ivs r) with
      | (l, res) => ({ s with ivs := l }, res)

-- ---------------------------------------------------------------------------------------------
-- intersection.rs

/-- `step_up_saturating` for an integer type with maximum `mx` -/
def stepUpSat (mx x : Nat) : Nat := if x < mx then x + 1 else x

/-- `split_off_a!`: the part of A after `interval_b.end + 2`, if valid -/
def splitOffA (mx : Nat) (a b : Interval) : List Interval :=
  let n : Interval := ⟨stepUpSat mx (stepUpSat mx b.hi), a.hi⟩
  if n.isValid then [n] else []

/-- `intersection::apply`'s `while let Some(interval_a) = set_a.get(a_index)` loop.
    `done` = slots before `a_index` (reversed), `as` = slots from `a_index` on,
    `b` = current `interval_b`, `bs` = the rest of the `set_b` iterator. Every iteration either
    consumes a B interval or shortens `as`, or replaces the head of `as` by a split-off and moves on;
    `fuel` bounds the number of iterations. -/
def intersectLoop (mx : Nat) : Nat → List Interval → List Interval → Interval → List Interval → List Interval
  | 0, done, as, _, _ => done.reverse ++ as
  | _ + 1, done, [], _, _ => done.reverse
  | fuel + 1, done, a :: as, b, bs =>
    -- `advance_set_b!`: next B or `set_a.truncate(a_index); return`
    let advB (done' : List Interval) (as' : List Interval) : List Interval :=
      match bs with
      | b' :: bs' => intersectLoop mx fuel done' as' b' bs'
      | [] => done'.reverse
    match cmp a.lo b.lo, cmp a.hi b.hi with
    | .eq, .lt | .gt, .lt => intersectLoop mx fuel (a :: done) as b bs
    | .eq, .gt | .lt, .gt => advB (b :: done) (splitOffA mx a b ++ as)
    | .gt, .eq | .eq, .eq => advB (a :: done) as
    | .lt, .eq => advB ({ a with lo := b.lo } :: done) as
    | .gt, .gt =>
      if a.lo ≤ b.hi then advB ({ a with hi := b.hi } :: done) (splitOffA mx a b ++ as)
      else advB done (a :: as)
    | .lt, .lt =>
      if a.hi ≥ b.lo then intersectLoop mx fuel ({ a with lo := b.lo } :: done) as b bs
      else intersectLoop mx fuel done as b bs

/-- `intersection::apply(set_a, set_b)` -/
def intersectApply (mx : Nat) (sa sb : List Interval) : List Interval :=
  match sa, sb with
  | [], _ => []
  | _, [] => []
  | _, b :: bs => intersectLoop mx (2 * (sa.length + sb.length) + 2) [] sa b bs

/-- `IntervalSet::intersection` (never fails, ignores the limit) -/
def IvSet.intersection (mx : Nat) (s other : IvSet) : IvSet := { s with ivs := intersectApply mx s.ivs other.ivs }

/-- `Intersection` iterator, all items collected. `a`,`b` are `interval_a`/`interval_b`
    (mutable copies), `as`/`bs` the underlying iterators. -/
def intersectIter : Nat → Interval → List Interval → Interval → List Interval → List Interval
  | 0, _, _, _, _ => []
  | fuel + 1, a, as, b, bs =>
    let nextA (k : Interval → List Interval → List Interval) : List Interval :=
      match as with | a' :: as' => k a' as' | [] => []
    let nextB (k : Interval → List Interval → List Interval) : List Interval :=
      match bs with | b' :: bs' => k b' bs' | [] => []
    match cmp a.lo b.lo, cmp a.hi b.hi with
    | .eq, .lt | .gt, .lt =>
      a :: nextA (fun a' as' => intersectIter fuel a' as' { b with lo := a.hi + 1 } bs)
    | .eq, .gt | .lt, .gt =>
      b :: nextB (fun b' bs' => intersectIter fuel { a with lo := b.hi + 1 } as b' bs')
    | .gt, .eq | .eq, .eq =>
      a :: nextA (fun a' as' => nextB (fun b' bs' => intersectIter fuel a' as' b' bs'))
    | .lt, .eq =>
      b :: nextA (fun a' as' => nextB (fun b' bs' => intersectIter fuel a' as' b' bs'))
    | .gt, .gt =>
      if a.lo ≤ b.hi then
        { a with hi := b.hi } :: nextB (fun b' bs' => intersectIter fuel { a with lo := b.hi + 1 } as b' bs')
      else nextB (fun b' bs' => intersectIter fuel a as b' bs')
    | .lt, .lt =>
      if a.hi ≥ b.lo then
        { b with hi := a.hi } :: nextA (fun a' as' => intersectIter fuel a' as' { b with lo := a.hi + 1 } bs)
      else nextA (fun a' as' => intersectIter fuel a' as' b bs)

/-- `set_a.intersection_iter(&set_b).collect()` -/
def IvSet.intersectionIter (s other : IvSet) : List Interval :=
  match s.ivs, other.ivs with
  | a :: as, b :: bs => intersectIter (s.ivs.length + other.ivs.length + 1) a as b bs
  | _, _ => []

/-- all values, ascending (`IntervalSet::iter`) -/
def Interval.values (i : Interval) : List Nat := (List.range (i.hi + 1 - i.lo)).map (· + i.lo)
def IvSet.values (s : IvSet) : List Nat := s.ivs.flatMap Interval.values

end Quic.Data.IvSet

-- =============================================================================================
-- the independent reference: plain membership / plain element lists
namespace Quic.Data.IvSpec
open Quic.Data.IvSet

/-- value `x` lies in the closed interval -/
def inIv (i : Interval) (x : Nat) : Prop := i.lo ≤ x ∧ x ≤ i.hi

instance (i : Interval) (x : Nat) : Decidable (inIv i x) := by unfold inIv; exact inferInstance

/-- the set a list of intervals denotes -/
def Mem (l : List Interval) (x : Nat) : Prop := ∃ i ∈ l, inIv i x

/-- the normal form the property speaks about: every interval valid (`lo ≤ hi`), and every earlier
    interval ends MORE THAN ONE below every later one — i.e. strictly ascending, disjoint and
    NON-ADJACENT (`prev.hi + 1 < next.lo`) -/
def WF (l : List Interval) : Prop :=
  (∀ b ∈ l, b.lo ≤ b.hi) ∧ l.Pairwise (fun a b => a.hi + 1 < b.lo)

/-- executable twin of `WF` -/
def wfB : List Interval → Bool
  | [] => true
  | [a] => decide (a.lo ≤ a.hi)
  | a :: b :: rest => decide (a.lo ≤ a.hi) && decide (a.hi + 1 < b.lo) && wfB (b :: rest)

/-- plain reference set: sorted duplicate-free element list with insert/remove of a range
    done element by element -/
def insertElem (x : Nat) : List Nat → List Nat
  | [] => [x]
  | y :: ys => if x < y then x :: y :: ys else if x = y then y :: ys else y :: insertElem x ys

def refInsert (l : List Nat) (lo hi : Nat) : List Nat :=
  (List.range (hi + 1 - lo)).foldl (fun acc k => insertElem (lo + k) acc) l

def refRemove (l : List Nat) (lo hi : Nat) : List Nat := l.filter (fun x => ¬ (lo ≤ x ∧ x ≤ hi))

end Quic.Data.IvSpec
