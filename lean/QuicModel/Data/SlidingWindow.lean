import QuicModel.Prelude
/-
  Model of `quic/s2n-quic-core/src/packet/number/sliding_window.rs` (the duplicate-detection
  window used by every packet-number space, C06/C01/C16).

  `Quic.Data.SlidingWindow` transcribes the Rust code: the `u128` bitfield is a `Nat`
  (kept `< 2^128` by explicit truncation wherever the Rust shift truncates), the right edge is an
  `Option Nat`, `window_position`, `insert_with_evicted_inner`, `check` and the `EvictedSet`
  iterator are written branch by branch as in the source.

  `Quic.Data.RefWindow` is the independent reference: a plain list of every packet number that
  was ever accepted plus the rule "reject what is at or left of the right edge and was seen, or
  is too far left to know".  The theorems in `QuicProofs/Props/C16Window.lean` relate the two.
-/
namespace Quic.Data.SlidingWindow

/-- `type Window = u128` : number of bits of the bitfield -/
def windowBits : Nat := 128

/-- `const WINDOW_WIDTH: u64 = 1 + mem::size_of::<Window>() as u64 * 8` -/
def windowWidth : Nat := 1 + 16 * 8

/-- `u128::MAX` -/
def windowMax : Nat := 2 ^ 128 - 1

/-- largest packet number (`VarInt::MAX`) -/
def maxPn : Nat := 2 ^ 62 - 1

structure State where
  /-- bit `d-1` stands for packet number `right_edge - d` (`1 ≤ d ≤ 128`) -/
  window : Nat
  rightEdge : Option Nat
deriving Repr, DecidableEq

/-- `SlidingWindow::default()` -/
def init : State := { window := 0, rightEdge := none }

inductive Err where
  | duplicate
  | tooOld
deriving Repr, DecidableEq

inductive Pos where
  | left
  | right (delta : Nat)
  | rightEdge
  | within (delta : Nat)
  | empty
deriving Repr, DecidableEq

/-- guard of the `Left` arm: `Some(delta) if delta >= WINDOW_WIDTH` -/
def leftGuard (delta : Nat) : Bool := decide (delta ≥ windowWidth)

/-- `fn window_position`: `right_edge.checked_distance(pn)` is `re.checked_sub(pn)` -/
def windowPosition (s : State) (pn : Nat) : Pos :=
  match s.rightEdge with
  | some re =>
    if pn ≤ re then
      let delta := re - pn
      if delta = 0 then .rightEdge
      else if leftGuard delta then .left
      else .within delta
    else
      -- `None => Right(packet_number.checked_distance(right_edge).expect(..))`
      .right (pn - re)
  | none => .empty

/-- `EvictedSet { window, right_edge }` -/
structure Evicted where
  window : Nat
  rightEdge : Nat
deriving Repr, DecidableEq

/-- `EvictedSet::default()` (window 0, right edge = default packet number 0) -/
def Evicted.empty : Evicted := { window := 0, rightEdge := 0 }

/-- `u128::leading_zeros` for `0 < w < 2^128` -/
def leadingZeros (w : Nat) : Nat := windowBits - (Nat.log2 w + 1)

/-- `impl Iterator for EvictedSet`: one call of `next`; the `loop` is bounded by `fuel`
    (every iteration clears the highest set bit, so 129 is always enough). -/
def Evicted.next (e : Evicted) : Nat → Option (Nat × Evicted)
  | 0 => none
  | fuel + 1 =>
    if e.window = 0 then none
    else
      let shift := leadingZeros e.window + 1
      let re := e.rightEdge + shift
      let w := if shift = windowBits then 0 else (e.window <<< shift) % 2 ^ windowBits
      let e' : Evicted := { window := w, rightEdge := re }
      -- `as_varint(right_edge).checked_sub(WINDOW_WIDTH)`
      if windowWidth ≤ re then some (re - windowWidth, e')
      else Evicted.next e' fuel

/-- all items the iterator yields, in order -/
def Evicted.toList (e : Evicted) : Nat → List Nat
  | 0 => []
  | fuel + 1 =>
    match e.next (windowBits + 1) with
    | none => []
    | some (pn, e') => pn :: Evicted.toList e' fuel

inductive InsertOut where
  | ok (evicted : Evicted)
  | err (e : Err)
  /-- `assert!(removed == 0)` failed -/
  | panic
deriving Repr, DecidableEq

/-- `delta < WINDOW_WIDTH` : the shift keeps part of the old window -/
def shiftGuard (delta : Nat) : Bool := decide (delta < windowWidth)

/-- the bit that stands for distance `delta` from the right edge: `1 << (delta - 1)` -/
def bitOf (delta : Nat) : Nat := 1 <<< (delta - 1)

/-- `!x` on `u128` -/
def bnot (x : Nat) : Nat := windowMax ^^^ x

/-- `fn insert_with_evicted_inner` -/
def insertInner (s : State) (pn : Nat) : State × InsertOut :=
  match windowPosition s pn with
  | .left => (s, .err .tooOld)
  | .rightEdge => (s, .err .duplicate)
  | .right delta =>
    let rw : Nat × Nat :=
      if shiftGuard delta then
        -- `if delta == 128 { u128::MAX } else { !u128::MAX.wrapping_shr(delta as u32) }`
        let removedMask := if delta = 128 then windowMax else bnot (windowMax >>> (delta % windowBits))
        let removed := bnot s.window &&& removedMask
        -- `self.window.checked_shl(delta as u32).unwrap_or(0)`
        let w := if delta < windowBits then (s.window <<< delta) % 2 ^ windowBits else 0
        -- `self.window |= 1 << (delta - 1)`
        let w := w ||| bitOf delta
        (removed, w)
      else
        (bnot s.window, 0)
    let removed := rw.1
    let s' : State := { window := rw.2, rightEdge := some pn }
    match s.rightEdge with
    | some prev => (s', .ok { window := removed, rightEdge := prev })
    | none => if removed = 0 then (s', .ok Evicted.empty) else (s', .panic)
  | .within delta =>
    let mask := bitOf delta
    let duplicate := s.window &&& mask != 0
    let s' : State := { s with window := s.window ||| mask }
    if duplicate then (s', .err .duplicate) else (s', .ok Evicted.empty)
  | .empty => ({ s with rightEdge := some pn }, .ok Evicted.empty)

/-- `fn insert` (= `insert_with_evicted(..).map(|_| ())`) as state transformer + result -/
def insert (s : State) (pn : Nat) : State × Except Err Unit :=
  match insertInner s pn with
  | (s', .ok _) => (s', .ok ())
  | (s', .err e) => (s', .error e)
  | (s', .panic) => (s', .ok ())

/-- `fn check` -/
def check (s : State) (pn : Nat) : Except Err Unit :=
  match windowPosition s pn with
  | .left => .error .tooOld
  | .rightEdge => .error .duplicate
  | .right _ => .ok ()
  | .empty => .ok ()
  | .within delta =>
    let mask := bitOf delta
    if s.window &&& mask != 0 then .error .duplicate else .ok ()

/-- operations of a history -/
inductive Op where
  | insert (pn : Nat)
  | check (pn : Nat)
deriving Repr, DecidableEq

/-- observable result of one operation -/
inductive Res where
  | ok
  | duplicate
  | tooOld
  | panic
deriving Repr, DecidableEq

def Res.ofExcept : Except Err Unit → Res
  | .ok _ => .ok
  | .error .duplicate => .duplicate
  | .error .tooOld => .tooOld

def Res.ofInsertOut : InsertOut → Res
  | .ok _ => .ok
  | .err .duplicate => .duplicate
  | .err .tooOld => .tooOld
  | .panic => .panic

def step (s : State) : Op → State × Res
  | .insert pn => let r := insertInner s pn; (r.1, Res.ofInsertOut r.2)
  | .check pn => (s, Res.ofExcept (check s pn))

/-- run a history from a state, collecting the results -/
def run (s : State) : List Op → State × List Res
  | [] => (s, [])
  | op :: ops =>
    let r := step s op
    let rest := run r.1 ops
    (rest.1, r.2 :: rest.2)

/-- the packet numbers whose `insert` returned `Ok` while running the history from `s`
    (chronological order): the set "S" of the property, read off the window's own answers -/
def accepted (s : State) : List Op → List Nat
  | [] => []
  | .insert pn :: ops =>
    let r := step s (.insert pn)
    if r.2 = .ok then pn :: accepted r.1 ops else accepted r.1 ops
  | .check pn :: ops => accepted (step s (.check pn)).1 ops

end Quic.Data.SlidingWindow

/-! ### reference: a plain set of accepted packet numbers -/
namespace Quic.Data.RefWindow
open Quic.Data.SlidingWindow (Op Res)

/-- every packet number that was ever accepted, most recent first -/
structure State where
  seen : List Nat
deriving Repr, DecidableEq

def init : State := { seen := [] }

/-- largest element of a list (`none` for the empty list) -/
def maxOf : List Nat → Option Nat
  | [] => none
  | x :: xs =>
    match maxOf xs with
    | none => some x
    | some m => some (max x m)

/-- largest accepted packet number (`none` when nothing was accepted) -/
def rightEdge (s : State) : Option Nat := maxOf s.seen

/-- how far left of the right edge duplicates can still be told apart: `re - pn ≤ 128` -/
def reach : Nat := 128

/-- classification of a packet number by a receiver that remembers everything -/
def classify (s : State) (pn : Nat) : Res :=
  match rightEdge s with
  | none => .ok
  | some re =>
    if re < pn then .ok
    else if reach < re - pn then .tooOld
    else if pn ∈ s.seen then .duplicate
    else .ok

def step (s : State) : Op → State × Res
  | .check pn => (s, classify s pn)
  | .insert pn =>
    match classify s pn with
    | .ok => ({ seen := pn :: s.seen }, .ok)
    | r => (s, r)

def run (s : State) : List Op → State × List Res
  | [] => (s, [])
  | op :: ops =>
    let r := step s op
    let rest := run r.1 ops
    (rest.1, r.2 :: rest.2)

end Quic.Data.RefWindow
