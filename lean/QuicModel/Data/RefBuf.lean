import QuicModel.Prelude
/-
  `Data.RefBuf` — the abstract reference model of `s2n_quic_core::buffer::Reassembler`
  (quic/s2n-quic-core/src/buffer/reassembler.rs, reassembler/{request,reader,slot}.rs).

  What is transcribed from the code, statement by statement:
    * `Request::new`                (offset + len must fit a VarInt, else `OutOfRange`)
    * `Reader::skip_until` as instantiated by `write_reader` ("trim what was already consumed")
    * `Cursors::handle_reader_fin`  (the four-way match on (reader fin, known final size), the
                                     `max_recv_offset` bookkeeping; every `ensure!` precedes every
                                     mutation, so an error leaves the cursors untouched)
    * `Reassembler::skip`           (zero-length no-op, VarInt overflow, final-size check,
                                     `max_recv_offset` is raised to the new start offset)
    * the observers `len`, `consumed_len`, `total_received_len`, `final_size`,
      `is_writing_complete`, `is_reading_complete`, `is_empty`, and `reset`.

  What is abstracted: the slot/allocation layer. The stored bytes are a *relative run-length
  list* `segs : List (gap × bytes)` read from `consumed` upwards: first `gap` missing offsets,
  then `bytes`, then the next pair. Order and disjointness are structural, arbitrarily large
  offsets (2^62-1) cost nothing. `ins` writes only into gaps (the code trims every range that
  a slot already holds: first writer wins), `advance` drops a prefix (pop / skip).

  A real `pop_watermarked(w)` hands out ONE chunk: some `k` with `1 ≤ k ≤ min w len` bytes
  (`k` is decided by the slot layout). Popping `k` bytes is `pop (some k)` here, so quantifying
  over all watermarks covers all chunkings; `popChunk` is the variant that takes the observed
  chunk length and checks that it is legal.

  Code facts worth knowing (all visible in the differential run):
    * an EMPTY write at offset `o` still raises `max_recv_offset` to `o` (and is checked against
      a known final size), so a later FIN below `o` is `InvalidFin`;
    * an empty write below `consumed` keeps its own offset (nothing to trim);
    * a write that lies entirely below `consumed` is accepted and stores nothing, but its end
      offset still takes part in the final-size rules;
    * `skip` past buffered data drops it, raises `max_recv_offset`, and is refused with
      `InvalidFin` when it would pass a known final size;
    * `Error::ReaderError` cannot occur for `write_at`/`write_at_fin` (`Infallible` reader).
-/
namespace Quic.Data.RefBuf

/-- `VarInt::MAX` = 2^62 − 1: the largest stream offset -/
def maxOffset : Nat := 4611686018427387903

/-- `buffer::Error` -/
inductive Err
  | invalidFin
  | outOfRange
  | readerError
  deriving DecidableEq, Repr

/-- relative run-length list: `(gap, bytes)` pairs read upwards from `consumed` -/
abbrev Segs := List (Nat × List Nat)

/-- byte stored at relative index `i` -/
def get : Segs → Nat → Option Nat
  | [], _ => none
  | (g, b) :: rest, i =>
    if i < g then none
    else if i - g < b.length then b[i - g]?
    else get rest (i - g - b.length)

/-- write `d` at relative index `r`, only into gaps (already stored bytes win) -/
def ins : Segs → Nat → List Nat → Segs
  | [], r, d => if d.isEmpty then [] else [(r, d)]
  | (g, b) :: rest, r, d =>
    if d.isEmpty then (g, b) :: rest
    else if r + d.length ≤ g then (r, d) :: (g - (r + d.length), b) :: rest
    else if r < g then (r, d.take (g - r)) :: (0, b) :: ins rest 0 (d.drop (g - r + b.length))
    else if r < g + b.length then (g, b) :: ins rest 0 (d.drop (g + b.length - r))
    else (g, b) :: ins rest (r - (g + b.length)) d

/-- number of bytes stored contiguously from relative index 0 -/
def contig : Segs → Nat
  | [] => 0
  | (g, b) :: rest => if g = 0 then b.length + contig rest else 0

/-- the first `n` contiguous bytes (for `n ≤ contig`) -/
def front : Segs → Nat → List Nat
  | [], _ => []
  | (g, b) :: rest, n =>
    if g = 0 then (if n ≤ b.length then b.take n else b ++ front rest (n - b.length)) else []

/-- drop the first `n` relative indices -/
def advance : Segs → Nat → Segs
  | [], _ => []
  | (g, b) :: rest, n =>
    if n ≤ g then (g - n, b) :: rest
    else if n - g < b.length then (0, b.drop (n - g)) :: rest
    else advance rest (n - g - b.length)

structure RefBuf where
  /-- `cursors.start_offset` -/
  consumed : Nat := 0
  /-- received, not yet consumed bytes, relative to `consumed` -/
  segs : Segs := []
  /-- `cursors.final_offset` (`UNKNOWN_FINAL_SIZE = u64::MAX` is `none`) -/
  finalSize : Option Nat := none
  /-- `cursors.max_recv_offset` -/
  maxRecv : Nat := 0
  deriving Repr, DecidableEq

def init : RefBuf := {}

/-- `Reader::skip_until(self.current_offset())` on a fresh `Request {offset, data}`:
    reads (and discards) `min (consumed − offset) data.len()` bytes when `consumed > offset`.
    An empty request is left where it is. -/
def trim (consumed off : Nat) (data : List Nat) : Nat × List Nat :=
  if consumed > off then
    let n := min (consumed - off) data.length
    (off + n, data.drop n)
  else (off, data)

/-! the `ensure!` conditions, by name (tools/extractors/reassembler.py re-reads them from the
    source on every run; `QuicProofs.Bridge.Reassembler` proves the extracted text equal to these) -/

/-- `(Some(actual), Some(expected))`: `ensure!(actual == expected, Err(Error::InvalidFin))` -/
@[reducible] def finKnownOk (actual expected : Nat) : Bool := actual == expected
/-- `(Some(final_offset), None)`: `ensure!(self.max_recv_offset <= final_offset, ..)` -/
@[reducible] def finNewOk (maxRecv finalOffset : Nat) : Bool := decide (maxRecv ≤ finalOffset)
/-- `(None, Some(expected))`: `ensure!(expected >= buffered_offset, ..)` -/
@[reducible] def dataKnownOk (expected bufferedOffset : Nat) : Bool := decide (expected ≥ bufferedOffset)
/-- `skip`: `ensure!(final_size >= new_start_offset.as_u64(), Err(Error::InvalidFin))` -/
@[reducible] def skipFinalOk (finalSize newStart : Nat) : Bool := decide (finalSize ≥ newStart)

/-- `Cursors::handle_reader_fin` for a reader at `cur` with `buffered` bytes and the given
    final offset; returns the new `(final_offset, max_recv_offset)`. -/
def handleFin (finalSize : Option Nat) (maxRecv : Nat) (cur buffered : Nat) (readerFinal : Option Nat) :
    Except Err (Option Nat × Nat) :=
  let bufferedOffset := cur + buffered
  -- `checked_add_usize(..).ok_or(Error::OutOfRange)?`
  if bufferedOffset > maxOffset then .error .outOfRange
  else
    match readerFinal, finalSize with
    | some actual, some expected =>
      if finKnownOk actual expected then .ok (finalSize, max maxRecv bufferedOffset) else .error .invalidFin
    | some fo, none =>
      if finNewOk maxRecv fo then .ok (some fo, max maxRecv bufferedOffset) else .error .invalidFin
    | none, some expected =>
      if dataKnownOk expected bufferedOffset then .ok (finalSize, max maxRecv bufferedOffset) else .error .invalidFin
    | none, none => .ok (finalSize, max maxRecv bufferedOffset)

/-- `write_at` (`fin = false`) / `write_at_fin` (`fin = true`) -/
def write (s : RefBuf) (off : Nat) (data : List Nat) (fin : Bool) : Except Err RefBuf :=
  -- Request::new
  if off + data.length > maxOffset then .error .outOfRange
  else
    -- reader.skip_until(self.current_offset())
    let (cur, rest) := trim s.consumed off data
    -- Request::final_offset = current_offset + data.len()
    let readerFinal := if fin then some (cur + rest.length) else none
    match handleFin s.finalSize s.maxRecv cur rest.length readerFinal with
    | .error e => .error e
    | .ok (fs, mr) =>
      -- write_reader_impl: an empty reader stores nothing; otherwise every byte that no slot
      -- holds yet is stored
      .ok { s with finalSize := fs, maxRecv := mr, segs := ins s.segs (cur - s.consumed) rest }

/-- the byte held for absolute stream offset `i` (what `iter()` plus the gap slots hold) -/
def byteAt (s : RefBuf) (i : Nat) : Option Nat :=
  if i < s.consumed then none else get s.segs (i - s.consumed)

/-- `len()`: contiguous readable bytes -/
def len (s : RefBuf) : Nat := contig s.segs

def consumedLen (s : RefBuf) : Nat := s.consumed

/-- `total_received_len()`: walks the occupied slots from `start_offset` -/
def totalReceivedLen (s : RefBuf) : Nat := s.consumed + contig s.segs

def isEmpty (s : RefBuf) : Bool := contig s.segs == 0

def isWritingComplete (s : RefBuf) : Bool :=
  match s.finalSize with
  | some f => totalReceivedLen s == f
  | none => false

def isReadingComplete (s : RefBuf) : Bool := s.finalSize == some s.consumed

/-- take `n ≤ len` bytes from the front -/
def take (s : RefBuf) (n : Nat) : RefBuf × List Nat :=
  ({ s with consumed := s.consumed + n, segs := advance s.segs n }, front s.segs n)

/-- everything readable up to the watermark (`none` = `usize::MAX`, i.e. `pop()`); the
    concatenation of the chunks handed out by repeated `pop_watermarked` calls. -/
def pop (s : RefBuf) (watermark : Option Nat) : RefBuf × List Nat :=
  let n := match watermark with
    | some w => min w (len s)
    | none => len s
  take s n

/-- one real `pop_watermarked(w)` call that handed out a chunk of `k` bytes; `none` when the
    reference does not allow such a chunk (`k = 0` exactly when nothing is readable under the
    watermark, otherwise `1 ≤ k ≤ min w len`). -/
def popChunk (s : RefBuf) (watermark : Option Nat) (k : Nat) : Option (RefBuf × List Nat) :=
  let n := match watermark with
    | some w => min w (len s)
    | none => len s
  if (k = 0 ∧ n = 0) ∨ (1 ≤ k ∧ k ≤ n) then some (take s k) else none

/-- `Reassembler::skip` -/
def skip (s : RefBuf) (n : Nat) : Except Err RefBuf :=
  if n = 0 then .ok s
  else
    let newStart := s.consumed + n
    if newStart > maxOffset then .error .outOfRange
    else
      match s.finalSize with
      | some f =>
        if skipFinalOk f newStart then
          .ok { s with consumed := newStart, maxRecv := max s.maxRecv newStart, segs := advance s.segs n }
        else .error .invalidFin
      | none =>
        .ok { s with consumed := newStart, maxRecv := max s.maxRecv newStart, segs := advance s.segs n }

/-- `Reassembler::reset` -/
def reset (_ : RefBuf) : RefBuf := init

/-- operations of the public API -/
inductive Op
  | write (off : Nat) (data : List Nat) (fin : Bool)
  | pop (watermark : Option Nat)
  | skip (n : Nat)
  | reset
  deriving Repr

inductive Out
  | done
  | bytes (b : List Nat)
  | err (e : Err)
  deriving Repr, DecidableEq

def step (s : RefBuf) : Op → RefBuf × Out
  | .write off data fin =>
    match write s off data fin with
    | .ok s' => (s', .done)
    | .error e => (s, .err e)
  | .pop w =>
    let (s', b) := pop s w
    (s', .bytes b)
  | .skip n =>
    match skip s n with
    | .ok s' => (s', .done)
    | .error e => (s, .err e)
  | .reset => (init, .done)

/-- final state of a history -/
def run (s : RefBuf) : List Op → RefBuf
  | [] => s
  | op :: ops => run (step s op).1 ops

/-! ### allocation geometry of the slot layer (pinned; only `SlotBuf` needs it, the bridge keeps
    it tied to the source) -/

/-- `MIN_BUFFER_ALLOCATION_SIZE` -/
def minAlloc : Nat := 4096

/-- rows of `Reassembler::allocation_size` in loop order: `(min_offset, allocation_size)` -/
def allocTable : List (Nat × Nat) := [(1048576, 65536), (262144, 32768), (65536, 16384)]

/-- `Reassembler::allocation_size`: first row with `offset >= min_offset`, else the minimum -/
def allocationSize (offset : Nat) : Nat :=
  match allocTable.find? (fun r => decide (offset ≥ r.1)) with
  | some r => r.2
  | none => minAlloc

/-- `Reassembler::align_offset` -/
def alignOffset (offset alignment : Nat) : Nat := offset / alignment * alignment

end Quic.Data.RefBuf
