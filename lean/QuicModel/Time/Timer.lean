/-
  Transcription of quic/s2n-quic-core/src/time/timer.rs (`Timer`, `Provider`, `Query`) and of
  `Timestamp::has_elapsed` (time/timestamp.rs). Timestamps are microseconds (`Nat`, the harness
  keeps them in 1 ..< 2^62 so the `u64` addition of `has_elapsed` cannot wrap).
-/
namespace Quic.Time.Timer

/-- `K_GRANULARITY.as_micros()` (recovery/mod.rs: `Duration::from_millis(1)`) -/
def granularityUs : Nat := 1000

/-- `Timestamp::has_elapsed(self, now)`: `now += K_GRANULARITY.as_micros(); self < now` -/
def hasElapsed (self now : Nat) : Bool := decide (self < now + granularityUs)

/-- `struct Timer { expiration: Option<Timestamp> }` -/
abbrev Timer := Option Nat

def set (_t : Timer) (time : Nat) : Timer := some time
def cancel (_t : Timer) : Timer := none

def isExpired (t : Timer) (now : Nat) : Bool :=
  match t with
  | some timeout => hasElapsed timeout now
  | none => false

def isArmed (t : Timer) : Bool := t.isSome

/-- `poll_expiration`: `(timer afterwards, Ready?)` -/
def pollExpiration (t : Timer) (now : Nat) : Timer × Bool :=
  if isExpired t now then (cancel t, true) else (t, false)

/-- `impl Query for Option<Timestamp>`: `on_timer` (always `Ok(())`) -/
def onTimer (q : Option Nat) (t : Timer) : Option Nat :=
  match q, t with
  | some a, some b => some (Nat.min a b)
  | none, b => b
  | q, _ => q

/-- `Provider::next_expiration` of a provider that visits the timers `ts` in order
    (`timers(&mut query)` = `on_timer` of each, `?` never breaks because `on_timer` returns `Ok`) -/
def nextExpiration (ts : List Timer) : Option Nat := ts.foldl onTimer none

/-- `ArmedCount` query -/
def armedCount (ts : List Timer) : Nat := ts.foldl (fun c t => if isArmed t then c + 1 else c) 0

/-- `IsArmed` query: breaks (`Err(QueryBreak)`) at the first armed timer -/
def isArmedAny : List Timer → Bool
  | [] => false
  | t :: ts => if isArmed t then true else isArmedAny ts

/-- poll every timer of a bank at `now` (what a component's `on_timeout` does with its own timers) -/
def pollAll (ts : List Timer) (now : Nat) : List Timer := ts.map (fun t => (pollExpiration t now).1)

/-- indices that report Ready when all are polled at `now` -/
def readyIdx (ts : List Timer) (now : Nat) : List Nat :=
  (List.range ts.length).filter (fun i => (pollExpiration (ts.getD i none) now).2)

/-- op histories over a bank of timers -/
inductive Op where
  | set (i time : Nat)
  | cancel (i : Nat)
  | poll (i now : Nat)
  deriving Repr, DecidableEq

/-- one op on a bank: new bank and `true` iff the op was a poll that returned Ready
    (an out-of-range index leaves the bank unchanged) -/
def step (ts : List Timer) : Op → List Timer × Bool
  | .set i time => (ts.modify i (fun t => set t time), false)
  | .cancel i => (ts.modify i cancel, false)
  | .poll i now =>
    match ts[i]? with
    | some t => let r := pollExpiration t now; (ts.set i r.1, r.2)
    | none => (ts, false)

/-- run a history, collecting the poll results -/
def run (ts : List Timer) : List Op → List Timer × List Bool
  | [] => (ts, [])
  | op :: ops => let r := step ts op; let r' := run r.1 ops; (r'.1, r.2 :: r'.2)

end Quic.Time.Timer
