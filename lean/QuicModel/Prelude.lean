/-
  Prelude shared by every model: byte strings are `List Nat` (each element < 256 when it
  comes from the wire), hexadecimal text <-> bytes for the line protocol, small helpers.
  No imports (so the driver links as a native executable).
-/
namespace Quic

/-- All wire bytes are in range. -/
def BytesOk (b : List Nat) : Prop := ∀ x ∈ b, x < 256

def hexDigit (n : Nat) : Char :=
  if n < 10 then Char.ofNat (48 + n) else Char.ofNat (87 + n)

def hexVal? (c : Char) : Option Nat :=
  let n := c.toNat
  if 48 ≤ n ∧ n ≤ 57 then some (n - 48)
  else if 97 ≤ n ∧ n ≤ 102 then some (n - 87)
  else if 65 ≤ n ∧ n ≤ 70 then some (n - 55)
  else none

def toHex (b : List Nat) : String :=
  if b.isEmpty then "-" else
  String.ofList (b.foldr (fun x acc => hexDigit (x / 16 % 16) :: hexDigit (x % 16) :: acc) [])

def fromHexChars : List Char → Option (List Nat)
  | [] => some []
  | [_] => none
  | a :: b :: rest =>
    match hexVal? a, hexVal? b, fromHexChars rest with
    | some x, some y, some r => some ((x * 16 + y) :: r)
    | _, _, _ => none

/-- `-` is the empty byte string. -/
def fromHex? (s : String) : Option (List Nat) :=
  if s == "-" then some [] else fromHexChars s.toList

def tokens (line : String) : List String :=
  (line.trimAscii.toString.splitOn " ").filter (fun t => !t.isEmpty)

/-- big-endian value of a byte list -/
def beVal : List Nat → Nat
  | [] => 0
  | x :: xs => x * 256 ^ xs.length + beVal xs

/-- `n` big-endian bytes of `v` (low `8n` bits) -/
def beBytes : Nat → Nat → List Nat
  | 0, _ => []
  | n + 1, v => (v / 256 ^ n % 256) :: beBytes n v

def optStr (o : Option String) : String :=
  match o with
  | some s => s
  | none => "none"

def boolStr (b : Bool) : String := if b then "1" else "0"

def natList (l : List Nat) : String :=
  if l.isEmpty then "-" else ",".intercalate (l.map toString)

end Quic
