import QuicModel.Prelude
/-
  RFC 9000 §12.3 / §17.1 / Appendix A.2, A.3: packet-number truncation and reconstruction.

  `Codec.PacketNumber` transcribes quic/s2n-quic-core/src/packet/number/
    mod.rs                      `derive_truncation_range`, `decode_packet_number`
    packet_number.rs            `PacketNumber::{truncate, next, prev}`
    packet_number_len.rs        `PacketNumberLenValue::{from_varint, from_packet_tag,
                                 into_packet_tag_mask, bytesize, bitsize, truncate_packet_number,
                                 decode_truncated_packet_number}`
    truncated_packet_number.rs  `TruncatedPacketNumber::{expand, len, encode}`
    packet_number_range.rs      `PacketNumberRange::{new, next, next_back}` (iterator)
  Machine integers are `Nat`; every place where the Rust code does unchecked u64 arithmetic
  (`+ 1`, `+= pn_win`, `-= pn_win`, `1 << n`) is an `Option` (none = overflow panic in a
  debug build), so "no overflow" is a theorem (`QuicProofs.Props.C08PacketNumber.expand_total`)
  and not an assumption. The packet-number space tag (top two bits of the `NonZeroU64`) is not
  modelled: all operations require both arguments to be in the same space (`assert_eq`).

  A `PacketNumberLenValue` is represented by its discriminant `0..3` (`U8 = 0 … U32 = 3`,
  `self as u8`), a `TruncatedPacketNumber` by (discriminant, value).

  `Rfc.PacketNumber` is written from RFC 9000 §17.1 and Appendix A.2 / A.3 only.
-/
namespace Quic.Codec.PacketNumber

/-- `VarInt::MAX` = 2^62 - 1: the largest packet number (RFC 9000 §12.3) -/
def maxPn : Nat := 4611686018427387903
def u64Max : Nat := 18446744073709551615

/-- `u64::checked_sub` -/
def checkedSub (a b : Nat) : Option Nat := if b ≤ a then some (a - b) else none
/-- `u64::checked_mul` -/
def checkedMul (a b : Nat) : Option Nat := if a * b ≤ u64Max then some (a * b) else none
/-- `u64::checked_add` -/
def checkedAdd (a b : Nat) : Option Nat := if a + b ≤ u64Max then some (a + b) else none
/-- `VarInt::new(v).ok()` with the bound as parameter -/
def varintNewWith (mx v : Nat) : Option Nat := if v ≤ mx then some v else none
def varintNew (v : Nat) : Option Nat := varintNewWith maxPn v

/-- the arms of `PacketNumberLenValue::from_varint` in source order: `0..=MAX => Some(variant)`;
    (`U8_MAX`, `U8`), (`U16_MAX`, `U16`), (`U24_MAX`, `U24`), (`U32_MAX`, `U32`) -/
def pinnedArms : List (Nat × Nat) := [(255, 0), (65535, 1), (16777215, 2), (4294967295, 3)]

/-- `match *value { 0..=U8_MAX => Some(U8), 0..=U16_MAX => Some(U16), …, _ => None }`
    (overlapping arms: the first that matches wins) -/
def fromVarintWith (arms : List (Nat × Nat)) (v : Nat) : Option Nat :=
  match arms with
  | [] => none
  | (mx, variant) :: rest => if v ≤ mx then some variant else fromVarintWith rest v

def fromVarint (v : Nat) : Option Nat := fromVarintWith pinnedArms v

/-- `PacketNumberLenValue::bytesize`: `self as usize + 1` -/
def bytesize (len : Nat) : Nat := len + 1
/-- `PacketNumberLenValue::bitsize`: `self.bytesize() * 8` -/
def bitsize (len : Nat) : Nat := bytesize len * 8

/-- `PACKET_NUMBER_LEN_MASK` -/
def lenMask : Nat := 3
/-- `PacketNumberLenValue::from_packet_tag`: `match tag & PACKET_NUMBER_LEN_MASK { U8_TAG => U8, … }`
    with `U8_TAG = 0, U16_TAG = 1, U24_TAG = 2, U32_TAG = 3` -/
def fromPacketTag (tag : Nat) : Nat := tag &&& lenMask
/-- `PacketNumberLenValue::into_packet_tag_mask`: `self as u8` -/
def intoPacketTagMask (len : Nat) : Nat := len

/-- `derive_truncation_range(largest_acknowledged, packet_number)`:
    `pn.checked_sub(la).and_then(|v| v.checked_mul(2)).and_then(|v| VarInt::new(v).ok())
       .and_then(|v| PacketNumberLen::from_varint(v, space))` -/
def deriveTruncationRangeWith (arms : List (Nat × Nat)) (mx la pn : Nat) : Option Nat :=
  (checkedSub pn la).bind fun v =>
  (checkedMul v 2).bind fun v =>
  (varintNewWith mx v).bind fun v =>
  fromVarintWith arms v

def deriveTruncationRange (la pn : Nat) : Option Nat :=
  deriveTruncationRangeWith pinnedArms maxPn la pn

structure Truncated where
  /-- `PacketNumberLenValue` discriminant, 0..3 -/
  len : Nat
  /-- the `u8` / `u16` / `u24` / `u32` payload -/
  value : Nat
  deriving Repr, DecidableEq

/-- `PacketNumberLenValue::truncate_packet_number`: `*value as u8` / `as u16` /
    `u24::new_truncated(*value as u32)` (= `& ((1 << 24) - 1)`) / `as u32` -/
def truncatePacketNumber (len value : Nat) : Truncated :=
  match len with
  | 0 => ⟨0, value % 2 ^ 8⟩
  | 1 => ⟨1, value % 2 ^ 16⟩
  | 2 => ⟨2, value % 2 ^ 32 % 2 ^ 24⟩
  | _ => ⟨3, value % 2 ^ 32⟩

/-- `PacketNumber::truncate(self, largest_acknowledged)` -/
def truncate (pn la : Nat) : Option Truncated :=
  match deriveTruncationRange la pn with
  | none => none
  | some len => some (truncatePacketNumber len pn)

/-- `1 << pn_nbits` on `u64` (overflow panic for a shift ≥ 64) -/
def shl1 (n : Nat) : Option Nat := if n < 64 then some (2 ^ n) else none

/-- `(expected_pn & !pn_mask) | truncated_pn` on `u64` -/
def candidateBits (expected mask t : Nat) : Nat := (expected &&& (u64Max - mask)) ||| t

/-- second half of `decode_packet_number`: the four flags
      a = expected_pn.checked_sub(pn_hwin).filter(|v| candidate_pn <= *v).is_some()
      b = (1u64 << 62).checked_sub(pn_win).filter(|v| candidate_pn < *v).is_some()
      c = expected_pn.checked_add(pn_hwin).filter(|v| candidate_pn > *v).is_some()
      d = candidate_pn >= pn_win
    `ab = a && b`, `cd = !ab && c && d`, `if ab { candidate_pn += pn_win }`,
    `if cd { candidate_pn -= pn_win }` (unchecked `u64` arithmetic: none = overflow panic) and the
    final `VarInt::new(candidate_pn).unwrap_or(VarInt::MAX)` clamp. -/
def adjustCandidate (mx expected win candidate : Nat) : Option Nat :=
  let hwin := win / 2
  let a := decide (hwin ≤ expected ∧ candidate ≤ expected - hwin)
  let b := decide (win ≤ 2 ^ 62 ∧ candidate < 2 ^ 62 - win)
  let c := decide (expected + hwin ≤ u64Max ∧ candidate > expected + hwin)
  let d := decide (candidate ≥ win)
  let ab := a && b
  let cd := !ab && c && d
  match (if ab then checkedAdd candidate win else some candidate) with
  | none => none
  | some c1 =>
    match (if cd then checkedSub c1 win else some c1) with
    | none => none
    | some c2 => some (if c2 ≤ mx then c2 else mx)

/-- `decode_packet_number(largest_pn, truncated_pn)` (mod.rs). `none` = a `u64` overflow /
    underflow panic in one of the unchecked operations:
      let pn_nbits = truncated_pn.bitsize();
      let expected_pn = largest_pn.as_u64() + 1;
      let pn_win = 1 << pn_nbits;  let pn_hwin = pn_win / 2;  let pn_mask = pn_win - 1;
      let mut candidate_pn = (expected_pn & !pn_mask) | truncated_pn.into_u64(); … -/
def decodePacketNumberWith (mx largest : Nat) (t : Truncated) : Option Nat :=
  let nbits := bitsize t.len
  match checkedAdd largest 1, shl1 nbits with
  | some expected, some win =>
    let mask := win - 1
    let candidate := candidateBits expected mask t.value
    adjustCandidate mx expected win candidate
  | _, _ => none

def decodePacketNumber (largest : Nat) (t : Truncated) : Option Nat :=
  decodePacketNumberWith maxPn largest t

/-- `TruncatedPacketNumber::expand(self, largest)` -/
def expand (largest : Nat) (t : Truncated) : Option Nat := decodePacketNumber largest t

/-- `EncoderValue for TruncatedPacketNumber`: the `u8`/`u16`/`u24`/`u32` in network byte order -/
def encodeTruncated (t : Truncated) : List Nat := beBytes (bytesize t.len) t.value

/-- `PacketNumberLen::decode_truncated_packet_number(buffer)`: a checked fixed-width big-endian
    read of `bytesize` bytes -/
def decodeTruncated (len : Nat) (b : List Nat) : Option (Truncated × List Nat) :=
  let n := bytesize len
  if b.length < n then none else some (⟨len, beVal (b.take n)⟩, b.drop n)

/-- `PacketNumber::next`: `as_varint(self).checked_add(1)` (`VarInt` arithmetic: ≤ 2^62-1) -/
def next (pn : Nat) : Option Nat := if pn + 1 ≤ maxPn then some (pn + 1) else none
/-- `PacketNumber::prev` -/
def prev (pn : Nat) : Option Nat := if 1 ≤ pn then some (pn - 1) else none

/-! ### `PacketNumberRange` (packet_number_range.rs) -/

structure Range where
  start : Nat
  stop : Nat            -- `end` (inclusive)
  exhausted : Bool
  deriving Repr, DecidableEq

/-- `PacketNumberRange::new` (`assert!(start <= end)`: none = panic) -/
def Range.new (s e : Nat) : Option Range := if s ≤ e then some ⟨s, e, false⟩ else none

def Range.contains (r : Range) (pn : Nat) : Bool := decide (r.start ≤ pn) && decide (pn ≤ r.stop)

/-- `Iterator::next` -/
def Range.next (r : Range) : Option Nat × Range :=
  if !r.exhausted && decide (r.start ≤ r.stop) then
    match PacketNumber.next r.start with
    | some n => (some r.start, { r with start := n })
    | none => (some r.start, { r with exhausted := true })
  else (none, { r with exhausted := true })

/-- `DoubleEndedIterator::next_back` -/
def Range.nextBack (r : Range) : Option Nat × Range :=
  if !r.exhausted && decide (r.start ≤ r.stop) then
    match PacketNumber.prev r.stop with
    | some p => (some r.stop, { r with stop := p, exhausted := decide (r.start > p) })
    | none => (some r.stop, { r with exhausted := true })
  else (none, { r with exhausted := true })

/-- run the forward iterator to completion (fuel = upper bound on the number of items + 1) -/
def Range.collect : Nat → Range → List Nat
  | 0, _ => []
  | fuel + 1, r =>
    match r.next with
    | (some x, r') => x :: Range.collect fuel r'
    | (none, _) => []

def Range.collectBack : Nat → Range → List Nat
  | 0, _ => []
  | fuel + 1, r =>
    match r.nextBack with
    | (some x, r') => x :: Range.collectBack fuel r'
    | (none, _) => []

end Quic.Codec.PacketNumber

namespace Quic.Rfc.PacketNumber

/-- RFC 9000 §12.3: "The packet number is an integer in the range 0 to 2^62-1." -/
def maxPn : Nat := 2 ^ 62 - 1

/-- RFC 9000 §17.1: "the sender MUST use a packet number size able to represent more than twice
    as large a range as the difference between the largest acknowledged packet number and the
    packet number being sent"; a size of `n` bytes represents a range of `2^(8n)` values. -/
def sizeOk (nbytes fullPn largestAcked : Nat) : Prop :=
  largestAcked ≤ fullPn ∧ 2 ^ (8 * nbytes) > 2 * (fullPn - largestAcked)

instance (n p l : Nat) : Decidable (sizeOk n p l) := by unfold sizeOk; exact inferInstance

/-- §17.1: "they are encoded in 1 to 4 bytes": the shortest permitted size, if any -/
def minimalLen (fullPn largestAcked : Nat) : Option Nat :=
  [1, 2, 3, 4].find? (fun n => decide (sizeOk n fullPn largestAcked))

/-- Appendix A.2 `EncodePacketNumber` size computation (informative pseudo-code):
      num_unacked = full_pn - largest_acked
      min_bits    = log(num_unacked, 2) + 1
      num_bytes   = ceil(min_bits / 8)
    with a real-valued logarithm: `ceil((log2 n + 1) / 8) ≤ k ⇔ n ≤ 2^(8k-1)`. (`n = 0` gives
    `-∞`; one byte is the minimum size.) Note: this is one value more permissive than the §17.1
    MUST at `n = 2^7, 2^15, 2^23, 2^31`. -/
def a2NumBytes (fullPn largestAcked : Nat) : Nat :=
  let n := fullPn - largestAcked
  if n ≤ 2 ^ 7 then 1 else if n ≤ 2 ^ 15 then 2 else if n ≤ 2 ^ 23 then 3
  else if n ≤ 2 ^ 31 then 4 else 5   -- 5 stands for "more than 4 bytes": not encodable

/-- A.2: "Encode the integer value and truncate to the num_bytes least significant bytes."
    (network byte order, §17.1 / Figure 13-17 field layout) -/
def encode (fullPn nbytes : Nat) : List Nat :=
  (List.range nbytes).reverse.map (fun i => fullPn / 256 ^ i % 256)

/-- §17.2 / §17.3.1: "Packet Number Length: … the length of the Packet Number field … encoded as
    an unsigned two-bit integer that is one less than the length of the Packet Number field in
    bytes" in the least significant two bits of the first byte. -/
def pnLenOfFirstByte (b : Nat) : Nat := b % 4 + 1

/-- Appendix A.3 `DecodePacketNumber(largest_pn, truncated_pn, pn_nbits)` over the integers.
    `(expected_pn & ~pn_mask) | truncated_pn` is written the way the pseudo-code's own comment
    describes it: "strip the trailing bits from expected_pn and add the truncated_pn". -/
def decode (largestPn truncatedPn pnNbits : Nat) : Int :=
  let expected : Int := largestPn + 1
  let win : Int := 2 ^ pnNbits
  let hwin : Int := win / 2
  let candidate : Int := expected - expected % win + truncatedPn
  if candidate ≤ expected - hwin ∧ candidate < 2 ^ 62 - win then candidate + win
  else if candidate > expected + hwin ∧ candidate ≥ win then candidate - win
  else candidate

/-- §17.1 (declarative): "the packet number is decoded by finding the packet number value that is
    closest to the next expected packet. The next expected packet is the highest received packet
    number plus one." The window of A.3's comment: greater than `expected - hwin`, at most
    `expected + hwin`. -/
def inWindow (largestPn pnNbits : Nat) (pn : Nat) : Prop :=
  (largestPn : Int) + 1 - 2 ^ pnNbits / 2 < pn ∧ (pn : Int) ≤ largestPn + 1 + 2 ^ pnNbits / 2

end Quic.Rfc.PacketNumber
