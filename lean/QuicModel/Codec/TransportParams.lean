import QuicModel.Prelude
import QuicModel.Codec.VarInt
import QuicModel.Rfc.TransportParams
/-
  `Codec.TransportParams` — transcription of quic/s2n-quic-core/src/transport/parameters/mod.rs
  (+ disabled_parameter.rs, connection/id.rs, s2n-codec `decode_with_len_prefix`).

  The Rust code is macro-generated (`impl_transport_parameters!`): one `match` arm per struct field,
  each arm doing, in this order,
      1. `decoder_invariant!(<$field_ty>::ENABLED, …)`           (DisabledParameter<T> in the client type)
      2. `decoder_invariant!(mem::replace(&mut used_fields.$field, true) == false, …)`   (duplicate)
      3. `inner_buffer.decode::<TransportParameterCodec<$field_ty>>()`  =
         `decode_with_len_prefix::<VarInt, CodecValue>`: varint length, `decode_slice(len)`,
         `CodecValue::decode(slice)`, `slice.ensure_empty()`
      4. `value.0.validate()?`                                   (TransportParameterValidator)
  and a default arm `inner_buffer.skip_with_len_prefix::<VarInt>()`.
  The model is the same loop over a *table of fields* (`Field`): what differs between arms — ID,
  ENABLED-by-role, CodecValue type, validator comparisons, default — is data.  That table is exactly
  what tools/extractors/transport_params.py re-reads from the source on every run
  (`Generated.TransportParams.fields`), and `QuicProofs.Bridge.TransportParams` proves
  `Generated fields = fieldsWith pinnedKnobs`.

  The four places where the table deviates from RFC 9000 are isolated in `Knobs`, so that
  "the code as it is" (`pinnedKnobs`) and "the code with RFC-conformant rows" (`rfcKnobs`) are two
  instances of the same model (see QuicProofs/Props/C14TransportParams.lean).
-/
namespace Quic.Codec.TransportParams
open Quic.Codec
export Quic.Rfc.TransportParams (Role)

/-- `DecoderError`, canonicalised: UnexpectedEof / UnexpectedBytes / InvariantViolation split by message
    ("… is not allowed in this context" / "duplicate value for …" / everything else) -/
inductive Err where
  | eof | trailing | disabled | duplicate | invalid
  deriving DecidableEq, Repr

def Err.str : Err → String
  | .eof => "eof" | .trailing => "trailing" | .disabled => "disabled"
  | .duplicate => "duplicate" | .invalid => "invalid"

/-- comparison operator of a `decoder_invariant!(value OP constant, …)` in a validator -/
inductive Cmp where
  | lt | le | gt | ge
  deriving DecidableEq, Repr

def Cmp.eval : Cmp → Nat → Nat → Bool
  | .lt, v, k => decide (v < k)
  | .le, v, k => decide (v ≤ k)
  | .gt, v, k => decide (v > k)
  | .ge, v, k => decide (v ≥ k)

/-- `TransportParameter::CodecValue` -/
inductive ValueCodec where
  | varint                                  -- VarInt
  | u8                                      -- u8 (AckDelayExponent)
  | unit                                    -- () (MigrationSupport, MtuProbingCompleteSupport)
  | token                                   -- stateless_reset::Token = [u8; 16]
  | cid (minLen : Nat)                      -- connection::{InitialId 8, UnboundedId 0, LocalId 4}; MAX_LEN = 20
  | preferredAddress (cidMin : Nat)         -- PreferredAddress; its connection_id is an UnboundedId (0)
  | dcVersions                              -- DcSupportedVersions
  deriving DecidableEq, Repr

inductive Value where
  | int (n : Nat)
  | unit
  | bytes (b : List Nat)
  | pa (v4 : Option (List Nat)) (v6 : Option (List Nat)) (cid : List Nat) (token : List Nat)
  | versions (l : List Nat)
  deriving DecidableEq, Repr

/-- one struct field of `TransportParameters<…>` -/
structure Field where
  name : String
  id : Nat
  /-- the field type is a `DisabledParameter<T>` in `ClientTransportParameters` -/
  serverOnly : Bool
  codec : ValueCodec
  /-- the `decoder_invariant!` comparisons of `TransportParameterValidator::validate` (conjunction) -/
  checks : List (Cmp × Nat)
  /-- `default_value()`; `none` for `Option<T>` fields and the two flag enums (absent = not set) -/
  default : Option Value
  deriving DecidableEq, Repr

/-- The four table entries that differ from RFC 9000 §18.2 at the pinned commit. -/
structure Knobs where
  /-- `MaxAckDelay::validate`: `*self.0 <= 2^14` (true) vs `< 2^14` (false) -/
  madInclusive : Bool
  /-- `transport_parameter!(AckDelayExponent(u8), …)`: value decoded as one raw byte (true) vs as a varint -/
  adeAsByte : Bool
  /-- `connection_id_parameter!(RetrySourceConnectionId, LocalId, 0x10)`, `id!(LocalId, 4)` -/
  rscidMin : Nat
  /-- `PreferredAddress.connection_id : UnboundedId`, `id!(UnboundedId, 0)` -/
  paCidMin : Nat
  deriving DecidableEq, Repr

/-- what the code at the pinned commit does -/
def pinnedKnobs : Knobs := ⟨false, true, 4, 0⟩     -- F1 repaired in /repo (`<=` → `<`, commit 8a3f55a); before the fix: ⟨true, true, 4, 0⟩

/-- what RFC 9000 asks for -/
def rfcKnobs : Knobs := ⟨false, false, 0, 1⟩

/-- the struct, in declaration order (= encoding order) -/
def fieldsWith (k : Knobs) : List Field := [
  ⟨"max_idle_timeout", 0x01, false, .varint, [], some (.int 0)⟩,
  ⟨"max_udp_payload_size", 0x03, false, .varint, [(.ge, 1200), (.le, 65527)], some (.int 65527)⟩,
  ⟨"initial_max_data", 0x04, false, .varint, [], some (.int 0)⟩,
  ⟨"initial_max_stream_data_bidi_local", 0x05, false, .varint, [], some (.int 0)⟩,
  ⟨"initial_max_stream_data_bidi_remote", 0x06, false, .varint, [], some (.int 0)⟩,
  ⟨"initial_max_stream_data_uni", 0x07, false, .varint, [], some (.int 0)⟩,
  ⟨"initial_max_streams_bidi", 0x08, false, .varint, [(.le, 1152921504606846976)], some (.int 0)⟩,
  ⟨"initial_max_streams_uni", 0x09, false, .varint, [(.le, 1152921504606846976)], some (.int 0)⟩,
  ⟨"max_datagram_frame_size", 0x20, false, .varint, [], some (.int 0)⟩,
  ⟨"ack_delay_exponent", 0x0a, false, if k.adeAsByte then .u8 else .varint, [(.le, 20)], some (.int 3)⟩,
  ⟨"max_ack_delay", 0x0b, false, .varint, [(if k.madInclusive then .le else .lt, 16384)], some (.int 25)⟩,
  ⟨"migration_support", 0x0c, false, .unit, [], none⟩,
  ⟨"active_connection_id_limit", 0x0e, false, .varint, [(.ge, 2)], some (.int 2)⟩,
  ⟨"original_destination_connection_id", 0x00, true, .cid 8, [], none⟩,
  ⟨"stateless_reset_token", 0x02, true, .token, [], none⟩,
  ⟨"preferred_address", 0x0d, true, .preferredAddress k.paCidMin, [], none⟩,
  ⟨"initial_source_connection_id", 0x0f, false, .cid 0, [], none⟩,
  ⟨"retry_source_connection_id", 0x10, true, .cid k.rscidMin, [], none⟩,
  ⟨"dc_supported_versions", 0xdc0000, false, .dcVersions, [], some (.versions [])⟩,
  ⟨"mtu_probing_complete_support", 0xdc0002, false, .unit, [], none⟩ ]

def pinnedFields : List Field := fieldsWith pinnedKnobs
def conformantFields : List Field := fieldsWith rfcKnobs

/-! ### value decoding (`CodecValue::decode` on the length-delimited slice, then `ensure_empty`) -/

/-- `Unspecified::filter_unspecified` on a SocketAddressV4/V6: all-zero address+port ⇒ `None` -/
def filterUnspecified (b : List Nat) : Option (List Nat) :=
  if b.all (fun x => x == 0) then none else some b

/-- `DcSupportedVersions::decode`: up to four varints, each ≤ u32::MAX; the rest of the slice is skipped -/
def decodeVersions : Nat → List Nat → List Nat → Except Err (List Nat)
  | _, [], acc => .ok acc
  | 0, _ :: _, acc => .ok acc
  | n + 1, b :: bs, acc =>
    match VarInt.decode (b :: bs) with
    | none => .error .eof
    | some (v, rest) =>
      if v ≤ 4294967295 then decodeVersions n rest (acc ++ [v]) else .error .invalid

/-- `PreferredAddress::decode` + the enclosing `ensure_empty` -/
def decodePreferredAddress (cidMin : Nat) (val : List Nat) : Except Err Value :=
  if val.length < 6 then .error .eof
  else
    let v4 := filterUnspecified (val.take 6)
    let b1 := val.drop 6
    if b1.length < 18 then .error .eof
    else
      let v6 := filterUnspecified (b1.take 18)
      match b1.drop 18 with
      | [] => .error .eof
      | n :: b3 =>
        if b3.length < n then .error .eof
        else if ¬ (cidMin ≤ n ∧ n ≤ 20) then .error .invalid       -- "invalid UnboundedId"
        else
          let b4 := b3.drop n
          if b4.length < 16 then .error .eof
          else if b4.length > 16 then .error .trailing
          else .ok (.pa v4 v6 (b3.take n) b4)

def decodeValue (c : ValueCodec) (val : List Nat) : Except Err Value :=
  match c with
  | .varint =>
    match VarInt.decode val with
    | none => .error .eof
    | some (v, rest) => if rest.isEmpty then .ok (.int v) else .error .trailing
  | .u8 =>
    match val with
    | [] => .error .eof
    | [b] => .ok (.int b)
    | _ :: _ :: _ => .error .trailing
  | .unit => if val.isEmpty then .ok .unit else .error .trailing
  | .token =>
    if val.length < 16 then .error .eof
    else if val.length > 16 then .error .trailing
    else .ok (.bytes val)
  | .cid lo => if lo ≤ val.length ∧ val.length ≤ 20 then .ok (.bytes val) else .error .invalid
  | .preferredAddress cidMin => decodePreferredAddress cidMin val
  | .dcVersions =>
    match decodeVersions 4 val [] with
    | .ok l => .ok (.versions l)
    | .error e => .error e

/-- `TransportParameterValidator::validate` -/
def validate (f : Field) : Value → Bool
  | .int n => f.checks.all (fun c => c.1.eval n c.2)
  | .pa v4 v6 _ _ => v4.isSome || v6.isSome        -- "at least one address needs to be specified"
  | _ => true

/-! ### the `decode_parameters` loop -/

/-- present parameters in order of appearance, keyed by ID (`parameters.$field = value`) -/
abbrev Params := List (Nat × Value)

structure State where
  params : Params
  used : List Nat            -- `UsedFields`
  deriving Repr

def findField (fs : List Field) (tag : Nat) : Option Field := fs.find? (fun f => f.id == tag)

/-- `decode_slice_with_len_prefix::<VarInt>` -/
def lenPrefixed (buf : List Nat) : Except Err (List Nat × List Nat) :=
  match VarInt.decode buf with
  | none => .error .eof
  | some (len, rest) =>
    if rest.length < len then .error .eof else .ok (rest.take len, rest.drop len)

/-- one known-tag `match` arm -/
def stepKnown (role : Role) (f : Field) (inner : List Nat) (st : State) : Except Err (State × List Nat) :=
  if f.serverOnly && role == .client then .error .disabled
  else if st.used.contains f.id then .error .duplicate
  else
    match lenPrefixed inner with
    | .error e => .error e
    | .ok (val, rest) =>
      match decodeValue f.codec val with
      | .error e => .error e
      | .ok v =>
        if validate f v then .ok (⟨st.params ++ [(f.id, v)], st.used ++ [f.id]⟩, rest)
        else .error .invalid

/-- `while !buffer.is_empty() { … }`; every iteration consumes at least the tag byte, `fuel` is the
    buffer length (see `loop_fuel` in QuicProofs/Lemmas/TransportParams.lean) -/
def loop (fs : List Field) (role : Role) : Nat → List Nat → State → Except Err Params
  | _, [], st => .ok st.params
  | 0, _ :: _, _ => .error .eof
  | fuel + 1, b :: bs, st =>
    match VarInt.decode (b :: bs) with
    | none => .error .eof
    | some (tag, inner) =>
      match findField fs tag with
      | some f =>
        match stepKnown role f inner st with
        | .error e => .error e
        | .ok (st', rest) => loop fs role fuel rest st'
      | none =>
        match lenPrefixed inner with
        | .error e => .error e
        | .ok (_, rest) => loop fs role fuel rest st

def decodeParameters (fs : List Field) (role : Role) (blk : List Nat) : Except Err Params :=
  loop fs role blk.length blk ⟨[], []⟩

def isOk {ε α : Type} : Except ε α → Bool
  | .ok _ => true
  | .error _ => false

def accepts (fs : List Field) (role : Role) (blk : List Nat) : Bool := isOk (decodeParameters fs role blk)

/-! ### record view, defaults -/

def lookupId (ps : Params) (id : Nat) : Option Value :=
  match ps.find? (fun p => p.1 == id) with
  | some p => some p.2
  | none => none

/-- value of a field of the decoded struct: what was sent, else `default_value()` -/
def get (ps : Params) (f : Field) : Option Value :=
  match lookupId ps f.id with
  | some v => some v
  | none => f.default

/-! ### encoder (`EncoderValue for TransportParameters`, `TransportParameterCodec<&T>`) -/

def encodeValue : ValueCodec → Value → List Nat
  | .varint, .int n => VarInt.encode n
  | .u8, .int n => [n]
  | .unit, _ => []
  | .token, .bytes b => b
  | .cid _, .bytes b => b
  | .preferredAddress _, .pa v4 v6 cid tok =>
    v4.getD (List.replicate 6 0) ++ v6.getD (List.replicate 18 0) ++ [cid.length] ++ cid ++ tok
  | .dcVersions, .versions l => l.flatMap VarInt.encode
  | _, _ => []

/-- `buffer.encode(&T::ID); buffer.encode_with_len_prefix::<VarInt, _>(value)` -/
def tlv (id : Nat) (val : List Nat) : List Nat := VarInt.encode id ++ VarInt.encode val.length ++ val

/-- `try_into_codec_value`: `None` when the value equals the default (or the Option/flag is unset) -/
def wireValue (ps : Params) (f : Field) : Option Value :=
  match get ps f with
  | none => none
  | some v => if some v = f.default then none else some v

def encodeField (ps : Params) (f : Field) : List Nat :=
  match wireValue ps f with
  | none => []
  | some v => tlv f.id (encodeValue f.codec v)

def encode (fs : List Field) (ps : Params) : List Nat := fs.flatMap (encodeField ps)

/-- the parameters an encoded block carries: non-default fields in declaration order -/
def canon (fs : List Field) (ps : Params) : Params :=
  fs.filterMap (fun f => (wireValue ps f).map (fun v => (f.id, v)))

/-! ### what the connection derives from the peer's parameters
    (`flow_control_limits`, `stream_limits`, `ack_settings`, `datagram_limits`,
     `connection::Limits::load_peer` → `MaxIdleTimeout::load_peer`) -/

def getInt (fs : List Field) (ps : Params) (id : Nat) : Nat :=
  match findField fs id with
  | none => 0
  | some f => match get ps f with
    | some (.int n) => n
    | _ => 0

structure Limits where
  maxData : Nat
  maxStreamsBidi : Nat
  maxStreamsUni : Nat
  streamDataBidiLocal : Nat
  streamDataBidiRemote : Nat
  streamDataUni : Nat
  maxAckDelayUs : Nat
  ackDelayExponent : Nat
  maxDatagramPayload : Nat
  activeConnectionIdLimit : Nat
  /-- effective idle timeout in ms after `load_peer` into a local value; `none` = disabled -/
  idleMs : Option Nat
  deriving DecidableEq, Repr

/-- `MaxIdleTimeout::load_peer`: 0 means "no timeout"; otherwise the minimum of the two -/
def loadPeerIdle (localMs peerMs : Nat) : Option Nat :=
  if localMs = 0 then (if peerMs = 0 then none else some peerMs)
  else if peerMs = 0 then some localMs
  else if localMs > peerMs then some peerMs else some localMs

def limitsOf (fs : List Field) (ps : Params) (localIdleMs : Nat) : Limits :=
  { maxData := getInt fs ps 0x04
    maxStreamsBidi := getInt fs ps 0x08
    maxStreamsUni := getInt fs ps 0x09
    streamDataBidiLocal := getInt fs ps 0x05
    streamDataBidiRemote := getInt fs ps 0x06
    streamDataUni := getInt fs ps 0x07
    maxAckDelayUs := getInt fs ps 0x0b * 1000
    ackDelayExponent := getInt fs ps 0x0a
    maxDatagramPayload := min (getInt fs ps 0x20) (getInt fs ps 0x03)
    activeConnectionIdLimit := getInt fs ps 0x0e
    idleMs := loadPeerIdle localIdleMs (getInt fs ps 0x01) }

end Quic.Codec.TransportParams
