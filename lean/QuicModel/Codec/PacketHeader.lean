import QuicModel.Prelude
import QuicModel.Codec.VarInt
import QuicModel.Codec.PacketNumber
/-
  C05 — packet headers (RFC 9000 §17.2 / §17.3, RFC 8999) as the code decodes and encodes them.

  `Codec.PacketHeader` transcribes the PROTECTED-packet decoder of
    quic/s2n-quic-core/src/packet/mod.rs                `PacketDecoder::decode_packet` (first-byte dispatch on
                                                        `tag >> 4`, version peek, `long_packet!` / `version_negotiation!`)
    packet/decoding.rs                                  `HeaderDecoder::{new_long, new_short, decode_destination_connection_id,
                                                        decode_source_connection_id, decode_short_destination_connection_id,
                                                        decode_checked_range, finish_long, finish_short}`,
                                                        `HeaderDecoderResult::split_off_packet`
    packet/long.rs                                      `validate_{destination,source}_connection_id_len` (≤ 20)
    packet/{initial,zero_rtt,handshake,retry,version_negotiation,short}.rs   the per-type `decode`
    connection/id.rs                                    `impl Validator for usize`
  and the encoder side
    packet/{initial,zero_rtt,handshake,short}.rs        `encode_header`
    packet/{retry,version_negotiation}.rs               `EncoderValue::encode`
    packet/long.rs                                      `LongPayloadLenCursor::{encode_mut, update}` (the Length placeholder)
    packet/encoding.rs                                  `PacketEncoder::encode_packet` (sizes, minimum payload, errors)
    varint/mod.rs                                       `VarInt::encode_updated`.

  What the decoder looks at is exactly the part of a packet that is NOT under header protection:
  first-byte form/type bits, version, connection IDs, token, the Length field; it delimits the
  protected region (`headerLen` = offset of the packet number, `packetLen` = end of the packet) and
  returns the rest of the datagram (the next coalesced packet).  The packet-number length, reserved
  bits and key phase are header-protected and belong to C06 (`Compose/PacketLayout`).

  Every place where the Rust code has an `expect` / `debug_assert!` is an explicit `Err.panic` in
  the model, so "the decoder never panics" is a theorem (`header_decode_total`), not an assumption.

  Quirks transcribed as they are (see `Rfc.PacketHeader` for the reference and
  `QuicProofs.Props.C05PacketHeader` for the exact relation):
    * `ProtectedInitial::decode` reads DCID and SCID with the *unvalidated* `decode_checked_range`
      (any length 0..255); 0-RTT / Handshake / Retry use the validated readers (≤ 20);
    * every non-zero version is decoded with the version-1 layout;
    * a version of 0 is a Version Negotiation packet whatever the type bits say; with the fixed
      bit clear (tags `0b1000..=0b1011`) anything else is rejected;
    * Version Negotiation requires both connection IDs ≤ 20 bytes, at least one version and a
      payload that is a multiple of 4 bytes;
    * the short-header DCID length comes from the `connection::id::Validator`; a `usize n`
      validates iff at least `n` bytes follow the first byte.
-/
namespace Quic.Codec.PacketHeader
open Quic

/-- `s2n_codec::DecoderError`, reduced to the classes packet headers can produce; `panic` stands
    for an `expect` / `debug_assert!` that would fire. -/
inductive Err where
  | eof               -- UnexpectedEof(_)
  | invalidPacket     -- InvariantViolation("invalid packet")
  | invalidVn         -- InvariantViolation("invalid version negotiation packet")
  | dcidLen           -- InvariantViolation("destination connection exceeds max length")
  | scidLen           -- InvariantViolation("source connection exceeds max length")
  | invalidCid        -- InvariantViolation("invalid connection id")
  | retryTokenEmpty   -- InvariantViolation("Token cannot be empty")
  | vnNoVersion       -- InvariantViolation("missing at least one version")
  | vnPayloadLen      -- InvariantViolation("invalid payload length")
  | panic             -- an `expect(..)` / `debug_assert!` would fire
  deriving Repr, DecidableEq

/-- what `ProtectedPacket::decode` returns: the unprotected header fields and the extent of the
    protected region.  `headerLen` = `ProtectedPayload.header_len` (offset of the packet number),
    `packetLen` = `ProtectedPayload.len()` (the payload buffer starts at the first byte of the packet). -/
inductive Packet where
  | short (spin : Nat) (dcid : List Nat) (headerLen packetLen : Nat)
  | versionNegotiation (tag : Nat) (dcid scid supported : List Nat)
  | initial (version : Nat) (dcid scid token : List Nat) (headerLen packetLen : Nat)
  | zeroRtt (version : Nat) (dcid scid : List Nat) (headerLen packetLen : Nat)
  | handshake (version : Nat) (dcid scid : List Nat) (headerLen packetLen : Nat)
  | retry (tag version : Nat) (dcid scid token integrityTag : List Nat)
  deriving Repr, DecidableEq

abbrev Res (α : Type) := Except Err (α × List Nat)

/-! ### constants (re-extracted by tools/extractors/packet_header.py, bridged in `Bridge/PacketHeader`) -/

/-- `short_tag!()` = `0b0100u8..=0b0111u8` -/
def shortTagLo : Nat := 4
def shortTagHi : Nat := 7
/-- `version_negotiation_no_fixed_bit_tag!()` = `0b1000u8..=0b1011u8` -/
def vnTagLo : Nat := 8
def vnTagHi : Nat := 11
/-- `initial_tag!()`, `zero_rtt_tag!()`, `handshake_tag!()`, `retry_tag!()` -/
def initialTag : Nat := 12
def zeroRttTag : Nat := 13
def handshakeTag : Nat := 14
def retryTag : Nat := 15
/-- `DESTINATION_CONNECTION_ID_MAX_LEN`, `SOURCE_CONNECTION_ID_MAX_LEN` -/
def maxDcidLen : Nat := 20
def maxScidLen : Nat := 20
/-- `crypto::retry::INTEGRITY_TAG_LEN` -/
def integrityTagLen : Nat := 16
/-- `version_negotiation::VERSION` -/
def vnVersion : Nat := 0
/-- `size_of::<Tag>()`, `size_of::<Version>()` -/
def tagSize : Nat := 1
def versionSize : Nat := 4
/-- `SPIN_BIT_MASK`, `KEY_PHASE_MASK`, short `ENCODING_TAG`, VN `ENCODING_TAG` -/
def spinBitMask : Nat := 0x20
def keyPhaseMask : Nat := 0x04
def shortEncodingTag : Nat := 0x40
def vnEncodingTag : Nat := 0xc0

/-- which reader each long-header decoder calls for (DCID, SCID): `true` = the validated
    `decode_destination_connection_id` / `decode_source_connection_id`, `false` = the plain
    `decode_checked_range::<…Len>` -/
def cidSites : List (String × Bool × Bool) :=
  [("initial", false, false), ("zero_rtt", true, true), ("handshake", true, true), ("retry", true, true)]

/-! ### `DecoderBuffer` primitives on the peek buffer -/

/-- `peek.decode::<u32>()` (network endian) -/
def decU32 (b : List Nat) : Res Nat :=
  if b.length < 4 then .error .eof else .ok (beVal (b.take 4), b.drop 4)

/-- `peek.skip_into_range(count, buffer)` = `decode_slice(count)` -/
def skipIntoRange (count : Nat) (peek : List Nat) : Res (List Nat) :=
  if peek.length < count then .error .eof else .ok (peek.take count, peek.drop count)

/-- `HeaderDecoder::decode_checked_range::<u8>` (`skip_into_range_with_len_prefix::<u8>`) -/
def checkedRangeU8 (peek : List Nat) : Res (List Nat) :=
  match peek with
  | [] => .error .eof
  | len :: r => skipIntoRange len r

/-- `HeaderDecoder::decode_checked_range::<VarInt>` (the `usize` conversion cannot fail on a 64-bit target) -/
def checkedRangeVar (peek : List Nat) : Res (List Nat) :=
  match VarInt.decode peek with
  | none => .error .eof
  | some (len, r) => skipIntoRange len r

/-- `validate_destination_connection_id_len` -/
def validateDcidLen (len : Nat) : Except Err Unit :=
  if len ≤ maxDcidLen then .ok () else .error .dcidLen

/-- `validate_source_connection_id_len` -/
def validateScidLen (len : Nat) : Except Err Unit :=
  if len ≤ maxScidLen then .ok () else .error .scidLen

/-- `HeaderDecoder::decode_destination_connection_id`: range first (so a missing byte is `eof`), then the bound -/
def decodeDcid (peek : List Nat) : Res (List Nat) :=
  match checkedRangeU8 peek with
  | .error e => .error e
  | .ok (cid, r) =>
    match validateDcidLen cid.length with
    | .error e => .error e
    | .ok () => .ok (cid, r)

/-- `HeaderDecoder::decode_source_connection_id` -/
def decodeScid (peek : List Nat) : Res (List Nat) :=
  match checkedRangeU8 peek with
  | .error e => .error e
  | .ok (cid, r) =>
    match validateScidLen cid.length with
    | .error e => .error e
    | .ok () => .ok (cid, r)

/-- `HeaderDecoder::new_long`: `peek.skip(size_of::<Tag>() + size_of::<Version>()).expect(..)` -/
def newLong (b : List Nat) : Except Err (List Nat) :=
  if b.length < tagSize + versionSize then .error .panic else .ok (b.drop (tagSize + versionSize))

/-- `HeaderDecoder::new_short`: `peek.skip(size_of::<Tag>()).expect(..)` -/
def newShort (b : List Nat) : Except Err (List Nat) :=
  if b.length < tagSize then .error .panic else .ok (b.drop tagSize)

/-- `finish_long().split_off_packet(buffer)`:
      let (payload_len, peek) = self.peek.decode::<VarInt>()?;  header_len = decoded_len();
      self.peek = peek.skip(*payload_len as usize)?;            packet_len = decoded_len();
      let (payload, remaining) = buffer.decode_slice(packet_len)?;
      ProtectedPayload::new(header_len, payload)               // debug_assert!(payload.len() >= header_len)
    returns (headerLen, packetLen) and the remaining buffer -/
def finishLong (b peek : List Nat) : Res (Nat × Nat) :=
  match VarInt.decode peek with
  | none => .error .eof
  | some (payloadLen, r) =>
    let headerLen := b.length - r.length
    if r.length < payloadLen then .error .eof
    else
      let packetLen := b.length - (r.drop payloadLen).length
      if b.length < packetLen then .error .eof
      else if packetLen < headerLen then .error .panic
      else .ok ((headerLen, packetLen), b.drop packetLen)

/-- `finish_short().split_off_packet(buffer)`: `packet_len = initial_buffer_len` -/
def finishShort (b peek : List Nat) : Res (Nat × Nat) :=
  let headerLen := b.length - peek.length
  let packetLen := b.length
  if b.length < packetLen then .error .eof
  else if packetLen < headerLen then .error .panic
  else .ok ((headerLen, packetLen), b.drop packetLen)

/-! ### per-type decoders (`b` is the whole buffer starting at the first byte of the packet) -/

/-- `ProtectedInitial::decode` -/
def decodeInitial (version : Nat) (b : List Nat) : Res Packet :=
  match newLong b with
  | .error e => .error e
  | .ok peek =>
  match checkedRangeU8 peek with
  | .error e => .error e
  | .ok (dcid, peek) =>
  match checkedRangeU8 peek with
  | .error e => .error e
  | .ok (scid, peek) =>
  match checkedRangeVar peek with
  | .error e => .error e
  | .ok (token, peek) =>
  match finishLong b peek with
  | .error e => .error e
  | .ok ((h, p), rest) => .ok (.initial version dcid scid token h p, rest)

/-- the shared shape of `ProtectedZeroRtt::decode` and `ProtectedHandshake::decode` -/
def decodeLongPlain (mk : List Nat → List Nat → Nat → Nat → Packet) (b : List Nat) : Res Packet :=
  match newLong b with
  | .error e => .error e
  | .ok peek =>
  match decodeDcid peek with
  | .error e => .error e
  | .ok (dcid, peek) =>
  match decodeScid peek with
  | .error e => .error e
  | .ok (scid, peek) =>
  match finishLong b peek with
  | .error e => .error e
  | .ok ((h, p), rest) => .ok (mk dcid scid h p, rest)

def decodeZeroRtt (version : Nat) (b : List Nat) : Res Packet := decodeLongPlain (.zeroRtt version) b
def decodeHandshake (version : Nat) (b : List Nat) : Res Packet := decodeLongPlain (.handshake version) b

/-- `Retry::decode`:
      header_len = decoder.decoded_len(); (header, buffer) = buffer.decode_slice(header_len)?;
      buffer_len = buffer.len().saturating_sub(INTEGRITY_TAG_LEN); decoder_invariant!(buffer_len > 0, ..);
      (retry_token, buffer) = buffer.decode_slice(buffer_len)?;
      (retry_integrity_tag, buffer) = buffer.decode_slice(INTEGRITY_TAG_LEN)?;  try_into().expect(..) -/
def decodeRetry (tag version : Nat) (b : List Nat) : Res Packet :=
  match newLong b with
  | .error e => .error e
  | .ok peek =>
  match decodeDcid peek with
  | .error e => .error e
  | .ok (dcid, peek) =>
  match decodeScid peek with
  | .error e => .error e
  | .ok (scid, peek) =>
    let headerLen := b.length - peek.length
    if b.length < headerLen then .error .eof
    else
      let buffer := b.drop headerLen
      let bufferLen := buffer.length - integrityTagLen
      if bufferLen = 0 then .error .retryTokenEmpty
      else if buffer.length < bufferLen then .error .eof
      else
        let token := buffer.take bufferLen
        let buffer := buffer.drop bufferLen
        if buffer.length < integrityTagLen then .error .eof
        else
          let itag := buffer.take integrityTagLen
          if itag.length ≠ integrityTagLen then .error .panic
          else .ok (.retry tag version dcid scid token itag, buffer.drop integrityTagLen)

/-- `buffer.decode_slice_with_len_prefix::<u8>()` -/
def sliceU8 (b : List Nat) : Res (List Nat) := checkedRangeU8 b

/-- `ProtectedVersionNegotiation::decode` -/
def decodeVn (tag : Nat) (b : List Nat) : Res Packet :=
  if b.length < tagSize + versionSize then .error .panic
  else
  let buffer := b.drop (tagSize + versionSize)
  match sliceU8 buffer with
  | .error e => .error e
  | .ok (dcid, buffer) =>
  match validateDcidLen dcid.length with
  | .error e => .error e
  | .ok () =>
  match sliceU8 buffer with
  | .error e => .error e
  | .ok (scid, buffer) =>
  match validateScidLen scid.length with
  | .error e => .error e
  | .ok () =>
    -- `buffer.decode::<DecoderBufferMut>()` takes everything that is left
    let supported := buffer
    if supported.length < 4 then .error .vnNoVersion
    else if supported.length % 4 ≠ 0 then .error .vnPayloadLen
    else .ok (.versionNegotiation tag dcid scid supported, [])

/-- `impl Validator for usize`: `if buffer.len() >= *self { Some(*self) } else { None }` -/
def validateUsize (n : Nat) (buffer : List Nat) : Option Nat :=
  if buffer.length ≥ n then some n else none

/-- `SpinBit::from_tag` -/
def spinOf (tag : Nat) : Nat := if tag / 32 % 2 = 1 then 1 else 0

/-- `ProtectedShort::decode` with a `usize` connection-ID validator -/
def decodeShort (dcidLen tag : Nat) (b : List Nat) : Res Packet :=
  match newShort b with
  | .error e => .error e
  | .ok peek =>
  match validateUsize dcidLen peek with
  | none => .error .invalidCid
  | some len =>
  match skipIntoRange len peek with
  | .error e => .error e
  | .ok (dcid, peek) =>
  match validateDcidLen dcid.length with
  | .error e => .error e
  | .ok () =>
  match finishShort b peek with
  | .error e => .error e
  | .ok ((h, p), rest) => .ok (.short (spinOf tag) dcid h p, rest)

/-- the `long_packet!` macro: peek the version; 0 ⇒ Version Negotiation, otherwise the typed decoder -/
def longPacket (typed : Nat → List Nat → Res Packet) (tag : Nat) (peek b : List Nat) : Res Packet :=
  match decU32 peek with
  | .error e => .error e
  | .ok (version, _) =>
    if version = vnVersion then decodeVn tag b else typed version b

/-- `PacketDecoder::decode_packet` (= `ProtectedPacket::decode`) with a `usize` validator -/
def decodePacket (dcidLen : Nat) (b : List Nat) : Res Packet :=
  match b with
  | [] => .error .eof
  | tag :: peek =>
    let hi := tag / 16
    if shortTagLo ≤ hi ∧ hi ≤ shortTagHi then decodeShort dcidLen tag b
    else if vnTagLo ≤ hi ∧ hi ≤ vnTagHi then
      match decU32 peek with
      | .error e => .error e
      | .ok (version, _) =>
        if vnVersion = version then decodeVn tag b else .error .invalidVn
    else if hi = initialTag then longPacket decodeInitial tag peek b
    else if hi = zeroRttTag then longPacket decodeZeroRtt tag peek b
    else if hi = handshakeTag then longPacket decodeHandshake tag peek b
    else if hi = retryTag then longPacket (decodeRetry tag) tag peek b
    else .error .invalidPacket

/-! ### the coalesced-packet loop (`handle_remaining_packets`: `while !payload.is_empty()`) -/

/-- result of walking a datagram: the packets decoded (with the number of bytes each consumed) and
    how the loop ended (`none` = the buffer became empty, `some e` = a decode error discarded the rest) -/
structure Walk where
  packets : List (Packet × Nat)
  stop : Option Err
  deriving Repr, DecidableEq

/-- the loop with explicit fuel; `none` = fuel exhausted (shown impossible for `fuel > b.length`) -/
def decodeAllFuel (dcidLen : Nat) : Nat → List Nat → Option Walk
  | 0, _ => none
  | fuel + 1, b =>
    if b.isEmpty then some ⟨[], none⟩
    else
      match decodePacket dcidLen b with
      | .error e => some ⟨[], some e⟩
      | .ok (p, rest) =>
        match decodeAllFuel dcidLen fuel rest with
        | none => none
        | some w => some ⟨(p, b.length - rest.length) :: w.packets, w.stop⟩

def decodeAll (dcidLen : Nat) (b : List Nat) : Option Walk := decodeAllFuel dcidLen (b.length + 1) b

/-- `VersionNegotiationIterator`: successive `u32`s of the payload -/
def vnVersions : List Nat → List Nat
  | a :: b :: c :: d :: r => beVal [a, b, c, d] :: vnVersions r
  | _ => []

/-! ### encoder side -/

/-- `value.encode_with_len_prefix::<u8, _>`: `u8::try_from(len).expect("invalid conversion")` -/
def lenPrefixU8 (d : List Nat) : Option (List Nat) :=
  if d.length ≤ 255 then some (d.length :: d) else none

def be32 (v : Nat) : List Nat := beBytes 4 v

/-- the header of the four long packet types that carry a packet number — everything before the
    Length field (`Initial::encode_header`, `ZeroRtt::encode_header`, `Handshake::encode_header`);
    `pnLen` is the `PacketNumberLen` discriminant 0..3; `token = none` for 0-RTT / Handshake -/
def encodeLongHeader (typeTag version : Nat) (dcid scid : List Nat) (token : Option (List Nat)) (pnLen : Nat) :
    Option (List Nat) :=
  match lenPrefixU8 dcid, lenPrefixU8 scid with
  | some d, some s =>
    some ((typeTag * 16 + PacketNumber.intoPacketTagMask pnLen) :: be32 version ++ d ++ s ++
      (match token with
       | some t => VarInt.encode t.length ++ t
       | none => []))
  | _, _ => none

/-- `Short::encode_header` -/
def encodeShortHeader (spin phase : Nat) (dcid : List Nat) (pnLen : Nat) : List Nat :=
  (shortEncodingTag + (if spin = 1 then spinBitMask else 0) + (if phase = 1 then keyPhaseMask else 0)
    + PacketNumber.intoPacketTagMask pnLen) :: dcid

/-- the kinds `encodeHeader` / `encodePacket` know -/
inductive Hdr where
  | initial (version : Nat) (dcid scid token : List Nat)
  | zeroRtt (version : Nat) (dcid scid : List Nat)
  | handshake (version : Nat) (dcid scid : List Nat)
  | short (spin phase : Nat) (dcid : List Nat)
  deriving Repr, DecidableEq

def Hdr.isLong : Hdr → Bool
  | .short .. => false
  | _ => true

/-- `PacketEncoder::encode_header(packet_number_len, encoder)`; `none` = the `expect` of a CID longer than 255 bytes -/
def encodeHeader (h : Hdr) (pnLen : Nat) : Option (List Nat) :=
  match h with
  | .initial v d s t => encodeLongHeader initialTag v d s (some t) pnLen
  | .zeroRtt v d s => encodeLongHeader zeroRttTag v d s none pnLen
  | .handshake v d s => encodeLongHeader handshakeTag v d s none pnLen
  | .short spin phase d => some (encodeShortHeader spin phase d pnLen)

/-- `max_value.encode_updated(actual_value, buffer)`: the placeholder's table entry formats the
    replacement, so the Length field keeps the placeholder's width -/
def encodeUpdated (placeholder actual : Nat) : List Nat :=
  let e := VarInt.lookup placeholder
  (beBytes 8 ((actual * 2 ^ e.shift + e.tag * 2 ^ 62) % 2 ^ 64)).take e.len

/-- `VarInt::try_from(encoder.remaining_capacity()).unwrap_or(VarInt::MAX)` -/
def placeholderValue (remainingCapacity : Nat) : Nat :=
  if remainingCapacity ≤ VarInt.maxValue then remainingCapacity else VarInt.maxValue

inductive EncErr where
  | truncation       -- PacketNumberTruncationError
  | space            -- InsufficientSpace
  | empty            -- EmptyPayload
  | panic            -- an `expect` / assertion would fire
  deriving Repr, DecidableEq

/-- `stateless_reset::min_indistinguishable_packet_len(tag_len) + 1` -/
def minPacketLen (tagLen : Nat) : Nat := 1 + 4 + 20 + 1 + tagLen + 1

/-- `PacketEncoder::encode_packet` with a key whose `tag_len()` is `tagLen`, whose `encrypt` is the
    identity and whose header-protection mask is zero with `sealing_sample_len() = sampleLen`
    (`crypto::testing::{Key, HeaderKey}`: `tagLen = 0`, `sampleLen = 0`), `min_packet_len = None`,
    an `&[u8]` payload, into an empty buffer of `cap` bytes.  The bytes are
        header ‖ Length (placeholder width, actual value) ‖ packet number ‖ payload ‖ tag. -/
def encodePacket (h : Hdr) (cap tagLen sampleLen pn la : Nat) (payload : List Nat) : Except EncErr (List Nat) :=
  match PacketNumber.truncate pn la with
  | none => .error .truncation
  | some t =>
    match encodeHeader h t.len with
    | none => .error .panic
    | some hdr =>
      let pnBytes := PacketNumber.bytesize t.len
      -- the Length placeholder: `LongPayloadLenCursor::encode_mut` on the estimator
      let maxValue := placeholderValue (cap - hdr.length)
      let lenField := if h.isLong then VarInt.encodingSize maxValue else 0
      let headerLen := hdr.length + lenField
      let est := headerLen + pnBytes + tagLen
      let minimumPayloadLen := max (minPacketLen tagLen - est) (4 - pnBytes + sampleLen)
      -- `encoding_size_hint`: `if len < minimum_len { 0 } else { len }`; 0 ⇒ EmptyPayload
      let estimated := if payload.length < minimumPayloadLen then 0 else payload.length
      if estimated = 0 then .error .empty
      else if est + estimated > cap then .error .space
      else
        let actual := pnBytes + payload.length + tagLen
        .ok (hdr ++ (if h.isLong then encodeUpdated maxValue actual else [])
              ++ PacketNumber.encodeTruncated t ++ payload ++ List.replicate tagLen 0)

/-- `EncoderValue for VersionNegotiation`: `(self.tag | ENCODING_TAG)`, `VERSION`, the two
    length-prefixed connection IDs, the supported versions -/
def encodeVn (tag : Nat) (dcid scid supported : List Nat) : Option (List Nat) :=
  match lenPrefixU8 dcid, lenPrefixU8 scid with
  | some d, some s => some ((tag ||| vnEncodingTag) :: be32 vnVersion ++ d ++ s ++ supported)
  | _, _ => none

/-- `EncoderValue for Retry` -/
def encodeRetry (tag version : Nat) (dcid scid token itag : List Nat) : Option (List Nat) :=
  match lenPrefixU8 dcid, lenPrefixU8 scid with
  | some d, some s => some (tag :: be32 version ++ d ++ s ++ token ++ itag)
  | _, _ => none

end Quic.Codec.PacketHeader
