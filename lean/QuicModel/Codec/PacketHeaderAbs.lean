import QuicModel.Codec.PacketHeader
import QuicModel.Rfc.PacketHeader
/-
  The abstraction from what the code's decoder returns (`Codec.PacketHeader.Packet`) to the RFC's
  view of a packet (`Rfc.PacketHeader.Packet`), used to state `impl_eq_rfc_header`:
    * `packetLen` (end of the packet) becomes the value of the Length field (`packetLen - headerLen`);
    * the first byte is reduced to the bits the RFC gives a meaning before header protection is
      removed (VN: Unused (7); Retry: Unused (4); 1-RTT: the spin bit);
    * the VN payload becomes the list of 32-bit versions (`VersionNegotiationIterator`);
    * a typed long packet whose version is not 1 is, for the RFC, only its RFC 8999 fields, and it
      stands for the rest of the datagram.
-/
namespace Quic.Codec.PacketHeader
open Quic

def toRfc : Packet → Rfc.PacketHeader.Packet
  | .short spin dcid h p => .oneRtt spin dcid h (p - h)
  | .versionNegotiation tag d s sup => .versionNegotiation (tag % 128) d s (vnVersions sup)
  | .initial v d s t h p => if v = 1 then .initial v d s t h (p - h) else .unsupportedVersion v d s
  | .zeroRtt v d s h p => if v = 1 then .zeroRtt v d s h (p - h) else .unsupportedVersion v d s
  | .handshake v d s h p => if v = 1 then .handshake v d s h (p - h) else .unsupportedVersion v d s
  | .retry tag v d s t i => if v = 1 then .retry (tag % 16) v d s t i else .unsupportedVersion v d s

/-- the version of a typed long packet -/
def Packet.version? : Packet → Option Nat
  | .short .. => none
  | .versionNegotiation .. => none
  | .initial v .. => some v
  | .zeroRtt v .. => some v
  | .handshake v .. => some v
  | .retry _ v .. => some v

def Packet.dcid : Packet → List Nat
  | .short _ d .. => d
  | .versionNegotiation _ d .. => d
  | .initial _ d .. => d
  | .zeroRtt _ d .. => d
  | .handshake _ d .. => d
  | .retry _ _ d .. => d

def Packet.scid? : Packet → Option (List Nat)
  | .short .. => none
  | .versionNegotiation _ _ s _ => some s
  | .initial _ _ s .. => some s
  | .zeroRtt _ _ s .. => some s
  | .handshake _ _ s .. => some s
  | .retry _ _ _ s .. => some s

def abs : Res Packet → Option (Rfc.PacketHeader.Packet × List Nat)
  | .error _ => none
  | .ok (p, rest) =>
    match p.version? with
    | some v => if v = 1 then some (toRfc p, rest) else some (toRfc p, [])
    | none => some (toRfc p, rest)

/-- the check the endpoint applies to every decoded packet before it is routed
    (`connection::LocalId::try_from_bytes(packet.destination_connection_id())` in
    s2n-quic-transport/src/endpoint/mod.rs, and `PeerId::try_from_bytes` / `try_into()` on the
    source connection ID of an Initial that creates a connection: endpoint/mod.rs, endpoint/initial.rs):
    connection IDs longer than `connection::id::MAX_LEN` = 20 bytes are dropped. -/
def endpointCidCheck (r : Res Packet) : Res Packet :=
  match r with
  | .error e => .error e
  | .ok (p, rest) =>
    if p.dcid.length > maxDcidLen then .error .dcidLen
    else match p.scid? with
      | some s => if s.length > maxScidLen then .error .scidLen else .ok (p, rest)
      | none => .ok (p, rest)

/-! ### predicates used in the statements of `QuicProofs.Props.C05PacketHeader` -/

/-- the Version field of a long-header packet, when the first five bytes are present -/
def versionField (b : List Nat) : Option Nat :=
  match b with
  | first :: v0 :: v1 :: v2 :: v3 :: _ =>
    if first / 128 % 2 = 1 then some (((v0 * 256 + v1) * 256 + v2) * 256 + v3) else none
  | _ => none

/-- the input is a short-header packet, a Version Negotiation packet or a version-1 packet -/
def KnownVersion (b : List Nat) : Prop := ∀ v, versionField b = some v → v = 0 ∨ v = 1

/-- the two places where the code's decoder and the RFC disagree: a connection ID longer than 20
    bytes in a Version Negotiation packet (the code rejects it, Figure 14 allows 0..2040 bits) or in a
    version-1 packet with the Initial type bits (the code accepts it, §17.2 says MUST drop) -/
def CidDeviation (b : List Nat) : Prop :=
  ∃ first version dcid scid body,
    Rfc.PacketHeader.invariants b = some (first, version, dcid, scid, body) ∧
    (20 < dcid.length ∨ 20 < scid.length) ∧ (version = 0 ∨ (version = 1 ∧ first / 16 % 4 = 0))

end Quic.Codec.PacketHeader
