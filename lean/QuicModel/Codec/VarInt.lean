import QuicModel.Prelude
/-
  RFC 9000 §16 variable-length integers.

  `Codec.VarInt` transcribes the structure of quic/s2n-quic-core/src/varint/{table.rs,mod.rs}:
  a table-driven encoder (`Formatted::new`: fold over the `call_table!` rows) and a decoder that
  dispatches on the two top bits of the first byte and masks the fixed-width big-endian read.
  The table rows and the decode masks are parameters: the pinned values are `pinnedTable` /
  `pinnedMaskBits`; `QuicModel.Generated.VarInt` re-extracts them from /repo on every run and
  `QuicProofs.Bridge.VarInt` proves the two equal.

  `Rfc.VarInt` is written from RFC 9000 Table 4 and §16 text only.
-/
namespace Quic.Codec.VarInt

def maxValue : Nat := 4611686018427387903   -- 2^62 - 1

/-- one `call_table!` row: (two_bit, length, usable_bits, max_value) -/
structure Row where
  twoBit : Nat
  len : Nat
  usable : Nat
  max : Nat
  deriving Repr, DecidableEq

def pinnedTable : List Row :=
  [⟨2, 4, 30, 1073741823⟩, ⟨1, 2, 14, 16383⟩, ⟨0, 1, 6, 63⟩]

/-- the bits kept by the decoder for tags 0,1,2,3 (`2u8.pow(6) - 1`, …) -/
def pinnedMaskBits : List Nat := [6, 14, 30, 62]

structure Entry where
  tag : Nat      -- two_bit (before shifting into the top bits)
  len : Nat
  shift : Nat
  deriving Repr, DecidableEq

/-- `Formatted::new`'s macro body: start from the 8-byte entry and walk the rows in order;
    each matching row decrements the tag and overwrites shift/len. -/
def lookupWith (table : List Row) (x : Nat) : Entry :=
  table.foldl (fun e r => if x ≤ r.max then ⟨e.tag - 1, r.len, 62 - r.usable⟩ else e) ⟨3, 8, 0⟩

def lookup (x : Nat) : Entry := lookupWith pinnedTable x

def encodingSize (x : Nat) : Nat := (lookup x).len

/-- `(x << shift).to_be() | two_bit_be`, first `len` bytes. Defined for `x ≤ maxValue`
    (the `VarInt` type invariant). -/
def encodeWith (table : List Row) (x : Nat) : List Nat :=
  let e := lookupWith table x
  (beBytes 8 ((x * 2 ^ e.shift + e.tag * 2 ^ 62) % 2 ^ 64)).take e.len

def encode (x : Nat) : List Nat := encodeWith pinnedTable x

def widthOf (tag : Nat) : Nat := if tag = 0 then 1 else if tag = 1 then 2 else if tag = 2 then 4 else 8

/-- `VarInt::decode`: `peek_byte(0)`, then a fixed-width big-endian read masked to the usable bits. -/
def decodeWith (maskBits : List Nat) (b : List Nat) : Option (Nat × List Nat) :=
  match b with
  | [] => none
  | h :: _ =>
    let tag := h / 64 % 4
    let width := widthOf tag
    if b.length < width then none
    else some (beVal (b.take width) % 2 ^ (maskBits.getD tag 0), b.drop width)

def decode (b : List Nat) : Option (Nat × List Nat) := decodeWith pinnedMaskBits b

end Quic.Codec.VarInt

namespace Quic.Rfc.VarInt

/-- RFC 9000 Table 4: smallest length whose range contains the value. -/
def minimalLen (v : Nat) : Nat :=
  if v ≤ 63 then 1 else if v ≤ 16383 then 2 else if v ≤ 1073741823 then 4 else 8

/-- RFC 9000 §16: 2MSB = log2 of length; value on the remaining bits in network byte order. -/
def parse (b : List Nat) : Option (Nat × List Nat) :=
  match b with
  | [] => none
  | h :: t =>
    match h / 64 % 4 with
    | 0 => some (h % 64, t)
    | 1 => match t with
      | b1 :: r => some (h % 64 * 256 + b1, r)
      | _ => none
    | 2 => match t with
      | b1 :: b2 :: b3 :: r => some (((h % 64 * 256 + b1) * 256 + b2) * 256 + b3, r)
      | _ => none
    | _ => match t with
      | b1 :: b2 :: b3 :: b4 :: b5 :: b6 :: b7 :: r =>
        some (((((((h % 64 * 256 + b1) * 256 + b2) * 256 + b3) * 256 + b4) * 256 + b5) * 256 + b6) * 256 + b7, r)
      | _ => none

/-- RFC emission in shortest form. -/
def emit (v : Nat) : List Nat :=
  if v ≤ 63 then [v]
  else if v ≤ 16383 then [64 + v / 256, v % 256]
  else if v ≤ 1073741823 then [128 + v / 2 ^ 24, v / 2 ^ 16 % 256, v / 2 ^ 8 % 256, v % 256]
  else [192 + v / 2 ^ 56, v / 2 ^ 48 % 256, v / 2 ^ 40 % 256, v / 2 ^ 32 % 256,
        v / 2 ^ 24 % 256, v / 2 ^ 16 % 256, v / 2 ^ 8 % 256, v % 256]

end Quic.Rfc.VarInt
