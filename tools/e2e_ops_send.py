"""Converter e2e.Trace -> op lines of the Lean trace acceptor `send-trace` (lean/QuicModel/Stream/SendTrace.lean).

`ops_for(trace, ep)` is the wire-level history of ONE endpoint, in the order things happened:
  tp ...                      the PEER's declared transport parameters (parsed from its TLS messages)
  rx max_data|max_stream_data|max_streams|stop_sending     frames in packets the endpoint processed (rxp)
  app open|write|finish|reset                               application calls (app records)
  tx stream|reset|blocked|close|other                       frames in packets the endpoint sent (txp), copies of
                                                            the close packet (wire records)
  rxpkt                                                     an incoming packet was seen (events)
`run_acceptor(histories)` feeds several histories (separated by `reset`) to the Lean driver.
"""
import e2e
from vlib import DRIVER, run_lines

M = (1 << 64) - 1
P61 = (1 << 61) - 1


def mix(z):
    z = (z + 0x9e3779b97f4a7c15) & M
    z = ((z ^ (z >> 30)) * 0xbf58476d1ce4e5b9) & M
    z = ((z ^ (z >> 27)) * 0x94d049bb133111eb) & M
    return z ^ (z >> 31)


def stream_key(seed, sid, from_server):
    """harness/vh-e2e/src/cfg.rs `stream_key`"""
    return mix(((seed * 0x100000001b3) & M) ^ ((sid * 0x9e3779b97f4a7c15) & M) ^ (0x5555 if from_server else 0))


def digest_bytes(off, data):
    """position-sensitive checksum of the bytes actually seen on the wire at stream offsets off.."""
    acc = 0
    for j, b in enumerate(data):
        acc = (acc + (b + 1) * (off + j + 1)) % P61
    return acc


ENDPOINT_WIRE_ACTIONS = ("deliver", "drop", "blackhole", "mtu-drop", "corrupt-flip", "corrupt-truncate", "corrupt-splice")
RX_EVENTS = ("transport:packet_received", "transport:packet_dropped", "transport:datagram_dropped")


def finish_positions(tr, ep):
    """Where the application called finish (the harness calls close() = finish + flush immediately after the
    last successful write of a stream, or right after open when it writes nothing). The `finish` / `err <sid>
    close` record only appears when the call RESOLVES (all data acknowledged) and is missing when the run ends
    first, so the call is located as: the last open/write record of the stream before the first evidence that
    finish was called (a FIN on the wire, or the finish / err-close record). A FIN sent before the application
    was done writing therefore shows up as `write-after-finish`.
    Returns {record idx: [sid]}."""
    last = {}       # sid -> idx of the last open/write record of this endpoint
    placed = set()
    out = {}

    def place(sid):
        if sid in placed or sid not in last:
            return
        placed.add(sid)
        out.setdefault(last[sid], []).append(sid)

    for r in tr.recs:
        if r.kind == "app" and r.ep == ep:
            if r.what == "open" and r.args[1] in ("bidi", "uni", "peer-bidi"):
                last[int(r.args[0])] = r.idx
            elif r.what in ("write", "wbegin"):
                if int(r.args[0]) not in placed:
                    last[int(r.args[0])] = r.idx
            elif r.what == "finish":
                place(int(r.args[0]))
            elif r.what == "err" and r.args[0] != "-" and r.args[1] == "close":
                place(int(r.args[0]))
        elif r.kind == "txp" and r.ep == ep and r.space == "app":
            for f in r.frames:
                if f["type"] == "STREAM" and f["fin"]:
                    place(f["id"])
    return out


def ops_for(tr, ep):
    seed = int(tr.params.get("seed", 1))
    decl = e2e.declared_tps(tr)
    tp = decl.get(e2e.peer(ep))
    ops = []
    if tp is None:
        return ops      # handshake never got far enough: nothing can have been sent on streams
    ops.append("tp %d %d %d %d %d %d %s" % (
        tp.get("initial_max_data", 0), tp.get("initial_max_stream_data_bidi_local", 0),
        tp.get("initial_max_stream_data_bidi_remote", 0), tp.get("initial_max_stream_data_uni", 0),
        tp.get("initial_max_streams_bidi", 0), tp.get("initial_max_streams_uni", 0), ep))
    fin_at = finish_positions(tr, ep)
    offered = {}        # sid -> bytes offered to the write API so far
    # address of this endpoint on the simulated wire: the first datagram is the client's
    client_addr = next((w.src for w in tr.recs if w.kind == "wire"), None)
    close_pn = None
    close_t = None
    close_idx = None
    close_dgram = None      # (len, head) of the datagram that carried the close packet
    for r in tr.recs:
        if r.kind == "rxp" and r.ep == ep and r.space == "app":
            for f in r.frames:
                t = f["type"]
                if t == "MAX_DATA":
                    ops.append(f"rx max_data {f['max']}")
                elif t == "MAX_STREAM_DATA":
                    ops.append(f"rx max_stream_data {f['id']} {f['max']}")
                elif t == "MAX_STREAMS":
                    ops.append(f"rx max_streams {1 if f['bidi'] else 0} {f['max']}")
                elif t == "STOP_SENDING":
                    ops.append(f"rx stop_sending {f['id']}")
        elif r.kind == "app" and r.ep == ep:
            if r.what == "open" and r.args[1] in ("bidi", "uni"):
                ops.append(f"app open {r.args[0]}")
            elif r.what == "wbegin":
                # bytes OFFERED to the write API (logged before the call; the call may resolve only after part of
                # the data is already on the wire): the application's byte string grows to off + n
                sid = int(r.args[0])
                top = int(r.args[1]) + int(r.args[2])
                delta = top - offered.get(sid, 0)
                if delta > 0:
                    offered[sid] = top
                    ops.append(f"app write {sid} {delta} {stream_key(seed, sid, ep == 's')}")
            elif r.what == "reset":
                ops.append(f"app reset {r.args[0]}")
            for sid in fin_at.get(r.idx, ()):
                ops.append(f"app finish {sid}")
        elif r.kind == "txp" and r.ep == ep:
            types = [f["type"] for f in r.frames]
            n0 = len(ops)
            if r.space == "app":
                for f in r.frames:
                    t = f["type"]
                    if t == "STREAM":
                        d = f["data"]
                        ops.append("tx stream %d %d %d %d %d %d" % (r.pn, f["id"], f["offset"], len(d), 1 if f["fin"] else 0,
                                                                   digest_bytes(f["offset"], d)))
                    elif t == "RESET_STREAM":
                        ops.append(f"tx reset {r.pn} {f['id']} {f['final_size']}")
                    elif t == "STREAM_DATA_BLOCKED":
                        ops.append(f"tx blocked {r.pn} {f['id']} {f['limit']}")
            if "CONNECTION_CLOSE" in types:
                if close_pn is None:
                    close_pn, close_t, close_idx = r.pn, r.t, r.idx
                    ops.append(f"tx close {r.pn}")
                elif r.t == close_t and any(t in ("PARSE_ERROR", "UNKNOWN") for t in types) is False and \
                        all(t in ("CONNECTION_CLOSE", "PADDING") for t in types):
                    pass        # the same close datagram carries one CONNECTION_CLOSE packet per packet space
                else:
                    ops.append(f"tx other {r.pn}")
            elif len(ops) == n0:
                ops.append(f"tx other {r.pn}")
        elif r.kind == "wire" and close_pn is not None and r.action in ENDPOINT_WIRE_ACTIONS:
            mine = (r.src == client_addr) == (ep == "c")
            if not mine:
                continue
            if r.t == close_t:
                # the datagrams flushed in the cycle of the close: the last one carries the close packet
                if not r.action.startswith("corrupt"):
                    close_dgram = (r.len, r.head)
                else:
                    close_dgram = None
            elif close_dgram is not None and (r.len, r.head) == close_dgram:
                ops.append(f"tx close {close_pn}")      # a byte-identical copy of the close datagram
        elif r.kind == "ev" and r.ep == ep and r.name in RX_EVENTS:
            if close_pn is not None:
                ops.append("rxpkt")
    return ops


def run_acceptor(histories):
    """histories: list of op-line lists. Returns list of (ops, outs) with one output line per op."""
    lines = []
    spans = []
    for h in histories:
        if lines:
            lines.append("reset")
        spans.append((len(lines), len(h)))
        lines.extend(h)
    if not lines:
        return [(h, []) for h in histories]
    rc, out, err = run_lines([DRIVER, "send-trace"], lines)
    if rc != 0 or len(out) != len(lines):
        raise RuntimeError(f"lean driver send-trace failed rc={rc} lines={len(out)}/{len(lines)}: {err[-1000:]}")
    return [(h, out[a:a + n]) for h, (a, n) in zip(histories, spans)]


KNOWN_REASON_SIGNATURE = {
    # the real code re-sends the empty stream-open STREAM frame of a bidirectional stream even after RESET_STREAM
    "stream-after-reset:empty-open-notify": "e2e:c12:stream-after-reset:empty-open-notify",
}

# which acceptor reasons speak about which property (a rejected real trace is a broken correspondence of that part)
C03_REASONS = {"stream-limit", "conn-limit", "max-streams", "stream-not-opened", "wrong-direction", "blocked-limit-never-granted",
               "reset-beyond-written", "no-tp", "tp-twice", "open-not-local"}


def check_traces(ctx, traces, prop, label):
    """feed every endpoint history of every trace to the acceptor; a rejected real step = broken correspondence
    (except the known finding, which is reported with its stable signature)."""
    hist = []
    meta = []
    for tr in traces:
        if tr.attack:
            continue
        for ep in ("c", "s"):
            ops = ops_for(tr, ep)
            if ops:
                hist.append(ops)
                meta.append((tr, ep))
    res = run_acceptor(hist)
    rejected = []
    n_ops = 0
    kinds = {}
    for (ops, outs), (tr, ep) in zip(res, meta):
        n_ops += len(ops)
        for i, (op, o) in enumerate(zip(ops, outs)):
            k = " ".join(op.split(" ")[:2]) if not op.startswith(("tp", "rxpkt")) else op.split(" ")[0]
            kinds[k] = kinds.get(k, 0) + 1
            if o == "ok":
                continue
            reason = o[4:] if o.startswith("err ") else o
            sig = KNOWN_REASON_SIGNATURE.get(reason)
            if sig is not None and reason == "stream-after-reset:empty-open-notify":
                # the finding covers retransmissions of the frame only (see e2e.open_notify_is_retransmission)
                t = op.split()
                rec = next((r for r in tr.recs if r.kind == "txp" and r.ep == ep and r.space == "app" and r.pn == int(t[2])), None)
                if rec is None or not e2e.open_notify_is_retransmission(tr, ep, int(t[3]), rec.idx):
                    sig = None
            if sig is not None:
                if prop == "C12":
                    ctx.violation(sig, f"endpoint {ep}: `{op}` — the empty stream-open STREAM frame is re-sent after RESET_STREAM",
                                  {"kind": "e2e-acceptor", "harness": "vh-e2e", "scenario": tr.params, "scenario_args": e2e.args_of(tr.params),
                                   "endpoint": ep, "ops": ops[:i + 1][-40:], "acceptor": o})
                continue
            rejected.append((tr, ep, i, op, o, ops))
    for k, v in sorted(kinds.items()):
        ctx.count(f"send-trace:{k}", v)
    ctx.evaluations += n_ops
    detail = ""
    if rejected:
        tr, ep, i, op, o, ops = rejected[0]
        detail = (f"{len(rejected)} rejected steps; first: endpoint {ep} op #{i} `{op}` -> `{o}`; scenario "
                  f"{' '.join(e2e.args_of(tr.params))}; preceding ops: {ops[max(0, i - 12):i]}")
    ctx.oblige("correspond", f"T:{label}: every step of {len(hist)} real endpoint histories ({n_ops} ops) is admissible "
                             f"for the Lean send-side acceptor (send-trace)", not rejected, detail)
    if rejected:
        tr, ep, i, op, o, ops = rejected[0]
        ctx.obligations[-1]["replay"] = {"component": "send-trace", "scenario_args": e2e.args_of(tr.params), "endpoint": ep,
                                         "ops": ops[:i + 1], "acceptor": o}
    return rejected
