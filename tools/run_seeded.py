#!/usr/bin/env python3
"""Run the registered checks against every seeded change under /verif/seeded/<id>/.

usage: tools/run_seeded.py [--repo DIR] [--only id,id] [--tier quick]
  --repo DIR : a scratch worktree of /repo to apply the patches to (VERIF_REPO=DIR is exported to
               ./check). Default: /repo itself (patch applied with `git apply`, reverted with
               `git checkout -- .` straight afterwards) — only do that when nothing else uses /repo.
Writes seeded/RESULTS.md and seeded/results.json.
"""
import argparse
import json
import os
import re
import subprocess
import sys
import time

HERE = os.path.dirname(os.path.dirname(os.path.abspath(__file__)))


def sh(cmd, cwd=None, env=None, timeout=3600):
    e = dict(os.environ)
    if env:
        e.update(env)
    p = subprocess.run(cmd, cwd=cwd, env=e, shell=True, stdout=subprocess.PIPE, stderr=subprocess.STDOUT, text=True, timeout=timeout)
    return p.returncode, p.stdout


def main():
    ap = argparse.ArgumentParser()
    ap.add_argument("--repo", default="/repo")
    ap.add_argument("--only", default="")
    ap.add_argument("--tier", default="quick")
    ap.add_argument("--report-only", action="store_true", help="only regenerate seeded/RESULTS.md from seeded/results.json")
    a = ap.parse_args()
    sdir = os.path.join(HERE, "seeded")
    ids = sorted(d for d in os.listdir(sdir) if os.path.isfile(os.path.join(sdir, d, "patch.diff")))
    if a.only:
        ids = [i for i in ids if i in a.only.split(",")]
    rpath = os.path.join(sdir, "results.json")
    results = json.load(open(rpath)) if os.path.exists(rpath) else {}
    env = {"VERIF_REPO": a.repo} if a.repo != "/repo" else {}
    if a.report_only:
        ids = []
    for sid in ids:
        meta = json.load(open(os.path.join(sdir, sid, "meta.json")))
        props = meta.get("check_properties") or [meta["property"]]
        rc, out = sh("git checkout -q -- . && git status --short | grep -v '^??' | head -3", cwd=a.repo)
        rc, out = sh(f"git apply {os.path.join(sdir, sid, 'patch.diff')}", cwd=a.repo)
        if rc != 0:
            results[sid] = {"error": "patch does not apply: " + out[-300:]}
            continue
        res = {"property": meta["property"], "summary": meta.get("summary", ""), "checks": {}}
        try:
            for p in props:
                t0 = time.time()
                rc, out = sh(f"./check {p} --tier {a.tier}", cwd=HERE, env=env, timeout=7200)
                viol = re.findall(r"VIOLATION property=\S+ replay=(\S+)( no-failing-input-found)?", out)
                sigs = []
                for path, nf in viol:
                    try:
                        sigs.append(json.load(open(path))["signature"][:120] + (" [no-failing-input-found]" if nf else ""))
                    except Exception:
                        sigs.append("?")
                res["checks"][p] = {"exit": rc, "violations": sigs, "wall_s": round(time.time() - t0, 1),
                                    "caught": rc == 1 and bool(viol), "with_failing_input": any(not nf for _, nf in viol)}
        finally:
            sh("git checkout -q -- .", cwd=a.repo)
            # a check run against a seeded change rewrites evidence/<id>.json and the regenerated Lean files from the
            # MUTATED tree; neither may survive (evidence is only ever committed from runs against /repo itself)
            sh("git checkout -q -- evidence lean/QuicModel/Generated", cwd=HERE)
        res["caught"] = any(c["caught"] for c in res["checks"].values())
        results[sid] = res
        print(sid, "CAUGHT" if res["caught"] else "MISSED", {p: c["violations"][:2] for p, c in res["checks"].items()}, flush=True)
        json.dump(results, open(rpath, "w"), indent=1)
    n = len(results)
    n_caught = sum(1 for r in results.values() if r.get("caught"))
    n_input = sum(1 for r in results.values() if r.get("caught") and any(c.get("with_failing_input") for c in r["checks"].values()))
    lines = ["# Seeded changes vs. checks", "",
             f"{n} seeded changes (each compiles, passes the existing tests of the touched crates and comes with a demonstration that fails with it "
             f"and passes without it; see `seeded/<id>/`). Each was applied to a scratch worktree and `./check <property> --tier quick` was run "
             f"against it: **{n_caught} caught** ({n_input} with a concrete failing input / history as replay, {n_caught - n_input} through a broken proof obligation "
             f"only: `no-failing-input-found`), **{n - n_caught} missed**.", "",
             "| id | property | change | caught by | signatures |", "|---|---|---|---|---|"]
    for sid in sorted(results):
        r = results[sid]
        if "error" in r:
            lines.append(f"| {sid} | - | {r['error'][:80]} | - | - |")
            continue
        by = [p + (" (failing input)" if c["with_failing_input"] else " (obligation only)") for p, c in r["checks"].items() if c["caught"]]
        sig = "; ".join(s for c in r["checks"].values() for s in c["violations"][:2])
        lines.append(f"| {sid} | {r['property']} | {r['summary'][:110]} | {', '.join(by) or '**MISSED**'} | {sig[:200]} |")
    open(os.path.join(sdir, "RESULTS.md"), "w").write("\n".join(lines) + "\n")


if __name__ == "__main__":
    sys.exit(main())
