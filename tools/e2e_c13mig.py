"""C13 (tie T), the clauses that need MORE THAN ONE connection or MORE THAN ONE path:

family `cid2`    two client endpoints, one server with a predictable connection-ID format. The second client picks, as
                 the original Destination Connection ID of its first Initial, an ID the server issues (or has issued) to
                 the FIRST client's connection. Oracle `o_c13_shared`: every datagram of connection 1 addressed to an
                 unretired ID issued to connection 1 is processed by connection 1 ("delivered to the connection the ID
                 was issued for"), whatever the second client does; plus all single-connection rules of `o_c13` on the
                 first connection's part of the trace.
family `cidmig`  one client that toggles between two addresses A, B, A, B, .. (the server sees migrations back to a path
                 it already knows) while connection-ID lifetimes / handshake-ID rotation retire the IDs the server still
                 has attached to its non-active paths. Oracle `o_c13_dcid`: no packet is addressed to an ID whose
                 retirement the peer has asked for (Retire Prior To, RFC 9000 §5.1.2) once the NEW_CONNECTION_ID frame was
                 processed; RETIRE_CONNECTION_ID never travels in a packet addressed to the very ID it retires.

Importing this module registers both families in `e2e_props.FAMILIES`."""
import copy
import re

import e2e
import e2e_c13
import e2e_props

M64 = (1 << 64) - 1


def mix(z):
    """splitmix64 exactly as harness/vh-e2e/src/cfg.rs"""
    z = (z + 0x9e3779b97f4a7c15) & M64
    z = ((z ^ (z >> 30)) * 0xbf58476d1ce4e5b9) & M64
    z = ((z ^ (z >> 27)) * 0x94d049bb133111eb) & M64
    return z ^ (z >> 31)


def generated_cids(seed, n, length, salt=0x5e):
    """the first `n` connection IDs (hex) the harness's deterministic provider `CidFormat` hands to an endpoint
    (salt 0x5e = the server, 0xc1 = the first client): every `generate` call draws 20 bytes from the PRNG
    `Rng(mix(seed ^ salt ^ 0xc1d0c1d0))` and keeps the first `length`"""
    st = mix((seed ^ salt) ^ 0xc1d0c1d0)
    out = []
    for _ in range(n):
        b = []
        for _ in range(20):
            st = (st + 0x9e3779b97f4a7c15) & M64
            b.append(mix(st) & 0xff)
        out.append(bytes(b[:length]).hex())
    return out


# ---------------------------------------------------------------------------------------
# family cid2: a second client whose original DCID collides with an ID issued to connection 1
# ---------------------------------------------------------------------------------------

def fam_cid2(rng, i):
    """the server's IDs are 8 bytes (the length of a client-chosen original DCID) from the deterministic generator,
    G1, G2, ..  The first connection gets G1 (handshake id); which generator output goes where afterwards depends on
    the order of arrival, so the family covers the typical orders:
      early    the second client's Initial reaches the server during connection 1's handshake (G2 = its handshake id);
               its DCID is G3, the id connection 1 is told to switch to right after the handshake (handshake-id
               rotation): the server's initial-id map holds G3 -> connection 2 while the first client uses G3
      unused   same timing, DCID = an id issued to connection 1 that the first client does not use (G4, G5)
      late     the second client starts when connection 1 already owns G2..G4; DCID = G2 (in use): its Initials belong
               to connection 1's id and must not create a connection
      expiry   ids live 60 s; the second client starts just before the server replaces connection 1's ids
               (DCID = the first replacement)
    with and without loss / jitter."""
    kind = ["early", "early", "late", "unused", "early", "expiry"][i % 6]
    seed = rng.randrange(1, 2**40)
    delay = rng.choice([5, 25, 25, 60])
    ids = generated_cids(seed, 12, 8)
    p = {"seed": seed, "bidi": 1, "uni": rng.choice([0, 1]), "size": rng.choice([20000, 60000, 150000]), "chunk": 2000,
         "delay_ms": delay, "endpoint_drops": 1, "s.cid_len": 8, "conn2_size": rng.choice([500, 5000]),
         "drop_pm": rng.choice([0, 0, 0, 30, 100]), "jitter_ms": rng.choice([0, 0, 0, delay // 5]),
         "c.active_cid_limit": rng.choice([0, 0, 2, 4])}
    hold = delay * 40 + 500
    if kind == "early":
        p["conn2_at_ms"] = rng.randrange(1, max(2, 2 * delay - 2))
        p["conn2_dcid"] = ids[2]
    elif kind == "unused":
        p["conn2_at_ms"] = rng.randrange(1, max(2, 2 * delay - 2))
        p["conn2_dcid"] = ids[rng.choice([3, 4])]
    elif kind == "late":
        p["conn2_at_ms"] = rng.randrange(4 * delay, 12 * delay)
        p["conn2_dcid"] = ids[1]
    else:
        # every connection gets `e` NEW_CONNECTION_ID frames after its handshake (the peer's limit, capped at 3; the
        # handshake id is rotated out). Connection 1's ids are replaced at R = registration (3 x delay) + 60 s - 30 s.
        e = min(3, p["c.active_cid_limit"] or 3)
        r_ms = 30000 + 3 * delay
        p["s.cid_lifetime_ms"] = 60000
        if rng.random() < 0.5:
            # the second handshake is over before R: connection 2 owns G(e+2) .. G(2e+2)
            p["conn2_at_ms"] = r_ms - 3 * delay - rng.randrange(1, delay + 1)
            p["conn2_dcid"] = ids[2 * e + 2]
        else:
            # the second handshake is still running at R: connection 2 owns G(e+2) only
            p["conn2_at_ms"] = r_ms - delay - rng.randrange(1, 2 * delay - 1)
            p["conn2_dcid"] = ids[e + 2]
        p["size"] = 20000
        p["drop_pm"] = 0
        p["jitter_ms"] = 0
        p["c.max_idle_ms"] = 100000
        p["s.max_idle_ms"] = 100000
        hold = 33000
        p["tick_ms"] = 20
    if kind != "expiry":
        p["tick_ms"] = rng.choice([10, 40])
    if p["drop_pm"] or p["jitter_ms"]:
        p["faults_until_ms"] = hold
    p["hold_ms"] = hold
    p["deadline_ms"] = hold + 60000
    return {k: v for k, v in p.items() if not (isinstance(v, int) and v == 0 and k not in ("size", "bidi", "uni"))}


e2e_props.FAMILIES["cid2"] = fam_cid2


class Conns:
    """who is who in a trace with a second client (`d`)"""

    def __init__(self, tr):
        self.addr2 = None
        for r in tr.of("app"):
            if r.ep == "d" and r.what == "bound":
                self.addr2 = r.args[0]
                break
        # server-side connection ids in order of appearance; the first belongs to the first client (it starts at t = 0)
        self.server_conns = []
        started = {}
        for r in tr.recs:
            if r.kind in ("txp", "rxp", "ev") and r.ep == "s" and r.conn != "-":
                if r.conn not in self.server_conns:
                    self.server_conns.append(r.conn)
                if r.kind == "ev" and r.name == "connectivity:connection_started":
                    m = re.search(r"remote_addr: ([0-9.:]+)", r.text)
                    if m:
                        started.setdefault(r.conn, m.group(1))
        self.conn1 = None
        for c in self.server_conns:
            if self.addr2 is None or started.get(c) != self.addr2:
                self.conn1 = c
                break
        self.others = [c for c in self.server_conns if c != self.conn1]


def conn1_view(tr, conns=None):
    """the first connection's part of a two-client trace, as a Trace the single-connection oracles understand"""
    conns = conns or Conns(tr)
    if conns.addr2 is None and not conns.others:
        return tr
    t2 = copy.copy(tr)
    t2.recs = []
    for r in tr.recs:
        if r.kind in ("txp", "rxp", "ev"):
            if r.ep == "d" or (r.ep == "s" and r.conn in conns.others):
                continue
        elif r.kind == "app":
            if r.ep == "d":
                continue
        elif r.kind == "wire":
            if conns.addr2 in (r.src, r.dst):
                continue
        t2.recs.append(r)
    return t2


def issued_time(tr, v, conns, cid):
    """when the server made `cid` an id of connection 1: creation of the connection (handshake id) or the first
    NEW_CONNECTION_ID frame carrying it (registration happens a moment earlier, at the same virtual time)"""
    ts = [o["t"] for o in v.ops["s"] if o["op"] == "tx ncid" and o.get("cid") == cid]
    if any(o["op"] == "hs" and o.get("cid") == cid for o in v.ops["s"]):
        ts += [r.t for r in tr.recs if r.kind in ("txp", "rxp", "ev") and r.ep == "s" and r.conn == conns.conn1][:1]
    return min(ts) if ts else None


def o_c13_shared(tr):
    """routing between connections of one endpoint. Returns [(signature, message)]."""
    conns = Conns(tr)
    t1 = conn1_view(tr, conns)
    bad = list(e2e_c13.o_c13(t1))
    if conns.conn1 is None:
        return bad
    v = e2e_c13.CidView(t1)
    if not v.server_addr:
        return bad
    # what the server processed on connection 1 / did with packets on other connections
    processed = {}
    first_app_rx = None
    closed = None
    foreign = []         # (t, conn, text) packet/datagram drops reported by OTHER connections of the server
    for r in tr.recs:
        if r.kind not in ("rxp", "ev") or r.ep != "s":
            continue
        if r.kind == "rxp" and r.conn == conns.conn1:
            processed.setdefault((r.space, r.pn), r.t)
            if r.space == "app" and first_app_rx is None:
                first_app_rx = r.t
        elif r.kind == "ev":
            if r.name == "connectivity:connection_closed" and r.conn == conns.conn1 and closed is None:
                closed = r.t
            elif r.conn in conns.others and r.name in ("transport:packet_dropped", "transport:datagram_dropped"):
                foreign.append((r.t, r.conn, r.text))
    # the first client's view of the server's ids: retired once it sent RETIRE_CONNECTION_ID (any copy processed by the server)
    retired_at = {}
    for o in v.ops["s"]:
        if o["op"] == "rx retire":
            retired_at.setdefault(o["seq"], o["t"])
    if first_app_rx is None:
        return bad
    reported = False
    for r in t1.recs:
        if r.kind != "txp" or r.ep != "c" or r.space != "app" or reported:
            continue
        hit = v.dgram_of.get(("c", "app", r.pn))
        if hit is None or v.broken["c"]:
            continue
        w, pos = hit
        if pos != 0 or w.action != "deliver" or w.at is None or w.dst != v.server_addr:
            continue
        if tr.end is None or w.at + e2e_c13.BUCKET_US >= tr.end[0]:
            continue      # the run ended before the datagram arrived
        if w.at <= first_app_rx or (closed is not None and closed <= w.at + e2e_c13.BUCKET_US):
            continue
        cid = v.dcid_of_head(w.head, "s")
        if cid is None:
            continue
        seq = v.cids["s"][cid]
        if seq in retired_at and retired_at[seq] <= w.at + e2e_c13.BUCKET_US:
            continue
        if ("app", r.pn) in processed:
            continue
        near = [f for f in foreign if abs(f[0] - w.at) <= e2e_c13.BUCKET_US]
        extra = ""
        if near:
            m = re.search(r"reason: (\w+)", near[0][2])
            extra = (f"; at that moment the server's connection {near[0][1]} (another client's) reported a dropped packet"
                     f" ({m.group(1) if m else '?'}): the datagram was handed to the wrong connection")
        reported = True
        bad.append(("e2e:c13:misrouted", f"the server never processed 1-RTT packet {r.pn} of its connection {conns.conn1}: the datagram was delivered at "
                    f"{w.at}us and is addressed to connection id {cid} (seq {seq}), issued to that connection and not retired{extra}"))
    # a stranger's Initial addressed to an id that connection 1 owns must not open a connection
    dcid2 = tr.params.get("conn2_dcid")
    if dcid2 and conns.addr2 and dcid2 in v.cids["s"]:
        seq = v.cids["s"][dcid2]
        issued_t = issued_time(tr, v, conns, dcid2)
        first_initial = next((w for w in tr.of("wire") if w.src == conns.addr2 and w.at is not None and w.action == "deliver"), None)
        if issued_t is not None and first_initial is not None and issued_t + e2e_c13.BUCKET_US < first_initial.at \
                and not (seq in retired_at and retired_at[seq] <= first_initial.at) and (closed is None or closed > first_initial.at):
            for r in tr.recs:
                if r.kind == "ev" and r.ep == "s" and r.conn in conns.others and r.name == "connectivity:connection_started" \
                        and (seq not in retired_at or r.t < retired_at[seq]):
                    bad.append(("e2e:c13:stranger-accepted-on-issued-id", f"the server opened connection {r.conn} at {r.t}us for an Initial whose destination connection id "
                                f"{dcid2} it had issued to connection {conns.conn1} (seq {seq}, at {issued_t}us) and that was not retired"))
                    break
    # the first connection's transfer is complete and byte-exact
    for r in t1.of("app"):
        if r.ep == "c" and r.what == "read" and r.args[3] != "ok":
            bad.append(("e2e:c13:shared:wrong-bytes", f"client 1 stream {r.args[0]}: byte at offset {r.args[4]} differs"))
            break
        if r.ep == "c" and r.what == "err":
            bad.append(("e2e:c13:shared:transfer-failed", f"client 1 saw an error although only a second client interfered: {' '.join(r.args)[:200]}"))
            break
    return bad


def collision_stats(tr):
    """non-triviality of a `cid2` run: {'captured-window': n, ..} — how many datagrams of connection 1 were addressed to
    the second client's original DCID while the server's initial-id map could still hold it"""
    conns = Conns(tr)
    out = {"conn2-started": 0, "dcid-issued-to-conn1": 0, "conn1-datagrams-to-dcid": 0, "in-initial-window": 0, "stranger-initial-on-owned-id": 0}
    dcid2 = tr.params.get("conn2_dcid")
    if not dcid2 or conns.conn1 is None:
        return out
    t1 = conn1_view(tr, conns)
    v = e2e_c13.CidView(t1)
    if dcid2 not in v.cids["s"]:
        return out
    out["dcid-issued-to-conn1"] = 1
    # lifetime of the initial-id entry: from the server's first processed Initial of the second client until 3 PTO after
    # its handshake completed (not traced; bounded below by the handshake completion)
    start = None
    hs_done = None
    for r in tr.recs:
        if r.kind in ("rxp", "ev") and r.ep == "s" and r.conn in conns.others:
            if r.kind == "rxp" and start is None:
                start = r.t
            if r.kind == "ev" and r.name == "connectivity:handshake_status_updated" and "Complete" in r.text and hs_done is None:
                hs_done = r.t
    if start is not None:
        out["conn2-started"] = 1
    issued_t = issued_time(tr, v, conns, dcid2) or 0
    # the entry stays for 3 PTO after the handshake completed; PTO >= one round trip
    tail = 6 * int(tr.params.get("delay_ms", 25)) * 1000
    for w in t1.of("wire"):
        if w.dst == v.server_addr and w.at is not None and w.action == "deliver" and w.head and not (w.head[0] & 0x80):
            if v.dcid_of_head(w.head, "s") == dcid2:
                out["conn1-datagrams-to-dcid"] += 1
                if start is not None and start <= w.at and (hs_done is None or w.at <= hs_done + tail):
                    out["in-initial-window"] += 1
    if start is None and conns.addr2 and any(w.src == conns.addr2 and w.at is not None and w.at > issued_t for w in tr.of("wire")):
        out["stranger-initial-on-owned-id"] = 1
    return out


def nontrivial_cid2(tr, s):
    st = collision_stats(tr)
    return st["in-initial-window"] > 0 or st["stranger-initial-on-owned-id"] > 0


# ---------------------------------------------------------------------------------------
# family cidmig: migrations back to a known path whose peer connection ID was retired meanwhile
# ---------------------------------------------------------------------------------------

def fam_cidmig(rng, i):
    """the client toggles between two addresses A -> B -> A (-> B ..); between two visits of an address the client
    retires the connection ID the server still has attached to the (now non-active) path of that address:
      rotate    the client rotates its handshake id out right after the handshake (NEW_CONNECTION_ID with
                retire_prior_to = 1); the first rebind falls between the server's handshake confirmation and the arrival
                of that frame, so path A keeps sequence number 0 while the frame is processed on path B
      lifetime  the client's ids live 60..75 s and are replaced every (lifetime - 30 s); one rebind per period
    each with and without loss (random loss, or a server->client blackhole right after a return so that the server's
    RETIRE_CONNECTION_ID / first packets on the old path are lost)."""
    kind = ["rotate", "lifetime", "rotate", "rotate-lossy", "lifetime-lossy", "rotate"][i % 6]
    delay = rng.choice([5, 25, 25])
    p = {"seed": rng.randrange(1, 2**40), "bidi": 1, "uni": rng.choice([0, 1]), "suni": rng.choice([0, 1]),
         "size": rng.choice([3000, 20000, 60000]), "chunk": 1000, "delay_ms": delay, "endpoint_drops": 1,
         "rebind_ip": rng.choice([3, 3, 4]), "c.active_cid_limit": rng.choice([0, 0, 2, 4, 8]), "s.active_cid_limit": rng.choice([0, 0, 2, 4]),
         "cid_len": rng.choice([0, 0, 8, 20])}
    times = []
    if kind.startswith("rotate"):
        p["c.rotate_handshake_cid"] = 2
        p["s.rotate_handshake_cid"] = rng.choice([0, 1, 2])
        t = rng.randrange(2 * delay + 1, 4 * delay)
        for _ in range(rng.choice([2, 3, 4, 5])):
            times.append(t)
            t += rng.randrange(4 * delay, 40 * delay)
        hold = times[-1] + 12 * delay + 200
        p["tick_ms"] = max(5, delay // rng.choice([1, 2]))
    else:
        life = rng.choice([60000, 60000, 61000, 75000])
        which = rng.choice(["c", "c", "both"])
        if which == "both":
            p["cid_lifetime_ms"] = life
        else:
            p["c.cid_lifetime_ms"] = life
        r = rng.choice([-1, -1, 1, 2])
        if r > 0:
            p["c.rotate_handshake_cid"] = r
        period = life - 30000
        n = rng.choice([2, 2, 3])
        for k in range(n):
            times.append(k * period + rng.randrange(1000, period - 1000))
        hold = times[-1] + rng.choice([1500, 4000])
        p["tick_ms"] = rng.choice([300, 1000, 2500])
        p["c.max_idle_ms"] = 100000
        p["s.max_idle_ms"] = 100000
    if kind.endswith("lossy"):
        if rng.random() < 0.5:
            p["drop_pm"] = rng.choice([50, 150])
            p["faults_until_ms"] = hold
        else:
            k = rng.randrange(1, len(times))
            start = times[k] + delay
            p["bh"] = f"{start}:{start + rng.choice([2, 6]) * delay + 5}:{rng.choice([2, 2, 1])}"
    p["rebind_at_ms"] = ",".join(str(t) for t in times)
    p["hold_ms"] = hold
    p["deadline_ms"] = hold + 150000
    return {k: v for k, v in p.items() if not (isinstance(v, int) and v == 0 and k not in ("size", "bidi", "uni"))}


e2e_props.FAMILIES["cidmig"] = fam_cidmig


def o_c13_dcid(tr):
    return _dcid_scan(tr)[0]


def _dcid_scan(tr):
    """RFC 9000 §5.1.2: "Upon receipt of an increased Retire Prior To field, the peer MUST stop using the corresponding
    connection IDs": once an endpoint has PROCESSED a NEW_CONNECTION_ID frame with retire_prior_to = R, no packet it
    builds afterwards is addressed to a connection id of the peer with a sequence number below R (on any path).
    The destination id of a packet is read from the datagram on the simulated wire (first packet of a datagram only;
    packets whose datagram cannot be identified unambiguously are skipped).
    Returns ([(signature, message)], number of packets whose destination id was checked)."""
    bad = []
    checked = 0
    v = e2e_c13.CidView(tr)
    if not v.server_addr:
        return bad, checked
    for ep in ("c", "s"):
        if tr.attack and ep == tr.attack.get("ep", "c"):
            continue
        pe = e2e.peer(ep)
        maxrpt, rpt_t, rpt_pn = 0, None, None
        reported = set()
        for r in tr.recs:
            if r.kind == "rxp" and r.ep == ep and r.space == "app":
                for f in r.frames:
                    if f["type"] == "NEW_CONNECTION_ID" and f["retire_prior_to"] > maxrpt and f["retire_prior_to"] <= f["seq"]:
                        maxrpt, rpt_t, rpt_pn = f["retire_prior_to"], r.t, r.pn
            elif r.kind == "txp" and r.ep == ep and r.space == "app" and maxrpt > 0:
                d = v.dcid_of_packet((ep, "app", r.pn))
                if d is None:
                    continue
                seq = v.cids[pe].get(d)
                checked += 1 if seq is not None else 0
                if seq is not None and seq < maxrpt:
                    types = sorted({f["type"] for f in r.frames})
                    # a packet made of PATH_CHALLENGE (+ PADDING) only is a path-validation probe; it is the one kind
                    # of packet an endpoint sends on a path that is not its active one
                    probe = bool(types) and all(t in ("PATH_CHALLENGE", "PADDING") for t in types)
                    sig = "e2e:c13:dcid-retired" + (":path-validation-probe" if probe else "")
                    if (sig, seq) in reported:
                        continue
                    reported.add((sig, seq))
                    w = v.dgram_of.get((ep, "app", r.pn))
                    to = f" to {w[0].dst}" if w else ""
                    bad.append((sig, f"endpoint {ep} addressed packet {r.pn} (sent at {r.t}us{to}, frames {types}) to the peer's connection id {d} "
                                f"(seq {seq}) although it had processed NEW_CONNECTION_ID with retire_prior_to {maxrpt} at {rpt_t}us (packet {rpt_pn}): "
                                f"the peer asked to stop using every id below {maxrpt}"))
    return bad, checked


PATH_ID_RE = re.compile(r"\bid: (\d+), is_active")


def migration_stats(tr):
    """non-triviality of a `cidmig` run, from the server's path events:
      rebinds             client address changes
      paths               paths the server created (path_created)
      known-path          active_path_updated to a path that had been active before (update_active_path, known path)
      known-path-retired  .. whose peer connection id had been retired meanwhile: a fresh id is consumed for it
                          (connection_id_updated for that path right before the switch)
      retire-frames       RETIRE_CONNECTION_ID frames the server sent
      retire-lost         .. of which the datagram did not reach the client (dropped / blackholed / sent to an address
                          the client had left)
      dcid-checked        packets (both endpoints) sent after a Retire Prior To was processed whose destination id was read"""
    out = {"rebinds": 0, "paths": 0, "known-path": 0, "known-path-retired": 0, "retire-frames": 0, "retire-lost": 0, "dcid-checked": _dcid_scan(tr)[1]}
    v = e2e_c13.CidView(tr)
    was_active = {"0"}
    pending = None      # (t, path id) of a connection_id_updated not yet followed by anything else
    for r in tr.recs:
        if r.kind == "app" and r.what == "rebind":
            out["rebinds"] += 1
        elif r.kind == "txp" and r.ep == "s" and r.space == "app":
            n = sum(1 for f in r.frames if f["type"] == "RETIRE_CONNECTION_ID")
            out["retire-frames"] += n
            if n:
                hit = v.dgram_of.get(("s", "app", r.pn))
                if hit is not None and (hit[0].at is None or hit[0].dst != v.client_addr_at(hit[0].at)):
                    out["retire-lost"] += n
        elif r.kind == "ev" and r.ep == "s":
            if r.name == "transport:path_created":
                out["paths"] += 1
            elif r.name == "connectivity:connection_id_updated":
                m = re.search(r"path_id: (\d+)", r.text)
                pending = (r.t, m.group(1)) if m else None
            elif r.name == "connectivity:active_path_updated":
                ids = PATH_ID_RE.findall(r.text)
                if len(ids) == 2:
                    new = ids[1]
                    if new in was_active:
                        out["known-path"] += 1
                        if pending is not None and pending == (r.t, new):
                            out["known-path-retired"] += 1
                    was_active.add(new)
                pending = None
    return out


def nontrivial_cidmig(tr, s):
    return migration_stats(tr)["known-path-retired"] > 0
