"""Shared machinery for /verif/check (see DESIGN.md §2.3-2.5).

A property check is a python module props/Cxx.py with `run(ctx)`. It registers
*obligations* on the context:
  - theorem      : a Lean property theorem (module builds, axiom set is standard)
  - bridge       : a `Generated.* = pinned` lemma regenerated from /repo on this run (tie G)
  - correspond   : differential run  model driver  vs  real component (tie D / T)
  - oracle       : the property's Boolean twin evaluated on the *implementation's* outputs
and the context turns the outcome into evidence / VIOLATION lines.
"""
import fcntl
import hashlib
import importlib
import json
import os
import random
import re
import subprocess
import sys
import time

VERIF = os.path.dirname(os.path.dirname(os.path.abspath(__file__)))
REPO = os.environ.get("VERIF_REPO", "/repo")
LEAN_DIR = os.path.join(VERIF, "lean")
CACHE = os.path.join(VERIF, ".cache")
WORK = os.path.join(CACHE, "work")
REPLAY_DIR = os.path.join(VERIF, "replay")
EVIDENCE_DIR = os.path.join(VERIF, "evidence")
STD_AXIOMS = {"propext", "Classical.choice", "Quot.sound"}
DRIVER = os.path.join(LEAN_DIR, ".lake", "build", "bin", "driver")
# A scratch repo (VERIF_REPO=...) gets its own cargo target dir: harness crates see the repo through the
# harness/repo symlink, and cargo's mtime fingerprints do not notice that the symlink now points at *older*
# files when it is switched back to /repo (a stale mutant build would then be tested as "/repo").
TARGET = os.path.join(CACHE, "target" if os.path.realpath(REPO) == os.path.realpath("/repo")
                      else "target-" + hashlib.sha256(os.path.realpath(REPO).encode()).hexdigest()[:8])

sys.path.insert(0, os.path.join(VERIF, "tools"))


def sh(cmd, cwd=None, env=None, timeout=None, input=None):
    e = dict(os.environ)
    e.setdefault("CARGO_NET_OFFLINE", "true")
    if env:
        e.update(env)
    p = subprocess.run(cmd, cwd=cwd, env=e, shell=isinstance(cmd, str), input=input,
                       stdout=subprocess.PIPE, stderr=subprocess.STDOUT, text=True, timeout=timeout)
    return p.returncode, p.stdout


class Lock:
    def __init__(self, name):
        os.makedirs(CACHE, exist_ok=True)
        self.path = os.path.join(CACHE, name + ".lock")

    def __enter__(self):
        self.f = open(self.path, "w")
        fcntl.flock(self.f, fcntl.LOCK_EX)
        return self

    def __exit__(self, *a):
        fcntl.flock(self.f, fcntl.LOCK_UN)
        self.f.close()


def repo_state():
    rc, head = sh("git rev-parse HEAD", cwd=REPO)
    rc2, diff = sh("git diff HEAD --stat | tail -1; git diff HEAD | sha256sum | cut -c1-16", cwd=REPO)
    return {"head": head.strip(), "dirty": diff.strip()}


# ---------------------------------------------------------------------------------------
# Lean side
# ---------------------------------------------------------------------------------------

def lake_build(targets):
    with Lock("lake"):
        rc, out = sh(["lake", "build"] + list(targets), cwd=LEAN_DIR, timeout=3600)
    return rc == 0, out


def props_theorems(module):
    """[(fully qualified name, is_partial)] of every `theorem` in a Props module."""
    path = os.path.join(LEAN_DIR, *module.split(".")) + ".lean"
    src = open(path).read()
    src_nc = strip_lean_comments(src)
    ns = []
    out = []
    for line in src_nc.splitlines():
        m = re.match(r"\s*namespace\s+(\S+)", line)
        if m:
            ns.append(m.group(1))
            continue
        m = re.match(r"\s*end\s+(\S+)", line)
        if m and ns and ns[-1] == m.group(1):
            ns.pop()
            continue
        m = re.match(r"\s*(?:private\s+|protected\s+)?theorem\s+([^\s:({\[]+)", line)
        if m:
            out.append(".".join(ns + [m.group(1)]))
    return out


def strip_lean_comments(src):
    # remove /- ... -/ (nested) and -- comments
    out = []
    i = 0
    depth = 0
    n = len(src)
    while i < n:
        if src.startswith("/-", i):
            depth += 1
            i += 2
            continue
        if depth and src.startswith("-/", i):
            depth -= 1
            i += 2
            continue
        if depth:
            if src[i] == "\n":
                out.append("\n")
            i += 1
            continue
        if src.startswith("--", i):
            while i < n and src[i] != "\n":
                i += 1
            continue
        out.append(src[i])
        i += 1
    return "".join(out)


FORBIDDEN = re.compile(r"\bsorry\b|\badmit\b|^\s*axiom\s|native_decide|bv_decide|implemented_by|\bunsafe\s|maxHeartbeats\s+0\b", re.M)


def audit_sources(modules):
    """scan the given modules (and everything under QuicModel/QuicProofs they may import) for
    forbidden constructs; returns list of 'file:line: text'"""
    hits = []
    for root in ("QuicModel", "QuicProofs"):
        for d, _, fs in os.walk(os.path.join(LEAN_DIR, root)):
            for f in fs:
                if not f.endswith(".lean"):
                    continue
                p = os.path.join(d, f)
                src = strip_lean_comments(open(p).read())
                for i, line in enumerate(src.splitlines(), 1):
                    if FORBIDDEN.search(line):
                        hits.append(f"{os.path.relpath(p, LEAN_DIR)}:{i}: {line.strip()[:100]}")
    return hits


def print_axioms(prop, modules, theorems):
    """run `#print axioms` for every theorem; returns {theorem: [axioms]} or raises"""
    os.makedirs(WORK, exist_ok=True)
    path = os.path.join(WORK, f"Axioms_{prop}.lean")
    with open(path, "w") as f:
        for m in modules:
            f.write(f"import {m}\n")
        for t in theorems:
            f.write(f"#print axioms {t}\n")
    with Lock("lake"):
        rc, out = sh(["lake", "env", "lean", path], cwd=LEAN_DIR, timeout=1800)
    res = {}
    # output: "'name' depends on axioms: [a, b]" or "'name' does not depend on any axioms"
    for m in re.finditer(r"'([^']+)' depends on axioms: \[([^\]]*)\]", out, re.S):
        res[m.group(1)] = [a.strip() for a in m.group(2).replace("\n", " ").split(",") if a.strip()]
    for m in re.finditer(r"'([^']+)' does not depend on any axioms", out):
        res[m.group(1)] = []
    return rc == 0, res, out


# ---------------------------------------------------------------------------------------
# Rust side
# ---------------------------------------------------------------------------------------

def cargo_build(harness, extra_env=None):
    """build a harness crate under /verif/harness from /repo's current tree"""
    d = os.path.join(VERIF, "harness", harness)
    link_repo()
    lock = os.path.join(d, "Cargo.lock")
    src = os.path.join(REPO, "Cargo.lock")
    with Lock("cargo-" + harness):
        if not os.path.exists(lock):
            sh(["cp", src, lock])
        env = {"CARGO_TARGET_DIR": TARGET}
        env.update(extra_env or {})
        _forget_other_repo(harness, d, env)
        rc, out = sh(["cargo", "build", "--offline"], cwd=d, env=env, timeout=7200)
        if rc != 0 and "Cargo.lock" in out:
            sh(["cp", src, lock])
            rc, out = sh(["cargo", "build", "--offline"], cwd=d, env=env, timeout=7200)
    return rc == 0, out


def _forget_other_repo(harness, d, env):
    """cargo decides freshness of path dependencies by file mtime. `harness/repo` is a symlink, so after a run with
    VERIF_REPO=<scratch copy> the crates of /repo (same path through the link, OLDER files) would be considered
    fresh and the stale build of the other tree would be tested. Remember which tree the target directory was last
    built from and clean the repo's own crates when it changes."""
    want = os.path.realpath(REPO)
    marker = os.path.join(TARGET, f".verif-repo-{harness}")
    try:
        have = open(marker).read().strip() if os.path.exists(marker) else None
        if have is not None and have != want:
            rc, out = sh(["cargo", "metadata", "--offline", "--format-version", "1"], cwd=d, env=env, timeout=600)
            names = []
            if rc == 0:
                meta = json.loads(out[out.index("{"):])
                link = os.path.join(VERIF, "harness", "repo") + os.sep
                for pk in meta.get("packages", []):
                    mp = pk.get("manifest_path", "")
                    if mp.startswith(link) or mp.startswith(want + os.sep) or mp.startswith(have + os.sep):
                        names.append(pk["name"])
            for n in sorted(set(names)):
                sh(["cargo", "clean", "--offline", "-p", n], cwd=d, env=env, timeout=600)
        os.makedirs(TARGET, exist_ok=True)
        with open(marker, "w") as f:
            f.write(want)
    except Exception:      # never let the bookkeeping break a build
        pass


def link_repo():
    """harness crates depend on ../repo/<crate> ; harness/repo is a symlink to the repo under test"""
    link = os.path.join(VERIF, "harness", "repo")
    want = os.path.realpath(REPO)
    if os.path.islink(link) and os.path.realpath(link) == want:
        return
    if os.path.islink(link) or os.path.exists(link):
        os.remove(link)
    os.symlink(want, link)
    # cargo's freshness check is mtime-based on the same path: after retargeting the link to a tree with
    # older files a stale binary would be reused. Drop the fingerprints of the repo crates.
    fp = os.path.join(TARGET, "debug", ".fingerprint")
    if os.path.isdir(fp):
        import shutil
        for d in os.listdir(fp):
            if d.startswith("s2n-") or d.startswith("vh-"):
                shutil.rmtree(os.path.join(fp, d), ignore_errors=True)


def harness_bin(harness):
    return os.path.join(TARGET, "debug", harness)


INCRATE_TARGET = TARGET + "-incrate"
HOOK_MARK = "aws_s2n_quic_verif"


def incrate_build():
    """tie D for crate-private code: build the unit-test binary of s2n-quic-transport from REPO's working tree with
    the verification hook enabled (`--cfg aws_s2n_quic_verif`, MANIFEST.hooks) — the hook `include!`s
    /verif/hooks/transport_stream.rs as module `stream::verif` — and install a wrapper `vh-incrate` next to the
    harness binaries with the same calling convention (`vh-incrate <component>`, ops on stdin, answers on stdout)."""
    modrs = os.path.join(REPO, "quic", "s2n-quic-transport", "src", "stream", "mod.rs")
    try:
        if HOOK_MARK not in open(modrs).read():
            return False, f"the verification hook (cfg {HOOK_MARK}) is missing from {modrs}"
    except OSError as e:
        return False, str(e)
    env = {"CARGO_TARGET_DIR": INCRATE_TARGET, "CARGO_NET_OFFLINE": "true",
           "RUSTFLAGS": "--cfg s2n_internal_dev --cfg aws_s2n_quic_verif",
           "AWS_S2N_QUIC_VERIF_HOOKS": os.path.join(VERIF, "hooks")}
    with Lock("cargo-incrate"):
        rc, out = sh(["cargo", "test", "-p", "s2n-quic-transport", "--lib", "--no-run", "--offline",
                      "--message-format=json"], cwd=REPO, env=env, timeout=7200)
    exe = None
    msgs = []
    for line in out.split("\n"):
        if not line.startswith("{"):
            if line.strip():
                msgs.append(line)
            continue
        try:
            m = json.loads(line)
        except ValueError:
            continue
        if m.get("reason") == "compiler-artifact" and m.get("executable") and m.get("target", {}).get("name") == "s2n_quic_transport":
            exe = m["executable"]
        elif m.get("reason") == "compiler-message" and m.get("message", {}).get("level") == "error":
            msgs.append(m["message"].get("rendered", "")[:1500])
    if rc != 0 or not exe:
        return False, "\n".join(msgs)[-4000:]
    os.makedirs(os.path.join(TARGET, "debug"), exist_ok=True)
    w = harness_bin("vh-incrate")
    with open(w + ".tmp", "w") as f:
        f.write("#!/bin/sh\n# generated by tools/vlib.py incrate_build()\n"
                "t=$(mktemp -d) || exit 3\ncat > \"$t/in\"\n"
                f"VERIF_COMP=\"$1\" VERIF_IN=\"$t/in\" VERIF_OUT=\"$t/out\" '{exe}' stream::verif::line_protocol --exact --test-threads 1 >\"$t/log\" 2>&1\n"
                "rc=$?\nif [ -f \"$t/out\" ]; then cat \"$t/out\"; else cat \"$t/log\" >&2; rc=3; fi\nrm -rf \"$t\"\nexit $rc\n")
    os.chmod(w + ".tmp", 0o755)
    os.replace(w + ".tmp", w)
    return True, exe


def run_lines(cmd, lines, timeout=3600, cwd=None, env=None):
    data = "\n".join(lines) + "\n"
    e = dict(os.environ)
    if env:
        e.update(env)
    p = subprocess.run(cmd, input=data, stdout=subprocess.PIPE, stderr=subprocess.PIPE, text=True,
                       timeout=timeout, cwd=cwd, env=e)
    out = p.stdout.split("\n")
    if out and out[-1] == "":
        out.pop()
    return p.returncode, out, p.stderr


# ---------------------------------------------------------------------------------------
# Context
# ---------------------------------------------------------------------------------------

class Violation(Exception):
    pass


class Ctx:
    def __init__(self, prop, tier, seed):
        self.prop = prop
        self.tier = tier
        self.seed = seed
        self.t0 = time.time()
        self.obligations = []      # dicts: kind,name,ok,detail
        self.samples = []
        self.evaluations = 0
        self.nontrivial = set()
        self.distribution = {}
        self.trusted = []
        self.assumptions = []
        self.violations = []       # dicts: signature, what, replay, found_input
        self.known_hits = []
        self.notes = []
        self.traces_validated = 0
        self.exhaustive = False
        self.extra = {}
        self.level = "proof"
        self.checker_cmd = ""
        self.rule = ""
        self.explanation = ""
        self.known = load_known()
        self.escalated = False     # set by a part when one of its proof obligations / bridges broke

    @property
    def deep(self):
        """full-depth search after a broken obligation (exhaustive enumerations etc.): only on request"""
        return self.escalated and os.environ.get("VERIF_DEEP") == "1"

    # -- obligations --------------------------------------------------------------
    def oblige(self, kind, name, ok, detail=""):
        if os.environ.get("VERIF_TIMING"):
            print(f"[{time.time() - self.t0:8.1f}s] {kind}: {name[:90]} -> {'ok' if ok else 'FAILED'}", file=sys.stderr, flush=True)
        self.obligations.append({"kind": kind, "name": name, "ok": bool(ok), "detail": detail[-2000:] if detail else ""})
        return ok

    def rng(self, salt=""):
        return random.Random(f"{self.seed}/{self.prop}/{salt}")

    def count(self, key, n=1):
        self.distribution[key] = self.distribution.get(key, 0) + n

    def sample(self, s):
        if len(self.samples) < 12:
            self.samples.append(s)

    # -- violations ---------------------------------------------------------------
    def violation(self, signature, what, replay_obj, found_input=True):
        """record a violation; a signature listed as known finding is reported as such"""
        for k in self.known:
            if k.get("property") == self.prop and k.get("status", "known") == "known" and \
                    re.fullmatch(k["signature"], signature):
                if k["id"] not in [h["id"] for h in self.known_hits]:
                    self.known_hits.append({"id": k["id"], "what": k["what_fails"], "signature": signature})
                return False
        if any(v["signature"] == signature for v in self.violations):
            return True
        os.makedirs(REPLAY_DIR, exist_ok=True)
        h = hashlib.sha256((self.prop + signature + json.dumps(replay_obj, sort_keys=True, default=str)).encode()).hexdigest()[:12]
        path = os.path.join(REPLAY_DIR, f"{self.prop}-{h}.json")
        obj = {"property": self.prop, "signature": signature, "what": what, "seed": self.seed, "tier": self.tier,
               "repo": repo_state(), "found_failing_input": found_input}
        obj.update(replay_obj)
        with open(path, "w") as f:
            json.dump(obj, f, indent=1, default=str)
        self.violations.append({"signature": signature, "what": what, "replay": path, "found_input": found_input})
        return True

    # -- finish -------------------------------------------------------------------
    def finish(self):
        n_ob = len(self.obligations)
        n_ok = sum(1 for o in self.obligations if o["ok"])
        cov = {
            "obligations": n_ob,
            "discharged": n_ok,
            "checker_cmd": self.checker_cmd or f"./check {self.prop} --tier {self.tier}",
            "trusted_base": self.trusted,
            "evaluations": self.evaluations,
            "distinct_nontrivial": len(self.nontrivial),
            "rule": self.rule,
            "samples": self.samples or [o["name"] for o in self.obligations[:8]],
            "traces_validated_against_impl": self.traces_validated,
            "exhaustive": self.exhaustive,
            "explanation": self.explanation,
            "obligation_list": [{k: o[k] for k in ("kind", "name", "ok")} for o in self.obligations],
            "failed_obligations": [o for o in self.obligations if not o["ok"]],
            "input_distribution": self.distribution,
            "known_findings_reproduced": self.known_hits,
            "notes": self.notes,
            "repo": repo_state(),
            "escalated_search": self.escalated,
        }
        cov.update(self.extra)
        ev = {
            "property_id": self.prop,
            "tier": self.tier,
            "seed": self.seed,
            "level": self.level,
            "coverage": cov,
            "assumptions": self.assumptions,
            "wall_s": round(time.time() - self.t0, 2),
            "violations": len(self.violations),
        }
        os.makedirs(EVIDENCE_DIR, exist_ok=True)
        with open(os.path.join(EVIDENCE_DIR, f"{self.prop}.json"), "w") as f:
            json.dump(ev, f, indent=1, default=str)
        for h in self.known_hits:
            print(f"KNOWN-FINDING: property={self.prop} {h['id']}: {h['what']}")
        # every listed finding of the property gets its line, also when this run's inputs did not reproduce it
        hit_ids = {h["id"] for h in self.known_hits}
        for k in self.known:
            if k.get("property") == self.prop and k.get("status", "known") == "known" and k["id"] not in hit_ids:
                print(f"KNOWN-FINDING: property={self.prop} {k['id']}: {k['what_fails']} [listed; not reproduced by the inputs of this run]")
        # a failed obligation with no concrete failing input is still a violation
        failed = [o for o in self.obligations if not o["ok"]]
        if failed and not any(v["found_input"] for v in self.violations):
            # all failures explained by known findings?
            unexplained = [o for o in failed if not o.get("explained")]
            if unexplained:
                names = ", ".join(o["name"] for o in unexplained[:6])
                self.violation("obligation:" + names, "proof obligation / correspondence no longer checks: " + names,
                               {"failed_obligations": unexplained}, found_input=False)
        for v in self.violations:
            tail = "" if v["found_input"] else " no-failing-input-found"
            print(f"VIOLATION property={self.prop} replay={v['replay']}{tail}")
        if self.violations:
            # evidence must reflect the violations
            ev["violations"] = len(self.violations)
            with open(os.path.join(EVIDENCE_DIR, f"{self.prop}.json"), "w") as f:
                json.dump(ev, f, indent=1, default=str)
            return 1
        print(f"OK property={self.prop} tier={self.tier} obligations={n_ok}/{n_ob} evaluations={self.evaluations} "
              f"distinct_nontrivial={len(self.nontrivial)} wall={ev['wall_s']}s")
        return 0


def load_known():
    p = os.path.join(VERIF, "known_findings.json")
    if not os.path.exists(p):
        return []
    return json.load(open(p)).get("findings", [])


# ---------------------------------------------------------------------------------------
# Standard steps
# ---------------------------------------------------------------------------------------

def step_extract(ctx, only=None):
    """tie G: regenerate QuicModel/Generated/*.lean from /repo's working tree.
    `only`: names of tools/extractors modules relevant for this property (None = all)."""
    import extract
    import regen
    regen.main()
    rep = extract.main(REPO, os.path.join(LEAN_DIR, "QuicModel", "Generated"), only)
    ctx.extra["generated"] = rep
    ctx.oblige("extract", "tools/extract.py found every curated item in /repo" + (f" ({', '.join(only)})" if only else ""),
               not rep["failed"], "; ".join(rep["failed"]))
    return rep


def step_lean(ctx, prop_modules, bridge_modules=(), extra_targets=("driver",)):
    """build property theorems + bridges + driver; audit axioms. Returns True when all is fine."""
    ok_all = True
    # bridges first, individually, so that a broken bridge is named precisely
    for b in bridge_modules:
        ok, out = lake_build([b])
        ctx.oblige("bridge", b, ok, out)
        ok_all &= ok
    for m in prop_modules:
        ok, out = lake_build([m])
        thms = props_theorems(m)
        if not ok:
            ctx.oblige("theorem", m + " (module does not build)", False, out)
            ok_all = False
            continue
        okx, ax, out = print_axioms(ctx.prop + "_" + m.split(".")[-1], [m], thms)
        for t in thms:
            a = ax.get(t)
            good = a is not None and set(a) <= STD_AXIOMS
            ctx.oblige("theorem", t, good, "" if good else f"axioms: {a}\n{out}")
            ok_all &= good
            ctx.trusted.append(f"{t}: axioms {sorted(a) if a is not None else '?'}")
    hits = audit_sources(prop_modules)
    ctx.oblige("audit", "no sorry/admit/axiom/native_decide/bv_decide/implemented_by/unsafe/maxHeartbeats 0 in lean sources", not hits, "\n".join(hits))
    ok_all &= not hits
    if extra_targets:
        ok, out = lake_build(list(extra_targets))
        if not ok:
            ctx.oblige("build", "lean driver builds", False, out)
            ok_all = False
    ctx.checker_cmd = f"cd {LEAN_DIR} && lake build " + " ".join(list(bridge_modules) + list(prop_modules)) + " && lake env lean <#print axioms file>"
    return ok_all


def split_segments(lines):
    """split an ops list at `reset` lines -> list of (start_index, [lines])"""
    segs = []
    cur = []
    start = 0
    for i, l in enumerate(lines):
        if l.strip() == "reset":
            if cur:
                segs.append((start, cur))
            cur = []
            start = i + 1
        else:
            cur.append(l)
    if cur:
        segs.append((start, cur))
    return segs


def diff_component(ctx, harness, comp, lines, lean_comp=None, soft=None, env=None):
    """run the real component and the Lean driver on the same ops; returns (rust_out, lean_out, mismatches)
    `soft(op, rust_line, lean_line) -> bool` marks tolerated (soft) divergences."""
    lean_comp = lean_comp or comp
    rc, r_out, r_err = run_lines([harness_bin(harness), comp], lines, env=env)
    if rc != 0 or len(r_out) != len(lines):
        raise RuntimeError(f"harness {harness} {comp} failed rc={rc} lines={len(r_out)}/{len(lines)}: {r_err[-2000:]}")
    rc, l_out, l_err = run_lines([DRIVER, lean_comp], lines)
    if rc != 0 or len(l_out) != len(lines):
        raise RuntimeError(f"lean driver {lean_comp} failed rc={rc} lines={len(l_out)}/{len(lines)}: {l_err[-2000:]}")
    mism = []
    for i, (a, b) in enumerate(zip(r_out, l_out)):
        if a != b:
            if soft and soft(lines[i], a, b):
                ctx.count(f"{comp}:soft_divergence")
                continue
            mism.append(i)
    return r_out, l_out, mism


def shrink_segment(harness, comp, seg, lean_comp=None, env=None):
    """greedy delta debugging: smallest subsequence of the segment that still disagrees somewhere"""
    lean_comp = lean_comp or comp

    def bad(ls):
        if not ls:
            return False
        rc, r, _ = run_lines([harness_bin(harness), comp], ls, env=env)
        rc2, l, _ = run_lines([DRIVER, lean_comp], ls)
        return r != l
    cur = list(seg)
    if not bad(cur):
        return cur
    # cut after first disagreement
    rc, r, _ = run_lines([harness_bin(harness), comp], cur, env=env)
    rc, l, _ = run_lines([DRIVER, lean_comp], cur)
    for i, (a, b) in enumerate(zip(r, l)):
        if a != b:
            cur = cur[: i + 1]
            break
    changed = True
    budget = 400
    while changed and budget > 0:
        changed = False
        i = 0
        while i < len(cur) - 1 and budget > 0:   # keep the last (failing) line
            cand = cur[:i] + cur[i + 1:]
            budget -= 1
            if bad(cand):
                cur = cand
                changed = True
            else:
                i += 1
    return cur


def step_diff(ctx, harness, comp, gen_mod, n, lean_comp=None, name=None, env=None, soft=None):
    """tie D for one component: generate, run both sides, compare, evaluate the oracle.
    gen_mod has gen(rng, n, tier) -> list of op lines, optional oracle(ops, outs) -> list of
    (index, signature, message) and optional nontrivial(op, out) -> key|None."""
    g = importlib.import_module("gen." + gen_mod) if isinstance(gen_mod, str) else gen_mod
    rng = ctx.rng(comp)
    lines = g.gen(rng, n, ctx.tier)
    name = name or f"D:{harness}/{comp}"
    r_out, l_out, mism = diff_component(ctx, harness, comp, lines, lean_comp, soft=soft, env=env)
    ctx.evaluations += len(lines)
    for op, out in zip(lines, r_out):
        k = g.nontrivial(op, out) if hasattr(g, "nontrivial") else (op if out.startswith("ok") else None)
        if k is not None:
            ctx.nontrivial.add(comp + "|" + str(k))
        ctx.count(f"{comp}:{op.split(' ')[0]}:{out.split(' ')[0]}")
    for j in range(min(3, len(lines))):
        k = (j * 7919) % len(lines)
        ctx.sample({"component": comp, "op": lines[k][:300], "impl": r_out[k][:300], "model": l_out[k][:300]})
    # oracle on the implementation's own outputs
    fails = g.oracle(lines, r_out) if hasattr(g, "oracle") else []
    stateless = getattr(g, "STATELESS", False)
    new_fails = []
    seen_sig = set()
    for (i, sig, msg) in fails:
        if sig in seen_sig:
            continue
        seen_sig.add(sig)
        seg = [lines[i]] if stateless else segment_upto(lines, i)
        if ctx.violation(sig, msg, {"kind": "oracle", "harness": harness, "component": comp, "ops": seg,
                                    "impl_output": r_out[i], "model_output": l_out[i], "failing_op": lines[i]}):
            new_fails.append((i, sig, msg))
    ctx.oblige("oracle", f"{name}: implementation outputs satisfy the property oracle ({len(lines)} ops)"
               + (f" [known findings reproduced: {sorted(seen_sig - {s for _, s, _ in new_fails})}]" if len(seen_sig) > len(new_fails) else ""),
               not new_fails, "; ".join(m for _, _, m in new_fails[:5]))
    if new_fails:
        ctx.obligations[-1]["explained"] = True
    panics = [i for i, o in enumerate(r_out) if o.startswith("panic")]
    ok = not mism
    detail = ""
    if mism:
        i = mism[0]
        seg = [lines[i]] if stateless else segment_upto(lines, i)
        small = shrink_segment(harness, comp, seg, lean_comp, env=env)
        rc, r_s, _ = run_lines([harness_bin(harness), comp], small, env=env)
        rc, l_s, _ = run_lines([DRIVER, lean_comp or comp], small)
        detail = f"first disagreement at op {i}: {lines[i][:200]} impl={r_out[i][:200]} model={l_out[i][:200]}; shrunk to {len(small)} ops"
        # is the shrunk disagreement itself a property violation of the implementation?
        f2 = g.oracle(small, r_s) if hasattr(g, "oracle") else []
        if f2:
            for (k, sig, msg) in f2[:5]:
                ctx.violation(sig, msg, {"kind": "oracle", "harness": harness, "component": comp, "ops": small,
                                         "impl_output": r_s, "model_output": l_s})
        ctx.extra.setdefault("disagreements", []).append({"component": comp, "ops": small, "impl": r_s, "model": l_s, "count": len(mism)})
    ctx.oblige("correspond", f"{name}: model and implementation agree on {len(lines)} ops", ok, detail)
    if mism:
        o = ctx.obligations[-1]
        o["replay"] = {"component": comp, "harness": harness, "ops": small, "impl": r_s, "model": l_s}
        if fails or f2:
            o["explained"] = True
    if panics:
        ctx.count(f"{comp}:panics", len(panics))
    return lines, r_out, l_out, mism


def segment_upto(lines, i):
    """ops of the segment (since the last reset) up to and including line i"""
    j = i
    while j > 0 and lines[j - 1].strip() != "reset":
        j -= 1
    return lines[j:i + 1]


def tier_n(ctx, quick, thorough):
    """sizes: quick / thorough; after a broken obligation in THIS part (ctx.escalated) the quick tier searches
    deeper, but bounded (6x) so that a broken bridge does not turn a quick check into a thorough one;
    VERIF_DEEP=1 lifts the bound (full thorough sizes + exhaustive enumerations)"""
    if ctx.tier == "thorough" or ctx.deep:
        return thorough
    if ctx.escalated:
        return min(thorough, quick * 6)
    return quick
