"""Tie T for the ACK half of C08: turn one vh-e2e trace into `ack-trace` op lines (component
`ack-trace`, lean/QuicModel/Drivers/AckTrace.lean) for ONE endpoint and ONE packet-number space.

Mapping (trace record -> op), in trace order:
  rxp (the interceptor runs after decryption, BEFORE the frames are processed)
        -> `rx <t> <pn> <ack_eliciting> <ce> <path_challenge>`, emitted when the packet's processing is over
           (`on_processed_packet` is the last thing the space does with a packet): after every
           ack_range_received / packet_lost event that follows the rxp record at the same virtual time.
  ev recovery:ack_range_received (one per range of a received ACK frame, in frame order; each is one
        `AckManager::on_packet_ack(range)`) -> `acked <lo-hi,...> <t>` (consecutive events are grouped)
  ev recovery:packet_lost (each is one `on_packet_loss(pn..=pn)`; the calls are made in the same order just
        before the events are published) -> `lost <pn,...> <t>`
  txp + the transport:packet_sent event that follows it (transmission mode)
        -> `tx <t> <own pn> <ack_eliciting> <ACK ranges, largest first | -> <mode n|p|m|v>`
  ev connectivity:connection_closed / an own CONNECTION_CLOSE frame -> the op stream of that endpoint ends
        (a packet whose frame processing failed is never handed to the ack manager; close packets are written
        by the close sender, not by the application space's transmission).
ECN: the simulated network never sets CE, `ce` is always 0 (the model then is at most LESS eager to send).
"""
import re

import quicparse as qp

MODE = {"Normal": "n", "LossRecoveryProbing": "p", "MtuProbing": "m", "PathValidationOnly": "v"}
SPACE_HDR = {"initial": "Initial", "handshake": "Handshake", "app": "OneRtt"}
RANGE_RE = re.compile(r"ack_range: (\d+)\.\.=(\d+)")
LOST_RE = re.compile(r"packet_header: (\w+) \{ number: (\d+)")
MODE_RE = re.compile(r"packet_header: (\w+) \{ number: (\d+).*transmission_mode: (\w+)")
HDR_RE = re.compile(r"packet_header: (\w+)")


def settings(tr, ep):
    """(max_ack_delay_us, ack_ranges_limit) the endpoint was configured with"""
    v = int(tr.params.get(f"{ep}.max_ack_delay_ms", 0))
    return (v * 1000 if v else 25000), 10


def ops(tr, ep, space="app"):
    """-> (op lines, meta) ; meta[i] = the trace record the op was built from (for messages)"""
    mad, limit = settings(tr, ep) if space == "app" else (0, 10)
    out = [f"cfg {mad} {limit}"]
    meta = [None]
    hdr = SPACE_HDR[space]
    pending = None          # (t, op line, rec) of the packet being processed
    acked = []              # ranges of the ACK frame(s) being processed
    lost = []
    ev_t = 0                # time of the events being grouped
    conn = None

    def flush_events():
        nonlocal acked, lost
        if acked:
            out.append("acked " + ",".join(f"{lo}-{hi}" for lo, hi in acked) + f" {ev_t}"); meta.append(None)
            acked = []
        if lost:
            out.append("lost " + ",".join(str(p) for p in lost) + f" {ev_t}"); meta.append(None)
            lost = []

    def flush_rx():
        nonlocal pending
        flush_events()
        if pending is not None:
            out.append(pending[1]); meta.append(pending[2])
            pending = None

    recs = tr.recs
    n = len(recs)
    for i, r in enumerate(recs):
        if r.kind not in ("rxp", "txp", "ev") or r.ep != ep:
            continue
        if conn is None and r.kind in ("rxp", "txp"):
            conn = r.conn
        if r.kind in ("rxp", "txp") and r.conn != conn:
            continue
        if r.kind == "ev":
            if conn is not None and r.conn != conn:
                continue
            if r.name == "connectivity:connection_closed":
                # a packet still being processed at this instant was not handed to the ack manager
                if pending is not None and pending[0] == r.t:
                    pending = None
                flush_rx()
                break
            if r.name == "recovery:ack_range_received":
                m = HDR_RE.search(r.text)
                g = RANGE_RE.search(r.text)
                if m and g and m.group(1) == hdr:
                    if pending is not None and r.t > pending[0]:
                        flush_rx()
                    if lost or (acked and ev_t != r.t):
                        flush_events()
                    ev_t = r.t
                    acked.append((int(g.group(1)), int(g.group(2))))
            elif r.name == "recovery:packet_lost":
                m = LOST_RE.search(r.text)
                if m and m.group(1) == hdr:
                    if pending is not None and r.t > pending[0]:
                        flush_rx()
                    if acked or (lost and ev_t != r.t):
                        flush_events()
                    ev_t = r.t
                    lost.append(int(m.group(2)))
            continue
        if r.space != space:
            continue
        if r.kind == "rxp":
            flush_rx()
            fr = r.frames
            if any(f["type"] == "PARSE_ERROR" for f in fr):
                break
            ae = 1 if qp.ack_eliciting(fr) else 0
            pc = 1 if any(f["type"] == "PATH_CHALLENGE" for f in fr) else 0
            pending = (r.t, f"rx {r.t} {r.pn} {ae} 0 {pc}", r)
        else:
            flush_rx()
            fr = r.frames
            if any(f["type"] in ("CONNECTION_CLOSE", "PARSE_ERROR") for f in fr):
                break
            mode = "n"
            for j in range(i + 1, min(i + 6, n)):
                q = recs[j]
                if q.kind == "ev" and q.ep == ep and q.name == "transport:packet_sent":
                    m = MODE_RE.search(q.text)
                    if m and m.group(1) == hdr and int(m.group(2)) == r.pn:
                        mode = MODE.get(m.group(3), "n")
                    break
            acks = [f for f in fr if f["type"] == "ACK"]
            rs = "-"
            if acks:
                rs = ",".join(f"{lo}-{hi}" for lo, hi in acks[0]["ranges"])
            ae = 1 if qp.ack_eliciting(fr) else 0
            out.append(f"tx {r.t} {r.pn} {ae} {rs} {mode}"); meta.append(r)
    else:
        flush_rx()
    return out, meta
