"""Independent python transcription of RFC 9000 §16 / §19 (frames) used by the end-to-end trace
oracles. Written from the RFC text, not from the Rust code."""


class ParseError(Exception):
    pass


def varint(b, i):
    if i >= len(b):
        raise ParseError("eof in varint")
    w = 1 << (b[i] >> 6)
    if i + w > len(b):
        raise ParseError("eof in varint")
    v = int.from_bytes(b[i:i + w], "big") & ((1 << (8 * w - 2)) - 1)
    return v, i + w


def take(b, i, n):
    if i + n > len(b):
        raise ParseError("eof in bytes")
    return b[i:i + n], i + n


ACK_ELICITING_EXEMPT = {"PADDING", "ACK", "CONNECTION_CLOSE"}


def parse_frames(b):
    """-> list of frame dicts {type, ...}; PADDING runs are merged"""
    out = []
    i = 0
    n = len(b)
    while i < n:
        t0 = i
        ty, i = varint(b, i)
        if ty == 0x00:
            j = i
            while j < n and b[j] == 0:
                j += 1
            out.append({"type": "PADDING", "len": j - t0})
            i = j
        elif ty == 0x01:
            out.append({"type": "PING"})
        elif ty in (0x02, 0x03):
            largest, i = varint(b, i)
            delay, i = varint(b, i)
            cnt, i = varint(b, i)
            first, i = varint(b, i)
            if first > largest:
                raise ParseError("ack first range underflow")
            ranges = [(largest - first, largest)]
            smallest = largest - first
            for _ in range(cnt):
                gap, i = varint(b, i)
                ln, i = varint(b, i)
                if smallest < gap + 2:
                    raise ParseError("ack gap underflow")
                hi = smallest - gap - 2
                if ln > hi:
                    raise ParseError("ack range underflow")
                smallest = hi - ln
                ranges.append((smallest, hi))
            f = {"type": "ACK", "largest": largest, "delay": delay, "ranges": ranges}
            if ty == 0x03:
                e0, i = varint(b, i)
                e1, i = varint(b, i)
                ce, i = varint(b, i)
                f["ecn"] = (e0, e1, ce)
            out.append(f)
        elif ty == 0x04:
            sid, i = varint(b, i)
            code, i = varint(b, i)
            fs, i = varint(b, i)
            out.append({"type": "RESET_STREAM", "id": sid, "code": code, "final_size": fs})
        elif ty == 0x05:
            sid, i = varint(b, i)
            code, i = varint(b, i)
            out.append({"type": "STOP_SENDING", "id": sid, "code": code})
        elif ty == 0x06:
            off, i = varint(b, i)
            ln, i = varint(b, i)
            d, i = take(b, i, ln)
            out.append({"type": "CRYPTO", "offset": off, "len": ln, "data": bytes(d)})
        elif ty == 0x07:
            ln, i = varint(b, i)
            d, i = take(b, i, ln)
            out.append({"type": "NEW_TOKEN", "len": ln})
        elif 0x08 <= ty <= 0x0f:
            sid, i = varint(b, i)
            off = 0
            if ty & 0x04:
                off, i = varint(b, i)
            if ty & 0x02:
                ln, i = varint(b, i)
                d, i = take(b, i, ln)
            else:
                d = b[i:]
                i = n
            out.append({"type": "STREAM", "id": sid, "offset": off, "data": bytes(d), "fin": bool(ty & 1)})
        elif ty == 0x10:
            v, i = varint(b, i)
            out.append({"type": "MAX_DATA", "max": v})
        elif ty == 0x11:
            sid, i = varint(b, i)
            v, i = varint(b, i)
            out.append({"type": "MAX_STREAM_DATA", "id": sid, "max": v})
        elif ty in (0x12, 0x13):
            v, i = varint(b, i)
            out.append({"type": "MAX_STREAMS", "bidi": ty == 0x12, "max": v})
        elif ty == 0x14:
            v, i = varint(b, i)
            out.append({"type": "DATA_BLOCKED", "limit": v})
        elif ty == 0x15:
            sid, i = varint(b, i)
            v, i = varint(b, i)
            out.append({"type": "STREAM_DATA_BLOCKED", "id": sid, "limit": v})
        elif ty in (0x16, 0x17):
            v, i = varint(b, i)
            out.append({"type": "STREAMS_BLOCKED", "bidi": ty == 0x16, "limit": v})
        elif ty == 0x18:
            seq, i = varint(b, i)
            rpt, i = varint(b, i)
            ln, i = take(b, i, 1)
            cid, i = take(b, i, ln[0])
            tok, i = take(b, i, 16)
            out.append({"type": "NEW_CONNECTION_ID", "seq": seq, "retire_prior_to": rpt, "cid": bytes(cid).hex(), "token": bytes(tok).hex()})
        elif ty == 0x19:
            seq, i = varint(b, i)
            out.append({"type": "RETIRE_CONNECTION_ID", "seq": seq})
        elif ty in (0x1a, 0x1b):
            d, i = take(b, i, 8)
            out.append({"type": "PATH_CHALLENGE" if ty == 0x1a else "PATH_RESPONSE", "data": bytes(d).hex()})
        elif ty in (0x1c, 0x1d):
            code, i = varint(b, i)
            ft = None
            if ty == 0x1c:
                ft, i = varint(b, i)
            ln, i = varint(b, i)
            d, i = take(b, i, ln)
            out.append({"type": "CONNECTION_CLOSE", "app": ty == 0x1d, "code": code, "frame_type": ft, "reason": bytes(d)})
        elif ty == 0x1e:
            out.append({"type": "HANDSHAKE_DONE"})
        elif ty in (0x30, 0x31):
            if ty == 0x31:
                ln, i = varint(b, i)
                d, i = take(b, i, ln)
            else:
                i = n
            out.append({"type": "DATAGRAM"})
        else:
            # s2n extension frames and anything unknown: stop parsing this payload
            out.append({"type": "UNKNOWN", "tag": ty, "rest": len(b) - i})
            return out
    return out


def ack_eliciting(frames):
    return any(f["type"] not in ACK_ELICITING_EXEMPT for f in frames)


def congestion_controlled(frames):
    # RFC 9002 §2: packets containing only ACK frames are not counted toward congestion control limits... s2n:
    # in flight = ack-eliciting or contains PADDING
    return any(f["type"] not in ("ACK", "CONNECTION_CLOSE") for f in frames)


# header of a datagram's first packet (unprotected bits only)
def first_packet_kind(b):
    if not b:
        return "empty"
    if b[0] & 0x80:
        if len(b) >= 5 and b[1:5] == b"\0\0\0\0":
            return "version-negotiation"
        return ["initial", "0rtt", "handshake", "retry"][(b[0] >> 4) & 3]
    return "short"


def long_header_packets(b):
    """split a datagram into coalesced long-header packets using the unprotected Length fields;
    returns list of (kind, total_len). A short packet consumes the rest."""
    out = []
    i = 0
    try:
        while i < len(b):
            if not (b[i] & 0x80):
                out.append(("short", len(b) - i))
                break
            if len(b) - i >= 5 and b[i + 1:i + 5] == b"\0\0\0\0":
                out.append(("version-negotiation", len(b) - i))
                break
            kind = ["initial", "0rtt", "handshake", "retry"][(b[i] >> 4) & 3]
            j = i + 5
            dl = b[j]
            j += 1 + dl
            sl = b[j]
            j += 1 + sl
            if kind == "retry":
                out.append((kind, len(b) - i))
                break
            if kind == "initial":
                tl, j = varint(b, j)
                j += tl
            ln, j = varint(b, j)
            out.append((kind, j + ln - i))
            i = j + ln
    except (IndexError, ParseError):
        out.append(("garbage", len(b) - i))
    return out


# ---------------------------------------------------------------------------------------
# TLS 1.3 handshake messages carried in CRYPTO frames (RFC 9001 §4, RFC 8446 §4): only what is
# needed to read the peer's quic_transport_parameters extension (0x39) independently of s2n-quic.

TP_NAMES = {0x00: "original_destination_connection_id", 0x01: "max_idle_timeout", 0x02: "stateless_reset_token",
            0x03: "max_udp_payload_size", 0x04: "initial_max_data", 0x05: "initial_max_stream_data_bidi_local",
            0x06: "initial_max_stream_data_bidi_remote", 0x07: "initial_max_stream_data_uni", 0x08: "initial_max_streams_bidi",
            0x09: "initial_max_streams_uni", 0x0a: "ack_delay_exponent", 0x0b: "max_ack_delay", 0x0c: "disable_active_migration",
            0x0d: "preferred_address", 0x0e: "active_connection_id_limit", 0x0f: "initial_source_connection_id",
            0x10: "retry_source_connection_id", 0x20: "max_datagram_frame_size"}
TP_DEFAULTS = {"max_idle_timeout": 0, "max_udp_payload_size": 65527, "initial_max_data": 0, "initial_max_stream_data_bidi_local": 0,
               "initial_max_stream_data_bidi_remote": 0, "initial_max_stream_data_uni": 0, "initial_max_streams_bidi": 0,
               "initial_max_streams_uni": 0, "ack_delay_exponent": 3, "max_ack_delay": 25, "active_connection_id_limit": 2}
TP_BYTES = {0x00, 0x02, 0x0d, 0x0f, 0x10}


def parse_tp_block(b):
    d = dict(TP_DEFAULTS)
    i = 0
    while i < len(b):
        pid, i = varint(b, i)
        ln, i = varint(b, i)
        v, i = take(b, i, ln)
        name = TP_NAMES.get(pid)
        if name is None:
            continue
        if pid in TP_BYTES:
            d[name] = bytes(v).hex()
        elif pid == 0x0c:
            d[name] = True
        else:
            d[name], _ = varint(v, 0)
    return d


def tls_transport_params(stream):
    """stream: contiguous bytes of a CRYPTO stream from offset 0 -> dict or None"""
    i = 0
    try:
        while i + 4 <= len(stream):
            ty = stream[i]
            ln = int.from_bytes(stream[i + 1:i + 4], "big")
            body = stream[i + 4:i + 4 + ln]
            if len(body) < ln:
                return None
            i += 4 + ln
            j = 0
            if ty == 1:      # ClientHello
                j = 2 + 32
                j += 1 + body[j]
                j += 2 + int.from_bytes(body[j:j + 2], "big")
                j += 1 + body[j]
            elif ty == 8:    # EncryptedExtensions
                j = 0
            else:
                continue
            el = int.from_bytes(body[j:j + 2], "big")
            j += 2
            end = j + el
            while j + 4 <= end:
                et = int.from_bytes(body[j:j + 2], "big")
                ln2 = int.from_bytes(body[j + 2:j + 4], "big")
                if et == 0x39:
                    return parse_tp_block(body[j + 4:j + 4 + ln2])
                j += 4 + ln2
    except (IndexError, ParseError):
        return None
    return None


def tls_transport_params_raw(stream):
    """stream: contiguous bytes of a CRYPTO stream from offset 0 -> the raw bytes of the quic_transport_parameters
    extension (0x39) of the first ClientHello / EncryptedExtensions, or None (same walk as `tls_transport_params`;
    nothing is interpreted, so absent / repeated / malformed parameters stay visible to the caller)"""
    i = 0
    try:
        while i + 4 <= len(stream):
            ty = stream[i]
            ln = int.from_bytes(stream[i + 1:i + 4], "big")
            body = stream[i + 4:i + 4 + ln]
            if len(body) < ln:
                return None
            i += 4 + ln
            if ty == 1:      # ClientHello
                j = 2 + 32
                j += 1 + body[j]
                j += 2 + int.from_bytes(body[j:j + 2], "big")
                j += 1 + body[j]
            elif ty == 8:    # EncryptedExtensions
                j = 0
            else:
                continue
            el = int.from_bytes(body[j:j + 2], "big")
            j += 2
            end = j + el
            while j + 4 <= end:
                et = int.from_bytes(body[j:j + 2], "big")
                ln2 = int.from_bytes(body[j + 2:j + 4], "big")
                if et == 0x39:
                    if j + 4 + ln2 > len(body):
                        return None
                    return bytes(body[j + 4:j + 4 + ln2])
                j += 4 + ln2
    except IndexError:
        return None
    return None


def long_header(b):
    """unprotected fields of the first long-header packet of a datagram (RFC 9000 §17.2): dict with kind, version,
    dcid, scid (bytes) and, for Initial packets, token (bytes, possibly cut short when only a prefix of the datagram is
    given: then `token_len` is still exact); None when `b` does not start with a complete long header"""
    try:
        if not b or not (b[0] & 0x80) or len(b) < 7:
            return None
        version = int.from_bytes(b[1:5], "big")
        if version == 0:
            return None
        kind = ["initial", "0rtt", "handshake", "retry"][(b[0] >> 4) & 3]
        j = 5
        dl = b[j]
        dcid, j = take(b, j + 1, dl)
        sl = b[j]
        scid, j = take(b, j + 1, sl)
        out = {"kind": kind, "version": version, "dcid": bytes(dcid), "scid": bytes(scid)}
        if kind == "initial":
            tl, j = varint(b, j)
            out["token_len"] = tl
            out["token"] = bytes(b[j:j + tl])
        return out
    except (IndexError, ParseError):
        return None
