"""ops + property oracle for the `dc_packets` component (vh-dc) / Lean `dc_packets` driver.

The oracle is the executable twin of C18's packet half, evaluated on the implementation's outputs only:
  * round trip: every field handed to a real encoder comes back from the real decoder, the cleartext
    header bytes equal an independently written layout (`layout_*` below, from the dissector's field
    order), the payload decrypts to what was sealed, a wrong key never opens it;
  * no decoder panics on any byte string;
  * every mutation of a sealed packet is rejected (at the decode layer or by authentication).
"""
STATELESS = True

V = [0, 1, 63, 64, 16383, 16384, 2**30 - 1, 2**30, 2**62 - 1]          # varint length-class boundaries
SIZES = [0, 1, 15, 16, 17, 1200, 8900, 65000]
KINDS = ["stream", "datagram", "control", "ups", "stale", "replay"]


# ------------------------------------------------------------------------------------------------
# independent layout (third implementation; field order as the Wireshark dissector walks it)
# ------------------------------------------------------------------------------------------------

def vint(v):
    if v <= 63:
        return bytes([v])
    if v <= 16383:
        return bytes([0x40 | v >> 8, v & 255])
    if v <= 2**30 - 1:
        return bytes([0x80 | v >> 24, v >> 16 & 255, v >> 8 & 255, v & 255])
    return bytes([0xc0 | v >> 56] + [(v >> s) & 255 for s in (48, 40, 32, 24, 16, 8, 0)])


def tok_bytes(s):
    if s == "-":
        return b""
    if s.startswith("@"):
        ln, seed = s[1:].split(",")
        ln, seed = int(ln), int(seed)
        return bytes((seed + 7 * i + 13 * (i // 256)) % 256 for i in range(ln))
    return bytes.fromhex(s)


def opt(s):
    return None if s == "-" else int(s)


def parse_spec(t):
    """spec tokens -> dict (or None)"""
    k = t[0]
    try:
        if k == "stream":
            (_, suite, mode, cid, kid, sqid, qid, rel, bidi, pn, rpn, nect, off, fin, ah, cd, pl) = t
            return dict(kind=k, suite=suite, mode=mode, cid=cid, kid=int(kid), sqid=opt(sqid), qid=int(qid), rel=int(rel),
                        bidi=int(bidi), pn=int(pn), rpn=int(rpn), nect=int(nect), off=int(off), fin=opt(fin),
                        ah=tok_bytes(ah), cd=tok_bytes(cd), pl=tok_bytes(pl))
        if k == "datagram":
            (_, suite, cid, kid, port, pn, nect, ah, cd, pl) = t
            return dict(kind=k, suite=suite, cid=cid, kid=int(kid), port=int(port), pn=opt(pn), nect=opt(nect),
                        ah=tok_bytes(ah), cd=tok_bytes(cd), pl=tok_bytes(pl))
        if k == "control":
            (_, suite, cid, kid, sid, sqid, pn, ah, cd) = t
            return dict(kind=k, suite=suite, cid=cid, kid=int(kid), sid=None if sid == "-" else tuple(int(x) for x in sid.split(",")),
                        sqid=opt(sqid), pn=int(pn), ah=tok_bytes(ah), cd=tok_bytes(cd), pl=b"")
        if k == "ups":
            (_, suite, cid, wv, qid) = t
            return dict(kind=k, suite=suite, cid=cid, wv=int(wv), qid=opt(qid), v=None, pl=b"")
        if k in ("stale", "replay"):
            (_, suite, cid, wv, qid, v) = t
            return dict(kind=k, suite=suite, cid=cid, wv=int(wv), qid=opt(qid), v=int(v), pl=b"")
    except Exception:
        return None
    return None


def layout(p):
    """cleartext header bytes (everything before payload / auth tag) + dict field -> (start, end)"""
    k = p["kind"]
    out = bytearray()
    pos = {}

    def put(name, b):
        pos[name] = (len(out), len(out) + len(b))
        out.extend(b)

    if k == "stream":
        retx = p["mode"].startswith("retx")
        recovery = p["mode"] in ("probe", "retx-r")
        tag = (0x20 if p["sqid"] is not None else 0) | (0x10 if recovery else 0) | (0x08 if p["cd"] else 0) \
            | (0x04 if p["fin"] is not None else 0) | (0x02 if p["ah"] else 0)
        put("tag", bytes([tag]))
        put("cid", bytes.fromhex(p["cid"]))
        put("kid", vint(p["kid"]))
        put("wv", b"\0")
        put("unused", b"\0\0")
        put("sid", vint(p["qid"] << 2 | p["rel"] << 1 | p["bidi"]))
        if p["sqid"] is not None:
            put("sqid", vint(p["sqid"]))
        put("pn", vint(p["pn"]))
        if p["rel"]:
            put("rel", (((p["rpn"] - p["pn"]) % 2**32) if retx else 0).to_bytes(4, "big"))
        put("nect", vint(p["nect"]))
        put("off", vint(p["off"]))
        if p["fin"] is not None:
            put("fin", vint(p["fin"]))
        if p["cd"]:
            put("cdl", vint(len(p["cd"])))
        put("pll", vint(len(p["pl"])))
        if p["ah"]:
            put("ahl", vint(len(p["ah"])))
            put("ah", p["ah"])
        if p["cd"]:
            put("cd", p["cd"])
    elif k == "datagram":
        tag = 0x40 | (0x08 if p["nect"] is not None else 0) | (0x04 if p["pn"] is not None else 0) | (0x02 if p["ah"] else 0)
        put("tag", bytes([tag]))
        put("cid", bytes.fromhex(p["cid"]))
        put("kid", vint(p["kid"]))
        put("wv", b"\0")
        put("port", p["port"].to_bytes(2, "big"))
        if p["pn"] is not None or p["nect"] is not None:
            put("pn", vint(p["pn"] or 0))
        put("pll", vint(len(p["pl"])))
        if p["nect"] is not None:
            put("nect", vint(p["nect"]))
            put("cdl", vint(len(p["cd"])))
        if p["ah"]:
            put("ahl", vint(len(p["ah"])))
            put("ah", p["ah"])
        if p["nect"] is not None:
            put("cd", p["cd"])
    elif k == "control":
        tag = 0x50 | (0x08 if p["sqid"] is not None else 0) | (0x04 if p["sid"] is not None else 0) | (0x02 if p["ah"] else 0)
        put("tag", bytes([tag]))
        put("cid", bytes.fromhex(p["cid"]))
        put("kid", vint(p["kid"]))
        put("wv", b"\0")
        if p["sid"] is not None:
            q, r, b = p["sid"]
            put("sid", vint(q << 2 | r << 1 | b))
        if p["sqid"] is not None:
            put("sqid", vint(p["sqid"]))
        put("pn", vint(p["pn"]))
        put("cdl", vint(len(p["cd"])))
        if p["ah"]:
            put("ahl", vint(len(p["ah"])))
            put("ah", p["ah"])
        put("cd", p["cd"])
    else:
        base = {"ups": 0x60, "stale": 0x61, "replay": 0x62}[k]
        put("tag", bytes([base | (0x04 if p["qid"] is not None else 0)]))
        put("cid", bytes.fromhex(p["cid"]))
        put("wv", bytes([p["wv"]]))
        if p["qid"] is not None:
            put("qid", vint(p["qid"]))
        if k != "ups":
            put("v", vint(p["v"]))
    return bytes(out), pos


def field_at(p, idx):
    hdr, pos = layout(p)
    for name, (a, b) in pos.items():
        if a <= idx < b:
            return name
    if idx < len(hdr) + len(p["pl"]):
        return "payload"
    return "auth-tag"


# ------------------------------------------------------------------------------------------------
# generator
# ------------------------------------------------------------------------------------------------

def hexs(b):
    return bytes(b).hex() if b else "-"


def rvar(rng):
    c = rng.random()
    if c < 0.5:
        return rng.choice(V)
    if c < 0.7:
        return max(0, min(2**62 - 1, rng.choice(V) + rng.randrange(-2, 3)))
    return rng.getrandbits(rng.choice([3, 6, 8, 14, 16, 30, 32, 48, 62]))


def rbytes(rng, n):
    return bytes(rng.getrandbits(8) for _ in range(n))


def rblob(rng, sizes=(0, 0, 1, 3, 15, 16, 17, 40)):
    n = rng.choice(sizes)
    return hexs(rbytes(rng, n))


def rpayload(rng, big=False):
    n = rng.choice(SIZES if big else [0, 1, 15, 16, 17, 33])
    if n > 64:
        return f"@{n},{rng.randrange(256)}"
    return hexs(rbytes(rng, n))


def rcid(rng):
    return rbytes(rng, 16).hex()


def rsuite(rng):
    return rng.choice(["128", "256"])


def spec_stream(rng, big=False, mode=None):
    mode = mode or rng.choice(["app", "app", "app", "probe", "retx-s", "retx-r"])
    rel = 1 if mode.startswith("retx") and rng.random() < 0.95 else rng.randrange(2)
    pn = rvar(rng)
    if mode.startswith("retx"):
        c = rng.random()
        if c < 0.8:
            rpn = min(2**62 - 1, pn + rng.choice([1, 2, 255, 256, 65535, 2**24, 2**32 - 1]))
        elif c < 0.9:
            rpn = pn                                    # degenerate retransmission (never sent by the sender)
        else:
            rpn = rvar(rng)                             # may be older / too far: retransmit must refuse
    else:
        rpn = 0
    qid = min(rvar(rng), 2**60 - 1) if rng.random() < 0.9 else rng.choice([2**60 - 1, 2**60, 2**61])
    sqid = "-" if rng.random() < 0.5 else str(rvar(rng))
    fin = "-" if rng.random() < 0.5 else str(rvar(rng))
    pl = "-" if mode == "probe" else rpayload(rng, big)
    return ["stream", rsuite(rng), mode, rcid(rng), str(rvar(rng)), sqid, str(qid), str(rel), str(rng.randrange(2)), str(pn), str(rpn),
            str(rvar(rng)), str(rvar(rng)), fin, rblob(rng), rblob(rng), pl]


def spec_datagram(rng, big=False):
    pn = None if rng.random() < 0.3 else rvar(rng)
    nect = None if (pn is None or rng.random() < 0.5) else rvar(rng)
    cd = rblob(rng) if nect is not None else "-"
    return ["datagram", rsuite(rng), rcid(rng), str(rvar(rng)), str(rng.choice([0, 1, 255, 256, 443, 65535, rng.randrange(65536)])),
            "-" if pn is None else str(pn), "-" if nect is None else str(nect), rblob(rng), cd, rpayload(rng, big)]


def spec_control(rng):
    sid = "-" if rng.random() < 0.4 else f"{min(rvar(rng), 2**60 - 1)},{rng.randrange(2)},{rng.randrange(2)}"
    sqid = "-" if rng.random() < 0.5 else str(rvar(rng))
    return ["control", rsuite(rng), rcid(rng), str(rvar(rng)), sid, sqid, str(rvar(rng)), rblob(rng), rblob(rng, (0, 1, 5, 16, 40, 200))]


def spec_secret(rng, kind=None, wv_ok=True):
    kind = kind or rng.choice(["ups", "stale", "replay"])
    qid = "-" if rng.random() < 0.5 else str(rvar(rng))
    wv = "0" if (wv_ok or rng.random() < 0.9) else str(rng.choice([1, 2, 255]))
    t = [kind, rsuite(rng), rcid(rng), wv, qid]
    if kind != "ups":
        t.append(str(rvar(rng)))
    return t


def spec_any(rng, big=False):
    k = rng.choice(KINDS)
    if k == "stream":
        return spec_stream(rng, big)
    if k == "datagram":
        return spec_datagram(rng, big)
    if k == "control":
        return spec_control(rng)
    return spec_secret(rng, k)


def boundary_specs():
    """one-at-a-time variation of every varint field over the length-class boundaries, payload sizes"""
    cid = "000102030405060708090a0b0c0d0e0f"
    out = []
    base = ["stream", "128", "app", cid, "1", "-", "3", "1", "1", "5", "0", "2", "7", "-", "-", "-", "aabb"]
    for idx in (4, 5, 9, 11, 12, 13):
        for v in V:
            t = list(base)
            t[idx] = str(v)
            out.append(t)
    for v in V + [2**60 - 1]:
        t = list(base)
        t[6] = str(min(v, 2**60 - 1))
        out.append(t)
    for n in SIZES:
        for suite in ("128", "256"):
            t = list(base)
            t[1] = suite
            t[16] = f"@{n},{n % 251}" if n else "-"
            out.append(t)
            out.append(["datagram", suite, cid, "9", "443", "4", "-", "-", "-", f"@{n},{n % 251}" if n else "-"])
    for n in (0, 1, 63, 64, 300):
        t = list(base)
        t[14] = f"@{n},1" if n else "-"
        t[15] = f"@{n},2" if n else "-"
        out.append(t)
        out.append(["control", "256", cid, "2", "3,1,1", "6", "8", f"@{n},1" if n else "-", f"@{n},2" if n else "-"])
        out.append(["datagram", "128", cid, "2", "1", "4", "6", f"@{n},1" if n else "-", f"@{n},2" if n else "-", "00"])
    for mode, rpn in (("probe", "0"), ("retx-s", "6"), ("retx-r", "6"), ("retx-r", str(5 + 2**32 - 1)), ("retx-s", "5"), ("retx-r", "4"),
                      ("retx-r", str(5 + 2**32))):
        t = list(base)
        t[2] = mode
        t[10] = rpn
        if mode == "probe":
            t[16] = "-"
        out.append(t)
    t = list(base)
    t[2] = "retx-r"
    t[7] = "0"
    t[10] = "9"
    out.append(t)                                                       # unreliable stream: retransmit refuses
    dbase = ["datagram", "256", cid, "1", "0", "-", "-", "-", "-", "0102"]
    out.append(dbase)
    for v in V:
        for idx in (3, 5):
            t = list(dbase)
            t[idx] = str(v)
            out.append(t)
        t = list(dbase)
        t[5] = "1"
        t[6] = str(v)
        out.append(t)
    cbase = ["control", "128", cid, "1", "-", "-", "2", "-", "c0ffee"]
    out.append(cbase)
    for v in V:
        for idx in (3, 5, 6):
            t = list(cbase)
            t[idx] = str(v)
            out.append(t)
        t = list(cbase)
        t[4] = f"{min(v, 2**60 - 1)},1,0"
        out.append(t)
    for k in ("ups", "stale", "replay"):
        for q in ["-"] + [str(v) for v in V]:
            for v in ([None] if k == "ups" else V):
                t = [k, "128", cid, "0", q]
                if v is not None:
                    t.append(str(v))
                out.append(t)
        out.append([k, "256", cid, "1", "-"] + ([] if k == "ups" else ["5"]))      # unsupported wire version
    return out


def structured_bytes(rng):
    """byte strings that reach deep into the decoders: valid headers with random / cut tails"""
    t = spec_any(rng)
    p = parse_spec(t)
    hdr, _ = layout(p)
    body = hdr + rbytes(rng, len(p["pl"])) + rbytes(rng, 16)
    c = rng.random()
    if c < 0.35:
        return body[: rng.randrange(len(body) + 1)]
    if c < 0.5:
        return body + rbytes(rng, rng.randrange(1, 20))
    if c < 0.8:
        b = bytearray(body)
        for _ in range(rng.choice([1, 1, 2, 4])):
            b[rng.randrange(len(b))] = rng.getrandbits(8)
        return bytes(b)
    return body


def gen(rng, n, tier):
    ops = []
    thorough = tier == "thorough"
    # 1. boundary round trips
    for t in boundary_specs():
        ops.append("rt " + " ".join(t))
    # 2. every byte position x {low bit, high bit, 0x00, 0xff} on valid packets of every kind
    npk = 200 if thorough else 10
    masks = ["x1", "x128", "s0", "s255", "x16"]
    makers = [lambda: spec_stream(rng, mode="app"), lambda: spec_stream(rng, mode="probe"), lambda: spec_stream(rng, mode="retx-s"),
              lambda: spec_stream(rng, mode="retx-r"), lambda: spec_datagram(rng), lambda: spec_control(rng),
              lambda: spec_secret(rng, "ups"), lambda: spec_secret(rng, "stale"), lambda: spec_secret(rng, "replay")]
    for mk in makers:
        for _ in range(npk):
            t = mk()
            for m in masks:
                ops.append(f"mutscan {m} " + " ".join(t))
            # every single bit of the tag byte (each is a flag that changes the layout or the meaning)
            for bit in range(8):
                ops.append(f"mut x0:{1 << bit} " + " ".join(t))
    # datagrams that are both connected and ack-eliciting: IS_CONNECTED does not change the layout there
    for _ in range(npk):
        t = spec_datagram(rng)
        if t[5] == "-":
            t[5] = str(rvar(rng))
        if t[6] == "-":
            t[6] = str(rvar(rng))
        for bit in range(8):
            ops.append(f"mut x0:{1 << bit} " + " ".join(t))
    # a packet with every optional field, a 1200-byte payload
    cid = "f0e1d2c3b4a5968778695a4b3c2d1e0f"
    full = ["stream", "256", "app", cid, "16384", "64", "77", "1", "1", "1000", "0", "63", "16383", "20000", "aa" * 5, "bb" * 7, "@1200,9"]
    for m in masks:
        ops.append(f"mutscan {m} " + " ".join(full))
    # all 255 alternatives per position
    for mk in makers:
        for _ in range(8 if thorough else 1):
            t = mk()
            for x in (range(1, 256) if thorough else rng.sample(range(1, 256), 12)):
                ops.append(f"mutscan x{x} " + " ".join(t))
    # 3. single / multi byte mutations on random packets incl. big payloads
    for _ in range(n // 4):
        t = spec_any(rng, big=rng.random() < 0.1)
        k = rng.choice([1, 1, 1, 2, 3, 8])
        ms = []
        # distinct positions: the model does not know ciphertext / tag bytes, so two mutations of one
        # such byte could cancel in the model and not in the implementation
        p = parse_spec(t)
        total = len(layout(p)[0]) + len(p["pl"]) + 16
        for idx in rng.sample(range(total), min(k, total)):
            idx += total * rng.randrange(3)
            if rng.random() < 0.7:
                ms.append(f"x{idx}:{rng.choice([1, 128, 255, rng.randrange(1, 256)])}")
            else:
                ms.append(f"s{idx}:{rng.choice([0, 255, rng.randrange(256)])}")
        ops.append("mut " + ",".join(ms) + " " + " ".join(t))
    # 4. random round trips (occasionally an unsupported wire version)
    for _ in range(n // 4):
        t = spec_any(rng, big=rng.random() < 0.05)
        if t[0] in ("ups", "stale", "replay") and rng.random() < 0.1:
            t[3] = str(rng.choice([1, 255]))
        ops.append("rt " + " ".join(t))
    # 5. arbitrary bytes through every decoder
    for first in range(256):
        ops.append("fuzz " + hexs(bytes([first]) + rbytes(rng, rng.choice([0, 16, 19, 40, 60]))))
    ops.append("fuzz -")
    nf = 400000 if thorough else 10000          # x 8 decoders each
    for i in range(nf):
        if i % 2 == 0:
            b = structured_bytes(rng)
            if len(b) > 300:
                b = b[:300]
        else:
            first = rng.choice([rng.randrange(0x80), rng.randrange(0x68), rng.getrandbits(8)])
            b = bytes([first]) + rbytes(rng, rng.choice([0, 1, 5, 17, 18, 20, 33, 34, 40, 64, 100]))
        if rng.random() < 0.8:
            ops.append("fuzz " + hexs(b))
        else:
            ops.append(f"dec {rng.choice(KINDS + ['any', 'sc'])} {rsuite(rng)} " + hexs(b))
    # 6. truncated MAC tags
    for which in ("stream", "secret"):
        for suite in ("128", "256"):
            for tl in list(range(0, 20)) + [31, 32, 33, 48, 64]:
                ops.append(f"mac {which} {suite} {hexs(rbytes(rng, rng.choice([0, 1, 18, 40])))} {tl}")
    return ops


# ------------------------------------------------------------------------------------------------
# oracle
# ------------------------------------------------------------------------------------------------

def kv(out):
    d = {}
    for tok in out.split(" "):
        if "=" in tok:
            a, b = tok.split("=", 1)
            d.setdefault(a, b)
    return d


def sig_kind(p):
    if p["kind"] == "stream" and p["mode"] != "app":
        return "stream-" + p["mode"].split("-")[0]
    return {"ups": "unknown_path_secret", "stale": "stale_key", "replay": "replay_detected"}.get(p["kind"], p["kind"])


def expect_fields(p):
    """decoded rendering expected for a spec (independent of the implementation)"""
    k = p["kind"]
    hdr, _ = layout(p)
    o = lambda v: "-" if v is None else str(v)
    if k == "stream":
        retx = p["mode"].startswith("retx")
        pn = p["rpn"] if retx else p["pn"]
        return (f"dec=stream tag={hdr[0]} cid={p['cid']} kid={p['kid']} wv=0 sqid={o(p['sqid'])} sid={p['qid']},{p['rel']},{p['bidi']} "
                f"pn={pn} retx={1 if pn != p['pn'] else 0} nect={p['nect']} off={p['off']} fin={o(p['fin'])} ah={hexs(p['ah'])} "
                f"cd={hexs(p['cd'])} pll={len(p['pl'])}")
    if k == "datagram":
        return (f"dec=datagram tag={hdr[0]} cid={p['cid']} kid={p['kid']} wv=0 port={p['port']} pn={p['pn'] or 0} nect={o(p['nect'])} "
                f"ah={hexs(p['ah'])} cd={hexs(p['cd'])} pll={len(p['pl'])}")
    if k == "control":
        sid = "-" if p["sid"] is None else ",".join(str(x) for x in p["sid"])
        return (f"dec=control tag={hdr[0]} cid={p['cid']} kid={p['kid']} wv=0 sid={sid} sqid={o(p['sqid'])} pn={p['pn']} "
                f"ah={hexs(p['ah'])} cd={hexs(p['cd'])}")
    s = f"dec={k} cid={p['cid']} wv={p['wv']} qid={o(p['qid'])}"
    if k != "ups":
        s += f" v={p['v']}"
    return s


def detail(p, idx, mask=None):
    """name the field a tolerated mutation hit, when the oracle can tell"""
    f = field_at(p, idx)
    if p["kind"] == "ups" and f == "qid":
        return ":queue-id"
    if p["kind"] == "stream" and p["mode"].startswith("retx") and f == "tag":
        return ":recovery-bit"
    return ""


def oracle(ops, outs):
    bad = []
    for i, (op, out) in enumerate(zip(ops, outs)):
        t = op.split(" ")
        o = out.split(" ")
        if o and o[0] == "panic":
            kind = t[1] if t[0] in ("dec",) else (t[2] if t[0] in ("mut", "mutscan") and len(t) > 2 else (t[1] if len(t) > 1 and t[1] in KINDS else "any"))
            bad.append((i, f"dc:panic:{kind}", f"{op[:200]} panicked: {out}"))
            continue
        if t[0] == "rt":
            p = parse_spec(t[1:])
            if p is None or out == "bad-op":
                continue
            sk = sig_kind(p)
            if out.startswith("err retransmit:"):
                legit = (not p["rel"]) or p["rpn"] < p["pn"] or p["rpn"] - p["pn"] >= 2**32
                if not legit:
                    bad.append((i, f"dc:roundtrip:{sk}", f"{op[:200]}: retransmit refused a valid retransmission: {out}"))
                continue
            d = kv(out)
            hdr, _ = layout(p)
            n = len(hdr) + len(p["pl"]) + 16
            if p["kind"] in ("ups", "stale", "replay") and p["wv"] != 0:
                if "dec=err:invariant" not in out:
                    bad.append((i, f"dc:roundtrip:{sk}", f"{op[:200]}: unsupported wire version not refused: {out[:200]}"))
                continue
            want_hdr = hexs(hdr)
            if d.get("n") != str(n) or d.get("hdr") != want_hdr:
                bad.append((i, f"dc:roundtrip:{sk}", f"{op[:200]}: wire header differs from the layout: expected n={n} hdr={want_hdr[:120]}, "
                            f"implementation gave {out[:240]}"))
                continue
            degenerate = p["kind"] == "stream" and p["mode"].startswith("retx") and p["rpn"] == p["pn"]
            want = expect_fields(p) + f" used={n}"
            if degenerate:
                continue
            if want + " auth=ok " not in out + " ":
                bad.append((i, f"dc:roundtrip:{sk}", f"{op[:200]}: expected `{want[:300]} auth=ok`, implementation gave {out[:400]}"))
                continue
            if d.get("pl") != hexs(p["pl"]):
                bad.append((i, f"dc:roundtrip:{sk}", f"{op[:200]}: payload did not decrypt to what was sealed"))
                continue
            if d.get("wrong") in (None, "ok"):
                bad.append((i, f"dc:wrong-key-accepted:{sk}", f"{op[:200]}: a wrong key opened the packet: {out[-80:]}"))
        elif t[0] == "mut":
            p = parse_spec(t[2:])
            if p is None or not out.startswith("ok "):
                continue
            d = kv(out)
            r = d.get("result", "")
            if r == "same" or r.startswith("decode:") or r.startswith("auth:"):
                continue
            n = int(d["n"])
            idxs = [int(m[1:].split(":")[0]) % n for m in t[1].split(",")]
            region = d.get("region", "?").split(",")[0]
            det = detail(p, idxs[0]) if len(set(field_at(p, j) for j in idxs)) == 1 else ""
            bad.append((i, f"dc:tamper-accepted:{sig_kind(p)}:{region}{det}", f"{op[:240]}: mutated packet was acted upon: {out[:200]}"))
        elif t[0] == "mutscan":
            p = parse_spec(t[2:])
            if p is None or not out.startswith("ok "):
                continue
            d = kv(out)
            n = int(d["n"])
            acc = [] if d["accepted"] == "-" else d["accepted"].split(",")
            if int(d["decode"]) + int(d["auth"]) + len(acc) != n:
                bad.append((i, f"dc:tamper-accepted:{sig_kind(p)}:count", f"{op[:200]}: positions do not add up: {out[:200]}"))
            for a in acc:
                idx, region = a.split(":")
                bad.append((i, f"dc:tamper-accepted:{sig_kind(p)}:{region}{detail(p, int(idx))}",
                            f"{op[:240]}: byte {idx} ({field_at(p, int(idx))}) changed with {t[1]} and the packet was still acted upon"))
        elif t[0] in ("dec", "fuzz"):
            # nothing the sealer did not produce may authenticate
            for tok in o[1:]:
                if tok.endswith(":ok") or tok == "auth=ok":
                    kind = tok.split("=")[1].split(":")[0] if t[0] == "fuzz" else kv(out).get("dec", "?")
                    bad.append((i, f"dc:forged-accepted:{kind}", f"{op[:200]}: bytes nobody sealed were authenticated: {out[:200]}"))
            if not (out.startswith("ok") or out.startswith("err ") or out == "bad-op"):
                bad.append((i, "dc:panic:any", f"{op[:200]} -> {out[:200]}"))
        elif t[0] == "mac":
            d = kv(out)
            want = "ok" if int(t[4]) == 16 else "InvalidTag"
            if d.get("full") != "ok" or d.get("cut") != want or d.get("tag") != "16":
                bad.append((i, f"dc:mac-length:{t[1]}", f"{op[:120]}: a {t[4]}-byte tag must verify as {want}: {out}"))
    return bad


def nontrivial(op, out):
    if not out.startswith("ok"):
        return None
    t = op.split(" ")
    if t[0] in ("fuzz", "dec") and ":" not in out and "dec=" not in out:
        return None
    return op[:400]
