"""ops for the `txpn` component: `TxPacketNumbers` + the packet-number choice of the packet spaces'
`on_transmit` (s2n-quic-transport, private: the Rust side must be the in-crate hook / an e2e trace).
Stateful: independent histories are separated by `reset`.

The oracle is the executable twin of `txpn_strictly_increasing`, `txpn_skip_never_sent`,
`txpn_ack_unsent_rejected` on whatever produced the output lines."""
import re


def gen(rng, n, tier):
    ops = []
    hist = max(1, n // 40)
    for _ in range(hist):
        ops.append("reset")
        nxt = 0            # generator's own guess of `next` (only used to aim the ACKs)
        sent = []
        for _ in range(rng.randrange(5, 60)):
            c = rng.random()
            if c < 0.6 or not sent:
                p = int(rng.random() < 0.2)
                z = int(rng.random() < 0.25)
                e = int(rng.random() < 0.9)
                ops.append(f"transmit {p} {z} {e}")
                if e:
                    nxt += 1 + p + z   # upper estimate
                    sent.append(nxt - 1)
            else:
                k = rng.random()
                if k < 0.7:
                    hi = rng.choice(sent)
                    lo = max(0, hi - rng.randrange(0, 4))
                    rs = [f"{lo}-{hi}"]
                    if lo > 2 and rng.random() < 0.4:
                        b = rng.randrange(0, lo - 1)
                        rs.append(f"{max(0, b - rng.randrange(0, 3))}-{b}")
                elif k < 0.85:
                    hi = nxt + rng.randrange(0, 3)       # at / above next: never sent
                    rs = [f"{max(0, hi - 1)}-{hi}"]
                else:
                    hi = rng.randrange(0, nxt + 1)
                    rs = [f"0-{hi}"]                      # wide: likely to contain a skipped number
                low = rng.randrange(0, nxt + 2)
                ops.append(f"ack {rng.randrange(0, 10**6)} {','.join(rs)} {low}")
    return ops[1:] if ops and ops[0] == "reset" else ops


def _state(out):
    m = re.search(r"next=(\d+) la=(\d+) at=(\d+) skip=(\d+|-)", out)
    if not m:
        return None
    return int(m.group(1)), int(m.group(2)), int(m.group(3)), (None if m.group(4) == "-" else int(m.group(4)))


def oracle(ops, outs):
    bad = []
    last_sent = -1
    sent = set()
    skips = set()
    nxt = 0
    skips_live = set()
    for i, (op, out) in enumerate(zip(ops, outs)):
        t = op.split()
        o = out.split()
        if t[0] == "reset":
            last_sent, sent, skips, nxt, skips_live = -1, set(), set(), 0, set()
            continue
        if o and o[0] == "panic":
            bad.append((i, f"txpn:panic:{t[0]}", f"{op} panicked: {out}"))
            continue
        st = _state(out)
        if t[0] == "transmit" and len(o) > 2 and o[1] == "sent":
            pn = int(o[2])
            if pn <= last_sent:
                bad.append((i, "txpn:not-increasing", f"{op}: packet number {pn} sent after {last_sent}"))
            if pn in skips:
                bad.append((i, "txpn:skipped-number-sent", f"{op}: {pn} was recorded as the skipped packet number earlier"))
            last_sent = max(last_sent, pn)
            sent.add(pn)
        if t[0] == "ack" and o[:2] == ["ok", "acked"]:
            for r in t[2].split(","):
                lo, _, hi = r.partition("-")
                hi = int(hi or lo)
                if hi >= nxt:
                    bad.append((i, "txpn:unsent-ack-accepted", f"{op}: acknowledges {hi} but next packet number is {nxt}"))
                if any(int(lo) <= s <= hi for s in skips_live):
                    bad.append((i, "txpn:skipped-ack-accepted", f"{op}: acknowledges the skipped packet number"))
        if st:
            nxt = st[0]
            if st[3] is not None:
                skips.add(st[3])
                if st[3] in sent:
                    bad.append((i, "txpn:skipped-number-sent", f"{op}: skip_packet_number {st[3]} was transmitted"))
            skips_live = {st[3]} if st[3] is not None else set()
            if st[1] > st[0]:
                bad.append((i, "txpn:largest-acked-beyond-next", f"{op}: largest_sent_acked {st[1]} > next {st[0]}"))
    return bad



def nontrivial(op, out):
    return (op, out) if out.startswith("ok sent") or out.startswith("ok acked") else None
