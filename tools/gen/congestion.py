"""ops for the `congestion` component (vh-core: the real CubicCongestionController / BbrCongestionController
behind the `CongestionController` trait) and the python twin of property C10, evaluated on the
IMPLEMENTATION's outputs after every event.

Stateful: histories are separated by `reset`; every history starts with `new <cubic|bbr> <mds>`.
The generator plays the recovery manager: it remembers what it sent and never acknowledges / loses /
discards more than is outstanding (the caller contract of the trait); time never runs backwards.
It cannot see the window, so it keeps a crude estimate of it only to shape the bursts (sends up to
the estimated window, sometimes deliberately beyond: PTO probes ignore the window).

Signatures (stable; known_findings.json matches on them):
  cc:<ctrl>:panic:<op>             the real code panicked although the caller contract was respected
  cc:<ctrl>:cwnd-below-min         cwnd < 2*mds (cubic) / 4*mds (bbr) with the CURRENT mds
  cc:<ctrl>:cwnd-overflow          a panic whose message is an arithmetic overflow (the harness is a debug build: a
                                   wrapping `+=` on the window panics instead of wrapping; a window that SATURATES at
                                   u32::MAX — CUBIC's `f32 as u32` — is not an overflow)
  cc:<ctrl>:bif-overflow           an arithmetic-overflow panic on a send although sent - acked - lost - discarded <= u32::MAX
  cc:<ctrl>:bif-mismatch           bytes_in_flight != sum(sent) - sum(acked) - sum(lost) - sum(discarded)
  cc:<ctrl>:limited-flag           is_congestion_limited() != (cwnd - bif < mds)
  cc:<ctrl>:fast-rtx-after-send    requires_fast_retransmission() still set after a congestion-controlled send
  cc:cubic:loss-increased-cwnd     a loss / ECN event made the window larger
  cc:cubic:second-reduction-in-recovery   the window shrank again although no packet sent after the
                                   start of the current recovery period has been acknowledged yet
  cc:cubic:grew-while-app-limited  an ACK grew the window although the last send left it application-limited
                                   AND under-utilised (the code's own definition: more than 3 datagrams of
                                   room and, in slow start, less than half the window in use)
  cc:cubic:persistent-congestion-not-min   after persistent congestion cwnd != 2*mds or not back in slow start
"""
import re

MDS = [1200, 1350, 1472, 4000, 9000]
U32 = 2**32 - 1
MINW = {"cubic": 2, "bbr": 4}


def initial_window(mds):
    return min(10 * mds, max(14720, 2 * mds))


class Sender:
    """what recovery::Manager would know: outstanding packets, the clock"""

    def __init__(self, rng, ctrl, mds, now=0):
        self.rng = rng
        self.ctrl = ctrl
        self.mds = mds
        self.now = now
        self.out = []            # [bytes, time_sent]
        self.est = initial_window(mds)   # crude window estimate (shaping only)
        self.ops = [f"new {ctrl} {mds}"]
        self.rtt = rng.choice([40, 300, 1000, 8000, 20000, 50000, 100000, 300000, 2000000])
        self.app = 0

    def bif(self):
        return sum(b for b, _ in self.out)

    def tick(self, lo, hi):
        self.now += self.rng.randrange(lo, hi + 1)

    def send(self, size, app=None):
        a = self.app if app is None else app
        self.ops.append(f"sent {size} {self.now} {a}")
        if size > 0:
            self.out.append([size, self.now])

    def size(self):
        r = self.rng.random()
        if r < 0.7:
            return self.mds
        if r < 0.9:
            return self.rng.randrange(40, self.mds + 1)
        if r < 0.97:
            return self.rng.randrange(1, 40)
        return 0

    def burst(self, gated=True, limit=64):
        k = 0
        while k < limit:
            sz = self.size()
            if gated and self.bif() + sz > self.est:
                break
            self.send(sz)
            k += 1
            if self.rng.random() < 0.5:
                self.tick(0, max(1, self.rtt // 50))
        if k == 0 and self.rng.random() < 0.5:
            self.send(self.size())          # a probe beyond the estimated window

    def wait_rtt(self):
        j = self.rng.choice([0.5, 0.9, 1.0, 1.0, 1.1, 1.5, 3.0])
        self.now += max(1, int(self.rtt * j))

    def ack(self, idxs, rtt_mode="real", aggregate=True):
        """acknowledge the outstanding packets at the given indices"""
        idxs = sorted(set(i for i in idxs if 0 <= i < len(self.out)))
        if not idxs:
            return
        pk = [self.out[i] for i in idxs]
        for i in reversed(idxs):
            del self.out[i]
        newest = max(pk, key=lambda p: p[1])
        if self.now <= newest[1]:
            self.now = newest[1] + 1

        def sample(ts):
            if rtt_mode == "none":
                return 0
            if rtt_mode == "tiny":
                return 1
            if rtt_mode == "huge":
                return self.rng.choice([10**7, 6 * 10**7, 10**9])
            return max(1, self.now - ts)
        if aggregate:
            tot = sum(b for b, _ in pk)
            self.ops.append(f"ack {tot} {newest[1]} {sample(newest[1])} {self.now}")
            self.est = min(self.est + (0 if self.app else tot), 400 * self.mds)
        else:
            first = True
            for b, ts in sorted(pk, key=lambda p: -p[1]):
                self.ops.append(f"ack {b} {ts} {sample(ts) if first else 0} {self.now}")
                first = False
                self.est = min(self.est + (0 if self.app else b), 400 * self.mds)

    def lose(self, idxs, persistent=0):
        idxs = sorted(set(i for i in idxs if 0 <= i < len(self.out)))
        pk = [self.out[i] for i in idxs]
        for i in reversed(idxs):
            del self.out[i]
        for b, ts in pk:
            if self.now < ts:
                self.now = ts
            self.ops.append(f"lost {b} {persistent} {ts} {self.now}")
        if pk:
            self.est = max(int(self.est * 0.7), MINW[self.ctrl] * self.mds)
            if persistent:
                self.est = MINW[self.ctrl] * self.mds

    def discard(self, idxs):
        idxs = sorted(set(i for i in idxs if 0 <= i < len(self.out)))
        pk = [self.out[i] for i in idxs]
        for i in reversed(idxs):
            del self.out[i]
        if pk:
            self.ops.append(f"discard {sum(b for b, _ in pk)}")

    def mtu(self, mds):
        self.ops.append(f"mtu {mds}")
        self.est = max(self.est * mds // self.mds, initial_window(mds))
        self.mds = mds


def random_history(rng, ctrl, mds, length):
    s = Sender(rng, ctrl, mds, now=rng.choice([0, 0, 1, 1000, 10**6, 10**9]))
    while len(s.ops) < length:
        n = len(s.out)
        c = rng.random()
        if c < 0.25:
            if rng.random() < 0.12:
                s.app = 1 - s.app
            if s.app:
                # application-limited phase: a few packets only, far below the window
                for _ in range(rng.randrange(1, 4)):
                    s.send(s.size())
                    s.tick(0, 50)
            else:
                s.burst(gated=rng.random() < 0.85, limit=rng.choice([2, 5, 10, 30]))
        elif c < 0.62 and n:
            s.wait_rtt() if rng.random() < 0.8 else s.tick(0, 10)
            k = rng.random()
            if k < 0.45:
                idx = range(0, rng.randrange(1, min(n, 12) + 1))            # oldest first
            elif k < 0.6:
                idx = range(n - rng.randrange(1, min(n, 6) + 1), n)         # newest (leaves holes)
            elif k < 0.8:
                idx = rng.sample(range(n), rng.randrange(1, min(n, 8) + 1))  # any order
            else:
                idx = range(n)                                              # everything
            mode = rng.choices(["real", "none", "tiny", "huge"], [0.8, 0.08, 0.06, 0.06])[0]
            s.ack(list(idx), mode, aggregate=rng.random() < 0.6)
        elif c < 0.74 and n:
            s.tick(0, s.rtt)
            if rng.random() < 0.08:
                s.lose(range(n), persistent=1)
            else:
                s.lose(range(0, rng.randrange(1, min(n, 4) + 1)))
        elif c < 0.79:
            s.tick(0, s.rtt)
            s.ops.append(f"ecn {s.now}")
            s.est = max(int(s.est * 0.7), MINW[ctrl] * s.mds)
        elif c < 0.84:
            s.mtu(rng.choice(MDS + [rng.randrange(1200, 9001)]))
        elif c < 0.88 and n:
            s.discard(rng.sample(range(n), rng.randrange(1, min(n, 5) + 1)))
        elif c < 0.93:
            s.now += rng.choice([s.rtt * 5, 10**6, 3 * 10**7, 6 * 10**8])   # idle
        elif c < 0.97 and (n or any(o.startswith("sent") for o in s.ops)):
            smp = rng.choice([1, 10, s.rtt, s.rtt * 2, 10**7])
            if any(o.startswith("sent ") and not o.startswith("sent 0 ") for o in s.ops):
                s.tick(0, 100)
                s.ops.append(f"rtt {smp} {max(s.now, smp)}")
                s.now = max(s.now, smp)
        else:
            s.send(0, app=rng.choice([0, 1, "-"]))
        if rng.random() < 0.02:
            s.send(s.size(), app="-")       # Initial/Handshake space: app_limited = None
    return s.ops


def near_min_history(rng, mds, length):
    """CUBIC around its minimum window: repeated losses at 2..3 datagrams of window, recovery exits at
    t = 0 and shortly after with tiny / huge RTTs — the region where the TCP-friendly assignment
    `w_est.min(max_cwnd)` has no lower clamp (C10.cubic_cwnd_ge_min_partial's hypothesis)."""
    s = Sender(rng, "cubic", mds, now=rng.choice([0, 10**6]))
    s.rtt = rng.choice([20, 200, 1000, 30000, 300000])
    # collapse to the minimum first
    s.burst(limit=4)
    s.tick(1, s.rtt)
    s.lose(range(len(s.out)), persistent=rng.choice([0, 1]))
    s.est = 2 * mds
    while len(s.ops) < length:
        # grow a little: k acks of full/partial datagrams
        for _ in range(rng.randrange(0, 4)):
            s.app = 0
            s.send(rng.choice([mds, mds, rng.randrange(1, mds + 1)]))
            s.send(rng.choice([mds, rng.randrange(1, mds + 1)]))
            s.tick(1, s.rtt * 2)
            s.ack(range(len(s.out)), rng.choice(["real", "real", "tiny", "huge"]), aggregate=rng.random() < 0.5)
        if rng.random() < 0.3:
            s.mtu(rng.choice(MDS + [rng.randrange(1200, 9001)]))
        # a loss at a small window, then the retransmission sent after the recovery start is acked: t = 0
        s.send(mds)
        s.send(rng.randrange(1, mds + 1))
        s.tick(1, s.rtt)
        if rng.random() < 0.8:
            s.lose([0])
        else:
            s.ops.append(f"ecn {s.now}")
        s.tick(1, 3)
        s.send(rng.choice([mds, rng.randrange(1, mds + 1)]))        # fast retransmission
        s.tick(1, rng.choice([2, s.rtt, s.rtt * 10, 10**7]))
        s.ack([len(s.out) - 1], rng.choice(["real", "tiny", "huge"]))   # exits recovery, first CA ack at t = 0
        for _ in range(rng.randrange(0, 3)):
            s.send(rng.randrange(1, mds + 1))
            s.tick(0, rng.choice([1, 10, s.rtt, 10**6]))
            s.ack([len(s.out) - 1], rng.choice(["real", "none", "tiny"]))
        if rng.random() < 0.2:
            s.ack(range(len(s.out)))
    return s.ops


def huge_history(rng, ctrl, mds, length):
    """very large aggregated byte counts (the trait takes `usize` / `u32`): looks for arithmetic overflow
    of the window (`cwnd += newly_acked` in BBR's set_cwnd, CUBIC's `as u32` casts). Total bytes in flight
    stay <= u32::MAX (caller contract of the `Counter<u32>`)."""
    s = Sender(rng, ctrl, mds, now=0)
    s.rtt = rng.choice([1, 100, 10000])
    while len(s.ops) < length:
        room = U32 - s.bif()
        if room > 0 and rng.random() < 0.6:
            sz = rng.choice([room, room // 2, min(room, 2**31), min(room, 10**9), min(room, 65535)])
            if sz > 0:
                s.send(sz, app=0)
        s.tick(1, s.rtt)
        if s.out and rng.random() < 0.8:
            s.ack(range(len(s.out)) if rng.random() < 0.7 else [0], rng.choice(["real", "tiny", "none"]))
        elif s.out and rng.random() < 0.3:
            s.lose([0])
        if rng.random() < 0.15:
            # an MTU probe is confirmed / a black hole detected while the window is very large (window rescaling)
            s.mtu(rng.choice(MDS + [rng.randrange(1200, 9001)]))
    return s.ops


def directed():
    """fixed histories run first: each property clause once, on both controllers where it applies"""
    hs = []
    for ctrl in ("cubic", "bbr"):
        for mds in (1200, 9000):
            h = [f"new {ctrl} {mds}"]
            t = 1000
            for i in range(12):
                h.append(f"sent {mds} {t + i} 0")
            h.append(f"ack {3 * mds} {t + 2} 30000 {t + 30000}")
            h.append(f"lost {mds} 0 {t + 3} {t + 30001}")
            h.append(f"lost {mds} 0 {t + 4} {t + 30002}")          # same recovery period: no second reduction
            h.append(f"ecn {t + 30003}")
            h.append(f"sent {mds} {t + 30010} 0")                   # the fast retransmission
            h.append(f"ack {mds} {t + 5} 0 {t + 40000}")            # sent before the recovery start
            h.append(f"ack {mds} {t + 30010} 30000 {t + 60010}")    # sent after it: recovery ends
            h.append(f"lost {mds} 0 {t + 6} {t + 60011}")
            h.append(f"mtu {1350 if mds == 1200 else 4000}")
            h.append(f"mtu {mds}")
            h.append(f"discard {mds}")
            h.append(f"lost {mds} 1 {t + 8} {t + 90000}")           # persistent congestion
            h.append(f"sent 100 {t + 90001} 1")                     # application-limited, far below the window
            h.append(f"ack 100 {t + 90001} 30000 {t + 120001}")
            h.append(f"ack {3 * mds} {t + 11} 0 {t + 120002}")
            hs.append(h)
    return hs


def gen(rng, n, tier):
    ops = []
    for h in directed():
        ops.append("reset")
        ops += h
    budget = n
    while budget > 0:
        c = rng.random()
        mds = rng.choice(MDS)
        length = rng.choice([12, 30, 60, 120, 250])
        if c < 0.45:
            h = random_history(rng, "cubic", mds, length)
        elif c < 0.80:
            h = random_history(rng, "bbr", mds, length)
        elif c < 0.93:
            h = near_min_history(rng, mds, length)
        else:
            h = huge_history(rng, rng.choice(["cubic", "bbr"]), mds, min(length, 40))
        ops.append("reset")
        ops += h
        budget -= len(h)
    return ops[1:]


# ---------------------------------------------------------------------------------------
# oracle
# ---------------------------------------------------------------------------------------

OBS = re.compile(r"ok cwnd=(\d+) bif=(\d+) limited=([01]) fast_rtx=([01]) state=(\w+)$")


def parse_obs(out):
    m = OBS.match(out)
    if not m:
        return None
    return {"cwnd": int(m.group(1)), "bif": int(m.group(2)), "limited": int(m.group(3)),
            "fast_rtx": int(m.group(4)), "state": m.group(5)}


def oracle(ops, outs):
    bad = []
    st = None

    def fresh(ctrl, mds):
        return {"ctrl": ctrl, "mds": mds, "ledger": 0, "prev": None, "uu": True,
                "rec_start": None, "rec_open": False, "contract": True}
    for i, (op, out) in enumerate(zip(ops, outs)):
        t = op.split()
        if t[0] == "reset":
            st = None
            continue
        if out == "bad-op":
            continue
        if t[0] == "new":
            st = fresh(t[1], int(t[2]))
        if st is None:
            continue
        ctrl = st["ctrl"]
        # ---- ledger (what the caller did) -----------------------------------------------
        if t[0] == "sent":
            st["ledger"] += int(t[1])
        elif t[0] in ("ack", "lost", "discard"):
            st["ledger"] -= int(t[1])
        if st["ledger"] < 0 or st["ledger"] > U32:
            st["contract"] = False          # the caller contract is broken (shrunk / hand-written input): nothing to check
        if out.startswith("panic"):
            if st["contract"]:
                if "overflow" in out and t[0] == "sent":
                    bad.append((i, f"cc:{ctrl}:bif-overflow", f"{op}: the in-flight counter overflowed although sent-acked-lost-discarded <= u32::MAX: {out}"))
                elif "overflow" in out:
                    bad.append((i, f"cc:{ctrl}:cwnd-overflow", f"{op}: arithmetic overflow in the controller: {out}"))
                elif "minimum_window" in out:
                    bad.append((i, f"cc:{ctrl}:cwnd-below-min", f"{op}: debug assertion on the minimum window fired: {out}"))
                else:
                    bad.append((i, f"cc:{ctrl}:panic:{t[0]}", f"{op} panicked although the caller contract holds: {out}"))
            st = None
            continue
        o = parse_obs(out)
        if o is None:
            bad.append((i, f"cc:{ctrl}:malformed-output", f"{op} -> {out}"))
            continue
        prev = st["prev"]
        if t[0] == "mtu":
            st["mds"] = int(t[1])
        mds = st["mds"]
        if st["contract"]:
            if o["bif"] != st["ledger"]:
                bad.append((i, f"cc:{ctrl}:bif-mismatch", f"{op}: bytes_in_flight={o['bif']} but sent-acked-lost-discarded={st['ledger']}"))
            if o["cwnd"] < MINW[ctrl] * mds:
                bad.append((i, f"cc:{ctrl}:cwnd-below-min", f"{op}: cwnd={o['cwnd']} < {MINW[ctrl]}*{mds}"))
            if o["limited"] != int(max(0, o["cwnd"] - o["bif"]) < mds):
                bad.append((i, f"cc:{ctrl}:limited-flag", f"{op}: limited={o['limited']} with cwnd={o['cwnd']} bif={o['bif']} mds={mds}"))
            if t[0] == "sent" and int(t[1]) > 0 and o["fast_rtx"]:
                bad.append((i, f"cc:{ctrl}:fast-rtx-after-send", f"{op}: the one-packet allowance is still set after a send"))
        if ctrl == "cubic" and prev is not None and st["contract"]:
            cw, pw = o["cwnd"], prev["cwnd"]
            if t[0] in ("lost", "ecn"):
                persistent = t[0] == "lost" and t[2] == "1"
                now = int(t[-1])
                if cw > pw:
                    bad.append((i, "cc:cubic:loss-increased-cwnd", f"{op}: cwnd {pw} -> {cw}"))
                if cw < pw and not persistent:
                    if st["rec_open"]:
                        bad.append((i, "cc:cubic:second-reduction-in-recovery",
                                    f"{op}: cwnd {pw} -> {cw} although the recovery period started at {st['rec_start']} is still open"))
                    st["rec_start"], st["rec_open"] = now, True
                if persistent:
                    if cw != 2 * mds or o["state"] != "slow_start":
                        bad.append((i, "cc:cubic:persistent-congestion-not-min", f"{op}: cwnd={cw} state={o['state']}, expected {2 * mds} slow_start"))
                    st["rec_start"], st["rec_open"] = None, False
            if t[0] == "ack":
                if st["uu"] and cw > pw:
                    bad.append((i, "cc:cubic:grew-while-app-limited", f"{op}: cwnd {pw} -> {cw} while application-limited and under-utilised"))
                if st["rec_open"] and int(t[2]) > st["rec_start"]:
                    st["rec_open"] = False
        if ctrl == "cubic" and t[0] == "sent" and int(t[1]) > 0:
            avail = max(0, o["cwnd"] - o["bif"])
            under = not (avail < mds) and not (o["state"] == "slow_start" and o["bif"] >= o["cwnd"] // 2) and avail > 3 * mds
            st["uu"] = under if t[3] == "-" else (t[3] == "1" and under)
        st["prev"] = o
    return bad


def rfc_b6_deviations(ops, outs):
    """informational (not a C10 violation): CUBIC reductions triggered by a packet sent before the start of the
    previous recovery period, after that period had already ended (RFC 9002 B.6 `InCongestionRecovery(sent_time)`
    would not react)."""
    n = 0
    rec_start = None
    rec_open = False
    prev = None
    ctrl = None
    for op, out in zip(ops, outs):
        t = op.split()
        if t[0] in ("reset", "new"):
            rec_start, rec_open, prev = None, False, None
            ctrl = t[1] if t[0] == "new" else None
        o = parse_obs(out)
        if o is None or ctrl != "cubic":
            prev = None if o is None else o
            continue
        if prev is not None and t[0] in ("lost", "ecn") and o["cwnd"] < prev["cwnd"] and not (t[0] == "lost" and t[2] == "1"):
            if t[0] == "lost" and not rec_open and rec_start is not None and int(t[3]) <= rec_start:
                n += 1
            rec_start, rec_open = int(t[-1]), True
        if t[0] == "lost" and t[2] == "1":
            rec_start, rec_open = None, False
        if t[0] == "ack" and rec_open and int(t[2]) > rec_start:
            rec_open = False
        prev = o
    return n


def nontrivial(op, out):
    if not out.startswith("ok cwnd"):
        return None
    t = op.split()
    o = parse_obs(out)
    return f"{t[0]}|{o['state']}|{o['limited']}{o['fast_rtx']}|{o['cwnd']}|{o['bif']}" if o else None
