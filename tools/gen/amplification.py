"""ops for the `amplification` component (vh-transport: real `s2n_quic_transport::path::Path`) / Lean driver.
   ops: new server|client, recv <n>, send <n>, validate, query, cc <limited> <fast>; histories are separated by `reset`.
   `send` answers `err limited` when the path is at its amplification limit (datagram not started)."""
SIZES = [1, 2, 20, 39, 40, 41, 100, 399, 400, 401, 1199, 1200, 1201, 1350, 1472, 9000, 65535]
U32 = 2**32 - 1
# the known-finding witness (F4): overshoot, then a small datagram re-opens sending
F4 = ["recv 1200", "send 1200", "send 1200", "send 1100", "send 1200", "recv 40", "send 1200"]


def _exact(rng, recv, mult=3):
    """spend exactly the RFC credit of `recv` bytes in random pieces, then one byte more"""
    ops = [f"recv {recv}"]
    left = mult * recv
    while left > 0:
        n = min(left, rng.choice(SIZES))
        if rng.random() < 0.3:
            n = rng.randrange(1, left + 1)
        ops.append(f"send {n}")
        left -= n
        if rng.random() < 0.2:
            ops.append("query")
    ops += ["query", "send 1", "query"]
    if rng.random() < 0.5:
        ops += [f"cc 1 {rng.choice([0, 1])}", "send 1", "cc 0 0", "query"]
    return ops


def _below(rng, recv):
    """spend the credit except k bytes, then a full-size datagram (overshoot), then another one"""
    k = rng.choice([1, 1, 2, 100, 1199])
    ops = [f"recv {recv}"]
    left = 3 * recv - k
    while left > 0:
        n = min(left, rng.choice([1200, 1200, 1350, 400]))
        ops.append(f"send {n}")
        left -= n
    ops += [f"send {rng.choice([1, 1200, 1201, 1472])}", "query", f"send {rng.choice([1, 1200])}"]
    if rng.random() < 0.5:
        ops += [f"recv {rng.choice([1, 40, 41, 1200])}", f"send {rng.choice([1, 1200, 1472])}", "send 1200", "send 1200", "send 1200", "send 1"]
    return ops


def _random(rng):
    ops = []
    if rng.random() < 0.1:
        ops.append("new client")
    elif rng.random() < 0.2:
        ops.append("new server")
    for _ in range(rng.randrange(3, 40)):
        c = rng.random()
        if c < 0.3:
            ops.append(f"recv {rng.choice(SIZES + [0])}")
        elif c < 0.85:
            ops.append(f"send {rng.choice(SIZES + [0, 1200, 1200, 1200])}")
        elif c < 0.90:
            ops.append("query")
        elif c < 0.93:
            # the congestion controller's verdict never outranks the amplification limit (close / probe senders
            # consult transmission_constraint())
            ops.append(f"cc {rng.choice([0, 1, 1])} {rng.choice([0, 0, 1])}")
        elif c < 0.97:
            ops.append("validate")
        else:
            ops.append(f"recv {rng.choice([1431655765, 1431655766, 2**31, 2**32, 2**40, 2**62, 2**64 - 1, 6148914691236517205, 6148914691236517206])}")
    return ops


def gen(rng, n, tier):
    hist = [list(F4), list(F4) + ["send 1200", "recv 1", "send 1472", "validate", "send 9000"],
            ["query", "send 1", "send 0", "recv 0", "send 1", "recv 1", "send 3", "send 1"],
            ["send 1200", "validate", "send 1200", "recv 5", "send 1200"],
            ["new client", "send 1200", "recv 1", "send 65535", "query"],
            ["recv 1431655765", "query", "send 65535", "recv 1", "send 1"],
            ["recv 1431655766", "send 1", "send 1", "send 1"],
            ["recv 18446744073709551615", "send 1200", "query"]]
    for r in [1, 2, 40, 400, 1199, 1200, 1201, 1350, 3600]:
        hist.append(_exact(rng, r))
    for i in range(n):
        c = rng.random()
        if c < 0.25:
            hist.append(_exact(rng, rng.choice([1, 7, 40, 333, 1200, 1200, 1350, 2400, 9000])))
        elif c < 0.5:
            hist.append(_below(rng, rng.choice([400, 1200, 1200, 1201, 1350, 2400])))
        else:
            hist.append(_random(rng))
    ops = []
    for h in hist:
        ops.append("reset")
        ops += h
    return ops


def oracle(ops, outs):
    """RFC 9000 §8.1 / the property text, strictly, on the implementation's answers: while the client address is
    not validated a server never STARTS a datagram once bytes sent >= 3 x bytes received. A violation the
    saturating counter explains (an earlier overshoot whose debt was forgotten, then a later receipt) is
    reported as amp:bound-exceeded-after-overshoot, anything else as amp:bound-exceeded."""
    bad = []
    sent = recv = 0
    sat = 0                # the allowance a saturating counter would show (classification only)
    validated = False
    client = False
    for i, (op, out) in enumerate(zip(ops, outs)):
        t = op.split()
        o = out.split()
        if t == ["reset"]:
            sent = recv = sat = 0
            validated = client = False
            continue
        if o and o[0] == "panic":
            bad.append((i, "amp:panic", f"{op} panicked: {out}"))
            sent = recv = sat = 0
            validated = client = False
            continue
        if t[0] == "new":
            sent = recv = sat = 0
            client = t[1] == "client"
            validated = client
        elif t[0] == "validate":
            validated = True
        elif t[0] == "recv":
            n = int(t[1])
            recv += n
            sat = min(sat + 3 * n, U32)
        elif t[0] == "send":
            n = int(t[1])
            if out == "err limited":
                if client:
                    bad.append((i, "amp:client-limited", f"a client path refused to send ({op})"))
                elif validated:
                    bad.append((i, "amp:limited-after-validation", f"a validated path refused to send ({op})"))
                continue
            if o and o[0] == "ok" and n > 0:
                if not validated and sent >= 3 * recv:
                    if sat > 0:
                        bad.append((i, "amp:bound-exceeded-after-overshoot",
                                    f"datagram of {n} bytes started with {sent} bytes already sent and only {recv} received (3x = {3 * recv}): "
                                    f"an earlier overshooting datagram took the saturating allowance to 0 and its debt was forgotten"))
                    else:
                        bad.append((i, "amp:bound-exceeded",
                                    f"datagram of {n} bytes started with {sent} bytes already sent and only {recv} received (3x = {3 * recv})"))
                sent += n
                sat = max(sat - n, 0)
        if o and o[0] == "ok" and len(o) >= 4 and not validated and t[0] in ("recv", "send", "query"):
            # the flag the connection consults before starting a datagram must not say "go" without any credit at all
            if o[1] == "0" and recv == 0:
                bad.append((i, "amp:open-without-receipt", f"path not limited although nothing was received ({op} -> {out})"))
        if o and o[0] == "ok" and len(o) >= 4 and o[1] == "1" and o[2] != "AmplificationLimited":
            # senders that bypass congestion control (connection close, probes) consult transmission_constraint():
            # at the amplification limit it must say so whatever the congestion controller reports
            bad.append((i, "amp:constraint-hides-limit", f"path at its amplification limit reports transmission constraint {o[2]} ({op} -> {out})"))
    return bad


def nontrivial(op, out):
    return f"{op}|{out}" if out.startswith("ok") or out.startswith("err") else None
