"""Scenarios for the `dc_stream_sim` component (vh-dc: REAL s2n-quic-dc client+server streams in the bach
simulation / over loopback TCP) and the C20 property oracle on the implementation's result lines.

Every line is one self-contained scenario (STATELESS). All choices come from the generator's PRNG; inside a
scenario everything (network faults, payload keys) is derived from the line's `seed`.

Oracle (independent of the harness's own comparison: the expected payload is recomputed here from `seed`
and compared through the CRC-32 of the bytes the application read):
  dcstream:wrong-bytes / lost-bytes / dup-bytes   bytes read differ from the bytes written at that offset
                                                   (classified by the harness: the tail matches the payload
                                                   further on = lost, further back = dup), or more bytes were
                                                   read than were ever written, or the CRC differs
                               (also: a duplicated/replayed first packet surfaced as a NEW stream that delivered data;
                               a ghost stream that fails without delivering a byte is tolerated and counted)
  dcstream:eof-incomplete      clean EOF although fewer bytes were read than the peer wrote before its FIN
  dcstream:hang                some side had no result before the (virtual) deadline
  dcstream:error-late          vanished / stalled peer / unknown path secret: the failure arrived later than
                               (vanish time +) idle timeout + slack (`dcstream:error-late:tcp` over TCP, where the
                               harness measures wall-clock time)
  dcstream:wrong-data-instead-of-error   vanished peer / unknown path secret: clean EOF on a truncated response
  dcstream:spurious-error      both applications behaved and the network became clean, but a side saw an error
                               or the transfer is incomplete
  dcstream:panic:<msg>@<file>  the scenario panicked (debug assertions and overflow checks of the repo are enabled)
  dcstream:bad-op              the harness refused the line (e.g. the scaffolding's idle timeout is not the
                               one the oracle bounds with)
"""
import re
import zlib

STATELESS = True
IDLE_MS = 30000
SLACK_MS = 2500
M64 = (1 << 64) - 1


def splitmix64(x):
    z = (x + 0x9E3779B97F4A7C15) & M64
    z = ((z ^ (z >> 30)) * 0xBF58476D1CE4E5B9) & M64
    z = ((z ^ (z >> 27)) * 0x94D049BB133111EB) & M64
    return z ^ (z >> 31)


def key_c2s(seed):
    return splitmix64((seed * 2 + 1) & M64)


def key_s2c(seed):
    return splitmix64((seed * 2 + 2) & M64)


def payload(key, n):
    out = bytearray()
    for w in range((n + 7) // 8):
        out += splitmix64(key ^ w).to_bytes(8, "little")
    return bytes(out[:n])


def line(seed, proto="udp", req=1000, resp=2000, wchunk=65536, rchunk=65536, mtu=1500, smtu=None, drop=0, dup=0,
         reorder=0, faults_ms=0, vanish_us=0, cop="normal", sop="normal", deadline_ms=120000):
    s = f"run seed={seed} proto={proto} req={req} resp={resp} wchunk={wchunk} rchunk={rchunk} mtu={mtu}"
    if smtu is not None:
        s += f" smtu={smtu}"
    s += f" drop_pm={drop} dup_pm={dup} reorder_pm={reorder} faults_until_ms={faults_ms}"
    if vanish_us:
        s += f" vanish_us={vanish_us}"
    s += f" client_op={cop} server_op={sop} idle_ms={IDLE_MS} deadline_ms={deadline_ms}"
    return s


MTUS = [1250, 1500, 9000, 16383, 32000]
SIZES_SMALL = [1, 2, 7, 100, 1199, 1200, 1473, 4096, 14720, 14721]
SIZES_MED = [20000, 65535, 65536, 100000, 262144]
SIZES_BIG = [500000, 1 << 20]
CHUNKS = [1, 7, 100, 1000, 1472, 4096, 16384, 65536, 1 << 20]

# fixed scenarios run first in every tier (each one is there for a reason)
FIXED = [
    # the repo's own deterministic test, with keyed payloads
    line(1, req=100000, resp=100000),
    # smallest possible transfers, odd chunking
    line(2, req=1, resp=1, wchunk=1, rchunk=1, mtu=1250),
    line(3, req=0, resp=1200, rchunk=7),
    # loss + duplication + reordering during the whole transfer, medium size, all MTUs
    line(4, req=65536, resp=100000, mtu=1250, drop=100, dup=50, reorder=100, faults_ms=2000, rchunk=1000),
    line(5, req=100000, resp=20000, mtu=1500, drop=300, dup=100, reorder=200, faults_ms=1500, wchunk=4096),
    line(6, req=262144, resp=262144, mtu=9000, drop=150, dup=100, reorder=300, faults_ms=3000),
    line(7, req=262144, resp=1000, mtu=32000, smtu=1500, drop=200, dup=30, reorder=100, faults_ms=1000),
    # 1 MiB both ways, moderate loss
    line(8, req=1 << 20, resp=1 << 20, mtu=9000, drop=50, dup=20, reorder=50, faults_ms=500),
    # interleavings
    line(9, req=100000, resp=50000, cop="shutdown_early", drop=100, faults_ms=500),
    line(10, req=100000, resp=50000, cop="drop_early", drop=50, faults_ms=300),
    line(11, req=200000, resp=200000, cop="concurrent", sop="write_first", drop=100, dup=50, reorder=100, faults_ms=1000),
    line(12, req=100000, resp=100, sop="drop_early", drop=50, faults_ms=300),
    line(13, req=50000, resp=50000, cop="concurrent", sop="normal", mtu=1250, rchunk=100),
    # failure modes
    line(14, req=1000, resp=1000, sop="forget_secret"),
    line(15, req=1 << 20, resp=1000, sop="forget_secret", mtu=9000),
    line(16, req=100000, resp=100000, sop="vanish", vanish_us=2500),
    line(17, req=1000, resp=1 << 20, sop="vanish", vanish_us=4000, cop="concurrent"),
    line(18, req=1000, resp=1000, sop="vanish", vanish_us=300),
    # the server finishes a short response (final offset known to the receiver) while earlier packets of it were
    # lost, then vanishes before it can retransmit: the receiver sits in "size known" with a gap and only its idle
    # timer can end the stream
    line(32, req=1000, resp=20000, sop="vanish", vanish_us=6000, drop=300, faults_ms=1000),
    line(33, req=1000, resp=20000, sop="vanish", vanish_us=9000, drop=500, reorder=200, faults_ms=1000),
    line(34, req=4, resp=60000, sop="vanish", vanish_us=12000, drop=200, faults_ms=1000, mtu=9000),
    # the repo's idle_timeout::server_no_response: the request is delivered and acknowledged, no answer ever comes;
    # only the client's receiver idle timer (armed when the stream is created) can end the stream
    line(28, req=4, resp=1000, sop="stall"),
    line(29, req=100000, resp=1000, sop="stall", drop=100, dup=50, reorder=100, faults_ms=200),
    # … and the stalled peer also vanishes after it acknowledged the request: the client's sender half is done,
    # nothing will ever arrive, the receiver's own idle timer is the only thing left
    line(30, req=4, resp=1000, sop="stall", vanish_us=5000),
    line(31, req=50000, resp=1000, sop="stall", vanish_us=20000, cop="concurrent"),
    # TCP
    line(19, proto="tcp", req=100000, resp=100000),
    line(20, proto="tcp", req=1, resp=1 << 20, wchunk=1000, rchunk=100, mtu=1250),
    line(21, proto="tcp", req=262144, resp=262144, cop="concurrent", sop="write_first", mtu=32000),
    line(22, proto="tcp", req=100000, resp=1000, cop="shutdown_early"),
    line(23, proto="tcp", req=100000, resp=1000, sop="drop_early", deadline_ms=20000),
    line(24, proto="tcp", req=100000, resp=1000, cop="drop_early", deadline_ms=20000),
    line(25, proto="tcp", req=1000, resp=1000, sop="forget_secret", deadline_ms=20000),
    # the upper half of the MTU range (with #7: three scenarios at or above 16384, none of them the only UDP ones)
    line(26, req=50000, resp=50000, mtu=16384),
    line(27, req=300000, resp=100000, mtu=32768, drop=100, dup=50, reorder=100, faults_ms=1000, cop="concurrent", sop="write_first"),
]


def _random(rng, tier):
    seed = rng.getrandbits(48)
    proto = "tcp" if rng.random() < 0.2 else "udp"
    r = rng.random()
    if r < 0.45:
        pool = SIZES_SMALL
    elif r < 0.85:
        pool = SIZES_MED
    else:
        pool = SIZES_BIG
    req = rng.choice(pool) if rng.random() < 0.7 else rng.randrange(0, max(pool) + 1)
    resp = rng.choice(pool) if rng.random() < 0.7 else rng.randrange(0, max(pool) + 1)
    wchunk = rng.choice(CHUNKS)
    rchunk = rng.choice(CHUNKS)
    # tiny chunks on big transfers only cost time
    if max(req, resp) > 100000:
        wchunk = max(wchunk, 1000)
        rchunk = max(rchunk, 1000)
    elif max(req, resp) > 20000:
        wchunk = max(wchunk, 100)
        rchunk = max(rchunk, 100)
    mtu = rng.choices(MTUS, [3, 3, 3, 2, 1])[0] if rng.random() < 0.75 else rng.randrange(1250, 32769)
    smtu = None
    if rng.random() < 0.25:
        smtu = rng.choice(MTUS)
    cop = rng.choices(["normal", "shutdown_early", "drop_early", "concurrent"], [5, 2, 1, 2])[0]
    sop = rng.choices(["normal", "write_first", "drop_early", "stall", "vanish", "forget_secret"], [10, 4, 2, 1, 2, 2])[0]
    kw = dict(proto=proto, req=req, resp=resp, wchunk=wchunk, rchunk=rchunk, mtu=mtu, smtu=smtu, cop=cop, sop=sop)
    if proto == "tcp":
        if sop in ("vanish", "stall"):
            kw["sop"] = "normal"
        kw["deadline_ms"] = 30000
        return line(seed, **kw)
    if rng.random() < 0.8:
        kw["drop"] = rng.choice([0, 10, 50, 100, 200, 300])
        kw["dup"] = rng.choice([0, 10, 50, 100])
        kw["reorder"] = rng.choice([0, 50, 200, 500])
        kw["faults_ms"] = rng.choice([5, 50, 500, 2000, 5000])
    if sop == "vanish":
        kw["vanish_us"] = rng.choice([100, 300, 700, 1200, 2500, 4000, 10000])
    if sop == "stall" and rng.random() < 0.6:
        kw["vanish_us"] = rng.choice([2000, 5000, 20000, 100000])
    return line(seed, **kw)


def gen(rng, n, tier):
    ops = list(FIXED)
    while len(ops) < n:
        ops.append(_random(rng, tier))
    if tier == "thorough":
        # one real-time TCP stall: the peer application freezes while holding the stream
        ops.append(line(rng.getrandbits(32), proto="tcp", req=1000, resp=1000, sop="vanish", deadline_ms=45000))
        ops.append(line(rng.getrandbits(32), proto="tcp", req=100000, resp=1000, sop="stall", deadline_ms=45000))
    return ops[:max(n, len(FIXED))] if tier != "thorough" else ops


def _panic_sig(text):
    """`<msg>@<file>:<line>` -> stable signature without the line number"""
    text = text.strip()
    msg, _, loc = text.partition("@")
    f = loc.rsplit(":", 1)[0] if loc else "?"
    msg = re.sub(r"\d+", "N", msg)   # `position_32002_exceeded_capacity_of_32000` -> `position_N_exceeded_capacity_of_N`
    return f"dcstream:panic:{msg[:60]}@{f}"


def parse_op(op):
    return dict(t.split("=", 1) for t in op.split()[1:])


def parse_out(out):
    t = out.split()
    if not t or t[0] != "ok":
        return None
    kv = dict(x.split("=", 1) for x in t[1:])
    for d in ("c2s", "s2c"):
        kv[d] = dict(x.split(":", 1) for x in kv[d].split(","))
    return kv


def _dir_checks(i, name, d, key, planned, bad):
    """universal checks on one direction: d = parsed <dir>, key = payload key"""
    r, w, wa = int(d["r"]), int(d["w"]), int(d["wa"])
    cmp_ = d["cmp"]
    if cmp_ != "ok":
        kind, off = cmp_.split("@")
        sig = {"lost": "lost-bytes", "dup": "dup-bytes"}.get(kind, "wrong-bytes")
        bad.append((i, f"dcstream:{sig}", f"{name}: byte at offset {off} is not the byte written there ({kind})"))
    elif r > max(wa, w):
        bad.append((i, "dcstream:dup-bytes", f"{name}: {r} bytes read but only {max(wa, w)} were ever handed to write"))
    elif r <= planned and zlib.crc32(payload(key, r)) != int(d["crc"], 16):
        bad.append((i, "dcstream:wrong-bytes", f"{name}: crc of the {r} bytes read differs from the payload prefix"))
    if d["eof"] == "clean" and cmp_ == "ok" and r < w:
        bad.append((i, "dcstream:eof-incomplete", f"{name}: clean EOF after {r} bytes but the peer wrote {w}"))


def oracle(ops, outs):
    bad = []
    for i, (op, out) in enumerate(zip(ops, outs)):
        if out.startswith("panic"):
            bad.append((i, _panic_sig(out[6:]), f"scenario panicked: {out[:200]}"))
            continue
        if out.startswith("bad-op"):
            bad.append((i, "dcstream:bad-op", "harness refused the scenario (idle timeout of the scaffolding changed?)"))
            continue
        p = parse_op(op)
        o = parse_out(out)
        if o is None:
            bad.append((i, "dcstream:bad-op", f"unparseable result {out[:100]}"))
            continue
        seed = int(p["seed"])
        req, resp = int(p["req"]), int(p["resp"])
        cop, sop = p["client_op"], p["server_op"]
        planned_req = req // 2 if cop in ("shutdown_early", "drop_early") else req
        _dir_checks(i, "c2s", o["c2s"], key_c2s(seed), planned_req, bad)
        _dir_checks(i, "s2c", o["s2c"], key_s2c(seed), resp, bad)
        if o.get("panic", "-") != "-":
            bad.append((i, _panic_sig("background@" + o["panic"]), f"a background task panicked at {o['panic']}"))
        ghost = [int(x) for x in o.get("ghost", "0:0:0").split(":")]
        if ghost[1] > 0:
            bad.append((i, "dcstream:dup-bytes", f"the server application was handed {ghost[0]} stream(s) nobody opened and read "
                        f"{ghost[1]} bytes on them (a replayed first packet surfaced as a new stream with data)"))
        if o["end"] != "done":
            bad.append((i, "dcstream:hang", f"no result before the deadline of {p['deadline_ms']} ms (cerr={o['cerr']} serr={o['serr']})"))
            continue
        faulty_peer = sop in ("vanish", "forget_secret", "stall")
        if faulty_peer:
            idle = int(p["idle_ms"])
            tcp = p["proto"] == "tcp"
            # stall: the timer runs from the last peer activity (the ACKs of the request): 1 s of margin for it
            t0 = (int(p.get("vanish_us", 0)) + 999) // 1000 + (1000 if sop == "stall" else 0)
            for side in (("tc",) if sop == "stall" else ("tc", "ts")):
                if o[side] != "-" and int(o[side]) > t0 + idle + SLACK_MS:
                    bad.append((i, "dcstream:error-late", f"{side}={o[side]} ms > {t0} + idle {idle} + slack {SLACK_MS} ms"))
            if o.get("late") == "1":
                # no virtual clock over TCP: the harness compares the client's wall-clock time with idle + slack
                bad.append((i, "dcstream:error-late:tcp", "tcp: the peer application went silent while holding the stream; the client "
                            "was still waiting after idle timeout + slack (no idle timer on reliable transports)"))
            s2c = o["s2c"]
            if not (tcp and sop in ("vanish", "stall")):
                # (over TCP the frozen peer of the harness finally drops its stream, which is a proper FIN after 0 bytes)
                if s2c["eof"] == "clean" and int(s2c["r"]) < resp and s2c["r"] != s2c["w"]:
                    bad.append((i, "dcstream:wrong-data-instead-of-error",
                                f"client saw a clean EOF after {s2c['r']} of {resp} response bytes although the peer had {sop}"))
                if sop == "stall" and cop != "drop_early" and s2c["eof"] != "err":
                    bad.append((i, "dcstream:wrong-data-instead-of-error",
                                f"the peer never answered, yet the client's read did not fail (eof={s2c['eof']}, {s2c['r']} bytes)"))
            # (a client that drops the stream right after writing never looks at the outcome)
            if sop == "forget_secret" and cop != "drop_early" and s2c["eof"] != "err" and o["cerr"] == "-":
                bad.append((i, "dcstream:wrong-data-instead-of-error", "unknown path secret: the client saw no error at all"))
        elif cop in ("normal", "shutdown_early", "concurrent") and sop in ("normal", "write_first"):
            c2s, s2c = o["c2s"], o["s2c"]
            complete = (int(c2s["w"]) == planned_req and int(c2s["r"]) == planned_req and c2s["eof"] == "clean" and
                        int(s2c["w"]) == resp and int(s2c["r"]) == resp and s2c["eof"] == "clean")
            if not complete or o["cerr"] != "-" or o["serr"] != "-":
                bad.append((i, "dcstream:spurious-error",
                            f"well-behaved peers, clean network after {p['faults_until_ms']} ms, but cerr={o['cerr']} serr={o['serr']} "
                            f"c2s r/w={c2s['r']}/{c2s['w']} eof={c2s['eof']} s2c r/w={s2c['r']}/{s2c['w']} eof={s2c['eof']}"))
    return bad


def nontrivial(op, out):
    o = parse_out(out)
    if o is None:
        return None
    if int(o["c2s"]["r"]) + int(o["s2c"]["r"]) == 0 and o["cerr"] == "-" and o["serr"] == "-":
        return None
    return op
