"""ops for the `timer` component (vh-core, real `Timer` bank + `Provider`/`Query`) / Lean `timer` driver.

Python oracle = statements 1-3 of the work package on the IMPLEMENTATION's outputs against a plain
list of optional deadlines: next_expiration = min of the armed deadlines (none iff none armed),
count / is_armed agree, poll is Ready iff armed and deadline < now + 1000 µs and disarms, a
cancelled / fired timer never fires again, `wake` (sleep until next_expiration, poll everything)
fires at least one timer and leaves next_expiration strictly later than now (or none).
"""
G = 1000  # documented granularity: 1 ms
DOM = 2**62


def gen(rng, n, tier):
    ops = []
    while len(ops) < n:
        ops.append("reset")
        k = rng.choice([1, 2, 3, 4, 4, 5, 8])
        ops.append(f"new {k}")
        base = rng.choice([1, 5, 1000, 1001, 2000, 10**6, 10**9, DOM - 10**7])
        now = base
        for _ in range(rng.randrange(5, 60)):
            c = rng.random()
            i = rng.randrange(k)
            now += rng.choice([0, 0, 1, 1, 500, 999, 1000, 1001, 5000])
            now = min(now, DOM - 5000)
            d = max(1, min(DOM - 1, now + rng.choice([-2000, -1000, -999, -1, 0, 1, 998, 999, 1000, 1001, 1002, 2500, 10**6])))
            if c < 0.30:
                ops.append(f"set {i} {d}")
            elif c < 0.38:
                ops.append(f"cancel {i}")
            elif c < 0.55:
                ops.append(f"poll {i} {now}")
            elif c < 0.63:
                ops.append(f"exp {i} {now}")
            elif c < 0.78:
                ops.append("next")
            elif c < 0.84 and k >= 4:
                ops.append("next4")
            elif c < 0.92:
                ops.append(f"pollall {now}")
            else:
                ops.append("wake")
                ops.append("next")
    return ops[:n] if n >= 8 else ops


def _opt(s):
    return None if s == "none" else int(s)


def _lst(s):
    return [] if s == "-" else [int(x) for x in s.split(",")]


def oracle(ops, outs):
    fails = []
    ref = [None]          # plain list of optional deadlines

    def bad(i, sig, msg):
        fails.append((i, "C02-timer-" + sig, f"{msg} (op `{ops[i]}` -> `{outs[i]}`, reference {ref})"))

    def ref_min(r):
        a = [d for d in r if d is not None]
        return min(a) if a else None

    for i, (op, out) in enumerate(zip(ops, outs)):
        t = op.split(" ")
        o = out.split(" ")
        if t[0] == "reset":
            ref = [None]
            continue
        if o[0] != "ok":
            if out != "bad-op":
                bad(i, "panic", "timer op did not answer ok")
            continue
        if t[0] == "new":
            ref = [None] * int(t[1])
        elif t[0] == "set":
            ref[int(t[1])] = int(t[2])
        elif t[0] == "cancel":
            ref[int(t[1])] = None
        elif t[0] == "exp":
            d = ref[int(t[1])]
            want = d is not None and d < int(t[2]) + G
            if (o[1] == "1") != want:
                bad(i, "is-expired", "is_expired differs from `armed and deadline < now + 1ms`")
            if (o[2] == "1") != (d is not None):
                bad(i, "is-armed", "is_armed differs from the reference")
        elif t[0] == "poll":
            j, now = int(t[1]), int(t[2])
            d = ref[j]
            want = d is not None and d < now + G
            if (o[1] == "ready") != want:
                if o[1] == "ready" and d is None:
                    bad(i, "fired-unarmed", "a cancelled / already fired timer reported Ready")
                elif o[1] == "ready":
                    bad(i, "fired-early", "timer fired before deadline - granularity")
                else:
                    bad(i, "missed-expiry", "armed timer past its deadline polled Pending")
            if want:
                ref[j] = None
            if (o[2] == "1") != (ref[j] is not None):
                bad(i, "poll-armed", "armed state after poll differs (Ready must disarm, Pending must not)")
        elif t[0] in ("next", "next4"):
            r = ref if t[0] == "next" else ref[:4]
            if _opt(o[1]) != ref_min(r):
                bad(i, "next-expiration", "next_expiration is not the minimum of the armed deadlines")
            if int(o[2]) != len([d for d in r if d is not None]):
                bad(i, "armed-count", "armed_timer_count differs")
            if (o[3] == "1") != (ref_min(r) is not None):
                bad(i, "is-armed-any", "Provider::is_armed differs")
        elif t[0] in ("pollall", "wake"):
            if t[0] == "wake":
                m = ref_min(ref)
                if o[1] == "none":
                    if m is not None:
                        bad(i, "sleep-forever", "timers are armed but next_expiration is none")
                    continue
                now, ready, nxt = int(o[1]), _lst(o[2]), _opt(o[3])
                if m is None or now != m:
                    bad(i, "next-expiration", "wake-up time is not the minimum armed deadline")
                if not ready:
                    bad(i, "spurious-wake", "woke at next_expiration but no timer polled Ready")
            else:
                now, ready, nxt = int(t[1]), _lst(o[1]), _opt(o[2])
            want = [j for j, d in enumerate(ref) if d is not None and d < now + G]
            if ready != want:
                bad(i, "pollall-ready", "set of Ready timers differs from `armed and deadline < now + 1ms`")
            for j in want:
                ref[j] = None
            if nxt != ref_min(ref):
                bad(i, "next-expiration", "next_expiration after polling is not the minimum of the armed deadlines")
            if nxt is not None and nxt <= now:
                bad(i, "busy-loop", "after polling all Ready timers next_expiration is not strictly later than now")
    return fails


def nontrivial(op, out):
    t = op.split(" ")[0]
    if out.startswith("ok") and t in ("poll", "next", "next4", "pollall", "wake", "exp"):
        return op + "|" + out
    return None
