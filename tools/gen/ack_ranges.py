"""ops + python oracle for the `ackranges` component (vh-core `ack::Ranges` / Lean `ackranges` driver).

The oracle states the C16 sentence "a capacity-bounded ACK-range set discarding only its lowest
ranges" on plain python sets of packet numbers, independently of the Rust rule:

  R  = every packet number ever passed to an insert (whatever its outcome) minus the ones removed by
       a successful `rm`/`pop`/`clear`                                    (the reference set)
  S  = the set the implementation represents after the op (from its complete interval list)

  after every op        S is normalized and  S ⊆ R                  (`ackranges:spurious-element`)
  on  ins [lo,hi]       with T = S_before ∪ [lo,hi] and D = T \\ S_after (the discarded elements):
     * S_after ⊆ T                                                   (`ackranges:spurious-element`)
     * every d ∈ D is below every element of S_after                 (`ackranges:evicted-non-lowest`)
     * D is a union of whole runs of T                               (`ackranges:partial-range-evicted`)
     * D ≠ ∅ only if T has more runs than the limit                  (`ackranges:needless-eviction`)
     * exactly runs(T) − limit runs are discarded (one, given ≤ limit before) (`ackranges:over-eviction`)
     * runs(S_after) ≤ limit                                         (`ackranges:over-limit`)
     * the reported result names D: `ok` ⇔ D = ∅, `dropped:a-b` ⇔ D = [a,b] ≠ new range,
       `failed:lo-hi` ⇔ D = the new range itself                     (`ackranges:result-mismatch`)
  rm / pop / clear / queries behave like the plain set              (`ackranges:content-mismatch`, …)
  `iter` (the ACK frame order) lists the ranges in DESCENDING order  (`ackranges:iter-order`)
"""
from gen.interval_set import runs_of, nruns, fmt_ivs, parse_ivs, normalized, elems

PN_MAX = 2**62 - 1
DEFAULT_LIMIT = 10          # Settings::default().ack_ranges_limit; G re-extracts it, D sees it through `Ranges::default()`
LIMITS = [1, 2, 3, 5, 10]


def oracle(ops, outs):
    bad = []
    S = set()       # what the implementation represented after the previous op
    R = set()       # reference: inserted minus explicitly removed
    limit = DEFAULT_LIMIT
    dead = False
    for i, (op, out) in enumerate(zip(ops, outs)):
        t = op.split()
        if t == ["reset"]:
            S, R, limit, dead = set(), set(), DEFAULT_LIMIT, False
            continue
        o = out.split()
        if o and o[0] == "panic":
            bad.append((i, f"ackranges:panic:{t[0]}", f"ackranges `{op}` panicked: {out}"))
            dead = True
            continue
        if dead:
            continue
        k = t[0]
        domain_ok = True
        try:
            args = [int(x) for x in t[1:]]
        except ValueError:
            domain_ok = False
            args = []
        if k == "new":
            domain_ok = domain_ok and len(args) == 1 and 1 <= args[0] <= 1000000
        elif k in ("ins", "rm"):
            domain_ok = domain_ok and len(args) == 2 and all(0 <= a <= PN_MAX for a in args) and (k == "rm" or args[0] <= args[1])
        elif k in ("insv", "has"):
            domain_ok = domain_ok and len(args) == 1 and 0 <= args[0] <= PN_MAX
        elif k in ("pop", "min", "max", "spread", "len", "iter", "clear"):
            domain_ok = domain_ok and not args
        else:
            domain_ok = False
        if not domain_ok:
            if out != "bad-op":
                bad.append((i, "ackranges:bad-op-accepted", f"`{op}` is outside the domain but gave {out}"))
            continue
        if len(o) != 3 or o[0] != "ok":
            bad.append((i, f"ackranges:malformed:{k}", f"`{op}` -> {out}"))
            dead = True
            continue
        try:
            ivs = parse_ivs(o[2])
            got = elems(ivs)
        except ValueError:
            bad.append((i, f"ackranges:malformed:{k}", f"`{op}` -> {out}"))
            dead = True
            continue
        res = o[1]
        before = S
        if not normalized(ivs):
            bad.append((i, f"ackranges:not-normalized:{k}", f"after `{op}` the range list {o[2]} is not sorted/disjoint/non-adjacent"))

        def expect_same(expected_res, expected_set):
            if res != expected_res:
                bad.append((i, f"ackranges:result-mismatch:{k}", f"`{op}` on {fmt_ivs(runs_of(before))}: expected {expected_res}, implementation {res}"))
            if got != expected_set:
                bad.append((i, f"ackranges:content-mismatch:{k}", f"after `{op}` on {fmt_ivs(runs_of(before))}: implementation holds {o[2]}, plain set {fmt_ivs(runs_of(expected_set))}"))

        if k == "new":
            limit = args[0]
            R = set()
            expect_same("-", set())
        elif k in ("ins", "insv"):
            lo, hi = (args[0], args[1]) if k == "ins" else (args[0], args[0])
            new = set(range(lo, hi + 1))
            R |= new
            T = before | new
            D = T - got
            desc = f"`{op}` on {fmt_ivs(runs_of(before))} (limit {limit}) -> {res} {o[2]}"
            if got - T:
                bad.append((i, "ackranges:spurious-element", f"{desc}: holds {sorted(got - T)[:5]} which are neither old nor newly inserted"))
            if D and got and max(D) > min(got):
                bad.append((i, "ackranges:evicted-non-lowest", f"{desc}: discarded {fmt_ivs(runs_of(D))} although lower packet numbers were kept"))
            truns = runs_of(T)
            if any((a in D) != (b in D) or any((x in D) != (a in D) for x in range(a, b + 1)) for a, b in truns):
                bad.append((i, "ackranges:partial-range-evicted", f"{desc}: discarded {fmt_ivs(runs_of(D))} is not a union of whole ranges"))
            if D and len(truns) <= limit:
                bad.append((i, "ackranges:needless-eviction", f"{desc}: discarded {fmt_ivs(runs_of(D))} although {len(truns)} ranges fit the limit"))
            if nruns(before) <= limit and nruns(D) > max(0, len(truns) - limit):
                bad.append((i, "ackranges:over-eviction", f"{desc}: discarded {nruns(D)} ranges, {max(0, len(truns) - limit)} would do"))
            if nruns(got) > limit and nruns(got) > nruns(before):
                bad.append((i, "ackranges:over-limit", f"{desc}: {nruns(got)} ranges exceed the limit"))
            if not D:
                want = "ok"
            elif D == new:
                want = f"failed:{lo}-{hi}"
            else:
                want = "dropped:" + fmt_ivs(runs_of(D))
            if res != want:
                bad.append((i, "ackranges:result-mismatch:ins", f"{desc}: the discarded set is {fmt_ivs(runs_of(D))}, so the result should be {want}"))
        elif k == "rm":
            lo, hi = args
            if lo > hi:
                expect_same("invalid", before)
            else:
                new = {x for x in before if not lo <= x <= hi}
                if nruns(new) > nruns(before) and not (limit > nruns(before) + 1):
                    expect_same("limit", before)      # IntervalSet::remove refuses a split at limit-1 (see gen/interval_set.py)
                else:
                    expect_same("ok", new)
                    if res == "ok":
                        R = {x for x in R if not lo <= x <= hi}
        elif k == "pop":
            r = runs_of(before)
            if r:
                expect_same(f"{r[0][0]}-{r[0][1]}", before - set(range(r[0][0], r[0][1] + 1)))
                R -= set(range(r[0][0], r[0][1] + 1))
            else:
                expect_same("none", before)
        elif k == "clear":
            expect_same("-", set())
            R = set()
        elif k == "has":
            expect_same("1" if args[0] in before else "0", before)
        elif k == "min":
            expect_same(str(min(before)) if before else "none", before)
        elif k == "max":
            expect_same(str(max(before)) if before else "none", before)
        elif k == "spread":
            expect_same(str(max(before) - min(before)) if before else "0", before)
        elif k == "len":
            expect_same(str(nruns(before)), before)
        elif k == "iter":
            want = fmt_ivs(list(reversed(runs_of(before))))
            if res != want:
                bad.append((i, "ackranges:iter-order", f"`iter` on {fmt_ivs(runs_of(before))}: ACK order should be {want}, implementation {res}"))
            if got != before:
                bad.append((i, "ackranges:content-mismatch:iter", f"`iter` changed the set to {o[2]}"))
        if got - R:
            bad.append((i, "ackranges:spurious-element", f"after `{op}`: {sorted(got - R)[:5]} are acknowledged but were never received (or were removed)"))
            R |= got
        S = got
    return bad


def nontrivial(op, out):
    o = out.split()
    if len(o) == 3 and o[0] == "ok" and o[1] not in ("limit", "invalid") and op.split()[0] != "new":
        return op + "|" + o[1][:7] + "|" + o[2]
    return None


def _expected_next(S, limit, op):
    """reference successor (used only to enumerate states in `closure`; the oracle re-checks every step)"""
    t = op.split()
    if t[0] == "ins":
        lo, hi = int(t[1]), int(t[2])
        T = S | set(range(lo, hi + 1))
        if len(runs_of(T)) > limit and nruns(T) > nruns(S):
            r = runs_of(T)[0]
            return T - set(range(r[0], r[1] + 1))
        return T
    if t[0] == "rm":
        lo, hi = int(t[1]), int(t[2])
        new = {x for x in S if not lo <= x <= hi}
        if nruns(new) > nruns(S) and not (limit > nruns(S) + 1):
            return S
        return new
    if t[0] == "pop":
        r = runs_of(S)
        return S - set(range(r[0][0], r[0][1] + 1)) if r else S
    return S


def closure(limit, universe):
    """all (reachable state, op) pairs for ops = ins/rm of every sub-interval of the universe + pop, breadth
    first from the empty set until no new state appears (see gen/interval_set.py: covers op sequences of
    any length over this alphabet, because the complete state is printed and checked after every op)"""
    alphabet = []
    for a in universe:
        for b in universe:
            if a <= b:
                alphabet += [f"ins {a} {b}", f"rm {a} {b}"]
    alphabet.append("pop")
    start = frozenset()
    path = {start: []}
    queue = [start]
    ops = []
    while queue:
        nxt = []
        for s in queue:
            for op in alphabet:
                ops += [f"new {limit}"] + path[s] + [op, "reset"]
                ns = frozenset(_expected_next(set(s), limit, op))
                if ns not in path:
                    path[ns] = path[s] + [op]
                    nxt.append(ns)
        queue = nxt
    return ops, len(path)


def _history(rng, base, span, limit, k):
    ops = [] if limit is None else [f"new {limit}"]
    for _ in range(k):
        c = rng.random()
        a = rng.randrange(span)
        b = a if rng.random() < 0.4 else min(span - 1, a + rng.randrange(1, 4))
        lo, hi = base + a, base + b
        if c < 0.30:
            ops.append(f"ins {lo} {hi}")
        elif c < 0.62:
            # the typical receive pattern: single packet numbers, every other one
            ops.append(f"insv {base + 2 * rng.randrange((span + 1) // 2)}" if rng.random() < 0.6 else f"insv {lo}")
        elif c < 0.72:
            ops.append(f"rm {base if rng.random() < 0.3 else 0} {hi}")      # on_packet_ack removes 0..=largest
        elif c < 0.80:
            ops.append(f"rm {lo} {hi}")
        elif c < 0.83:
            ops.append("pop")
        elif c < 0.90:
            ops.append(f"has {lo}")
        elif c < 0.99:
            ops.append(rng.choice(["min", "max", "spread", "len", "iter", "iter"]))
        else:
            ops.append("clear")
    ops.append("reset")
    return ops


def gen(rng, n, tier):
    ops = []
    # corpus: the repo's own unit-test scenario, the default limit, boundary packet numbers
    ops += ["new 3", "insv 0", "insv 2", "insv 4", "insv 6", "insv 0", "iter", "reset"]
    ops += [f"insv {2 * i}" for i in range(12)] + ["len", "iter", "insv 1", "insv 0", "reset"]
    ops += ["new 2", f"ins {PN_MAX - 1} {PN_MAX}", f"insv {PN_MAX - 3}", f"insv {PN_MAX - 5}", f"rm 0 {PN_MAX}", "min", "reset"]
    ops += ["new 2", "ins 1 9", "rm 5 5", "rm 0 5", "insv 20", "insv 30", "insv 0", "spread", "reset"]
    for lim in (1, 2, 3):
        o, _ = closure(lim, list(range(6)))
        ops += o
    if tier == "thorough":
        for lim in (1, 2, 3, 4, 5):
            o, _ = closure(lim, list(range(10)))
            ops += o
    target = len(ops) + n
    bases = [0, 0, 0, 1000, PN_MAX - 15]
    while len(ops) < target:
        base = rng.choice(bases)
        lim = rng.choice(LIMITS + [None])
        span = rng.choice([8, 10, 12, 16]) if (lim or 10) < 10 else rng.choice([16, 24, 32, 48])
        if base + span - 1 > PN_MAX:
            base = PN_MAX - span + 1
        ops += _history(rng, base, span, lim, rng.randrange(3, 50))
    return ops
