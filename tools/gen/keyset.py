"""ops for the `keyset` component (vh-core, real KeySet<GenKey> as two endpoints A/B) / Lean `keyset` driver.

Histories (separated by `reset`) interleave encrypt / deliver (in order, delayed, duplicated, never =
dropped) / forged packets / timer expiry, with tiny limits so that confidentiality limits, key-update
windows, peer-initiated updates, derivation windows and the integrity limit are reached constantly.

The oracle is the property (C15) evaluated on the IMPLEMENTATION's output lines only:
  keyset:conf-limit-exceeded                 one endpoint sealed more than `conf` packets under one key generation
  keyset:no-update-before-limit              the active key was used up to the limit although no key update was in
                                             progress and no newer generation had been used yet
  keyset:integrity-limit-not-closing         failed authentications reached the integrity limit, no AEAD_LIMIT_REACHED
  keyset:genuine-packet-undecryptable        a genuine packet of the receiver's current generation, of the next one
                                             (no update in progress) or of the previous one (update in progress) failed
  keyset:phase-rotated-back                  receiving a packet made the active key an OLDER generation          (F5)
  keyset:older-generation-for-higher-pn:after-rotate-back    sealed with an older key than an earlier packet, because
                                             the endpoint's active key went backwards                            (F5)
  keyset:older-generation-for-higher-pn:update-in-progress   sealed with a key older than the ACTIVE key: a new update
                                             was initiated while the "next" slot still held the previous key     (F5b)
  keyset:generations-diverged                the endpoints' active generations differ by two or more
  keyset:forged-packet-accepted / keyset:panic
"""

WHO = ["A", "B"]


def _hist(rng, tier):
    c = rng.randrange(8, 21)
    w = rng.randrange(2, 6)
    i = rng.randrange(3, 7)
    ops = [f"config {c} {i} {w}"]
    n = rng.randrange(30, 160 if tier == "quick" else 400)
    now = rng.randrange(1, 2000)
    sent = {"A": [], "B": []}           # ids of enc ops per sender (refused ones are ids too -> bad-op deliveries, rare)
    nxt = {"A": 0, "B": 0}              # in-order delivery cursor into the peer's list
    deadlines = []
    nid = 0
    style = rng.random()
    # style: how chatty the reverse direction is (peer-initiated updates need answers)
    p_enc = 0.30 + 0.25 * rng.random()
    p_timeout = 0.04 + 0.12 * rng.random()
    p_forge = 0.03 if style < 0.8 else 0.15
    for _ in range(n):
        now += rng.choice([0, 1, 50, 400, 999, 1000, 1001, 3000, 12000])
        r = rng.random()
        if r < p_enc:
            x = rng.choice(WHO) if rng.random() < 0.8 else "A"
            k = 1 if rng.random() < 0.93 else rng.randrange(2, c + 3)     # bursts run into the limits
            for _ in range(k):
                ops.append(f"enc {x}")
                sent[x].append(nid)
                nid += 1
        elif r < p_enc + p_timeout:
            x = rng.choice(WHO)
            if deadlines and rng.random() < 0.7:
                d = rng.choice(deadlines[-4:])
                t = max(1, d + rng.choice([-1001, -1000, -999, -1, 0, 1, 5000]))
            else:
                t = now
            ops.append(f"timeout {x} {t}")
        elif r < p_enc + p_timeout + p_forge:
            x = rng.choice(WHO)
            ops.append(f"forge {x} {rng.randrange(2)} {rng.randrange(0, 40)} {rng.randrange(0, 40)} {now + 5000}")
        else:
            x = rng.choice(WHO)
            peer = "B" if x == "A" else "A"
            lst = sent[peer]
            if not lst:
                continue
            q = rng.random()
            if q < 0.55 and nxt[x] < len(lst):
                pid = lst[nxt[x]]                     # in order
                nxt[x] += 1
            elif q < 0.70:
                pid = lst[-1]                         # newest (skips = reordering / loss of the ones before)
                nxt[x] = len(lst)
            elif q < 0.85 and nxt[x] > 0:
                pid = lst[rng.randrange(0, nxt[x])]   # duplicate / long-delayed packet
            else:
                pid = rng.choice(lst)
            la = rng.randrange(0, len(lst) + 2)
            pto = rng.choice([1, 999, 1000, 3000, 30000])
            deadlines.append(now + pto)
            ops.append(f"deliver {x} {pid} {la} {now + pto}")
    return ops


# directed histories (kept first): the F5 witness, its F5b sibling, limits, timer boundary
def _enc(x, k):
    return [f"enc {x}"] * k


CORPUS = [
    # F5: new-phase packet, delayed old-phase packet inside the derivation window, encrypt
    ["config 10 3 3"] + _enc("B", 9) + ["deliver A 8 0 9000", "deliver A 2 5 9500", "enc A"],
    # F5 with pn >= largest acked (the `pn < largest_acked` test is dead code)
    ["config 10 3 3"] + _enc("B", 9) + ["deliver A 8 0 9000", "deliver A 2 0 9500", "enc A", "timeout A 8500", "enc A"],
    # F5b: the active key re-enters the update window while the derivation timer is armed
    ["config 10 3 3"] + _enc("B", 9) + ["deliver A 8 0 9000"] + _enc("A", 12) + ["timeout A 8000", "enc A", "timeout A 8001", "enc A", "enc A"],
    # silent peer: the next key is used up to the limit, then refusal
    ["config 8 3 2"] + _enc("A", 20) + ["timeout A 5", "enc A"],
    # integrity limit, genuine-but-too-old packets count as failures too
    ["config 12 4 3", "forge A 0 1 0 100", "forge A 1 2 0 100", "forge A 1 3 0 100", "forge A 0 4 0 100", "forge A 0 5 0 100", "enc B", "deliver A 5 0 100"],
    # complete key update round trips with timer boundaries
    ["config 9 5 2"] + _enc("A", 9) + ["deliver B 8 3 5000", "enc B", "deliver A 9 0 7000", "timeout B 3999", "timeout B 4000", "timeout B 4001",
                                        "timeout A 6001", "deliver B 0 8 9000", "deliver A 9 0 9000"] + _enc("B", 9) + ["deliver A 18 0 9999", "enc A", "deliver B 19 0 12000"],
    # desynchronisation after a rotate-back: B moves on to generation 2 while A sits on generation 0
    ["config 10 4 3"] + _enc("B", 9) + ["deliver A 8 0 9000", "enc A", "deliver B 9 0 9000", "timeout B 9000", "deliver A 0 5 9500", "timeout A 9500"]
    + _enc("B", 9) + ["deliver A 18 0 20000", "deliver A 17 0 20000", "deliver A 18 0 20000", "deliver A 18 0 20000", "deliver A 18 0 20000"],
    # the production key-update window (Limits::default()): 12 packets below the window edge, silent peer
    ["config 10012 3 default"] + _enc("A", 10016) + ["timeout A 5", "enc A"],
    # malformed
    ["enc A", "config 10 3 3", "config 10 3 3", "deliver A 0 0 1", "enc C", "deliver A x 0 1", "forge A 2 0 0 1", "timeout A 0", "bogus", "enc A", "deliver A 0 0 1", "deliver B 0 0 0"],
]


def gen(rng, n, tier):
    ops = []
    for h in CORPUS:
        ops += h + ["reset"]
    m = len(ops) + n          # n random ops on top of the directed histories
    while len(ops) < m:
        ops += _hist(rng, tier) + ["reset"]
    return ops


def _state(tok):
    """tokens `A p g o ae nu ep t B p g o ae nu ep t` -> {'A': {...}, 'B': {...}} or None"""
    if len(tok) != 16 or tok[0] != "A" or tok[8] != "B":
        return None
    st = {}
    for k, off in (("A", 0), ("B", 8)):
        p, g, o, ae, nu, ep, t = tok[off + 1:off + 8]
        try:
            st[k] = {"p": int(p), "g": int(g), "o": int(o) if not o.startswith("?") else None, "ae": int(ae), "nu": int(nu), "ep": int(ep),
                     "armed": t != "-"}
        except ValueError:
            return None
    return st


def oracle(ops, outs):
    bad = []
    cfg = None
    st = None

    def new_history():
        return {"pk": {}, "cnt": {"A": {}, "B": {}}, "maxgen": {"A": -1, "B": -1}, "fail": {"A": 0, "B": 0}, "nid": 0}
    h = new_history()
    for idx, (op, out) in enumerate(zip(ops, outs)):
        t = op.split()
        o = out.split()
        if t == ["reset"]:
            cfg, st, h = None, None, new_history()
            continue
        if o and o[0] == "panic":
            bad.append((idx, "keyset:panic", f"{op} panicked: {out}"))
            cfg, st, h = None, None, new_history()     # the harness restarts the component
            continue
        if out == "bad-op" or not o:
            continue
        if t[0] == "config":
            cfg = (int(t[1]), int(t[2]), t[3])
            st = _state(o[1:])
            continue
        if cfg is None:
            continue
        conf, integ, window = cfg
        new = _state(o[-16:])
        if new is None or st is None:
            bad.append((idx, "keyset:unparsable-output", f"{op} -> {out}"))
            st = new
            continue
        if t[0] == "enc":
            x = t[1]
            pid = h["nid"]
            h["nid"] += 1
            if o[0] == "ok":
                pn, ph, g = int(o[2]), int(o[3]), int(o[4])
                h["pk"][pid] = (x, pn, ph, g)
                cnt = h["cnt"][x]
                cnt[g] = cnt.get(g, 0) + 1
                if cnt[g] > conf:
                    bad.append((idx, "keyset:conf-limit-exceeded",
                                f"{x} sealed {cnt[g]} packets under key generation {g}, confidentiality limit {conf}"))
                a = st[x]["g"]
                if g < h["maxgen"][x]:
                    if g < a:
                        bad.append((idx, "keyset:older-generation-for-higher-pn:update-in-progress",
                                    f"{x} sealed pn {pn} with generation {g} although its active key is generation {a} and an earlier "
                                    f"packet used generation {h['maxgen'][x]} (update initiated while the previous one is in progress)"))
                    else:
                        bad.append((idx, "keyset:older-generation-for-higher-pn:after-rotate-back",
                                    f"{x} sealed pn {pn} with generation {g}; an earlier packet used generation {h['maxgen'][x]}"))
                if g == a and cnt[g] >= conf and h["maxgen"][x] <= g and not st[x]["armed"]:
                    bad.append((idx, "keyset:no-update-before-limit",
                                f"{x} used its active key (generation {g}) for {cnt[g]} packets = limit {conf} without having started a key update"))
                h["maxgen"][x] = max(h["maxgen"][x], g)
        elif t[0] in ("deliver", "forge"):
            x = t[1]
            pkt = h["pk"].get(int(t[2])) if t[0] == "deliver" else None
            g = pkt[3] if pkt else None
            a, armed = st[x]["g"], st[x]["armed"]
            if o[0] == "ok":
                if t[0] == "forge":
                    bad.append((idx, "keyset:forged-packet-accepted", f"{op} -> {out}"))
                if new[x]["g"] < a:
                    bad.append((idx, "keyset:phase-rotated-back",
                                f"{x}: receiving a generation-{g} packet (phase {pkt[2] if pkt else '?'}) moved the active key from generation {a} "
                                f"back to generation {new[x]['g']} ({' '.join(o[:3])})"))
            else:
                h["fail"][x] += 1
                if g is not None and (g == a or (g == a + 1 and not armed) or (g + 1 == a and armed)):
                    bad.append((idx, "keyset:genuine-packet-undecryptable",
                                f"{x} (active generation {a}, update {'in progress' if armed else 'not in progress'}) failed to open a genuine "
                                f"generation-{g} packet: {out}"))
                if h["fail"][x] >= integ and o[:2] != ["err", "aead-limit"]:
                    bad.append((idx, "keyset:integrity-limit-not-closing",
                                f"{x}: {h['fail'][x]} packets failed authentication, integrity limit {integ}, result {' '.join(o[:2])}"))
        if abs(new["A"]["g"] - new["B"]["g"]) >= 2 and abs(st["A"]["g"] - st["B"]["g"]) < 2:
            bad.append((idx, "keyset:generations-diverged",
                        f"after {op}: A's active key is generation {new['A']['g']}, B's is generation {new['B']['g']}"))
        st = new
    # first occurrence of every signature first (the driver only registers the first few failures)
    seen, first, rest = set(), [], []
    for b in bad:
        if b[1] in seen:
            rest.append(b)
        else:
            seen.add(b[1])
            first.append(b)
    return first + rest


def nontrivial(op, out):
    if not out.startswith("ok") or op == "reset":
        return None
    return op.split()[0] + "|" + out
