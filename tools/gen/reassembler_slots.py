"""ops for the `reassembler-slots` component: the same real Reassembler as `reassembler`, observed
including chunk boundaries (`pop` = one pop_watermarked call, chunk lengths of every read, report());
the Lean side is Data.SlotBuf, the transcription of the slot/allocation layer.

The oracle is the `reassembler` oracle (content / sizes / rejections) on the same outputs plus the
chunk-level facts the property implies: chunk lengths add up to the bytes handed out, a single pop
never exceeds its watermark, report().bytes equals len()."""
from gen import reassembler as base


def to_slots(lines):
    return ["pop " + l.split()[1] if l.startswith("popn ") else l for l in lines]


def gen(rng, n, tier):
    return to_slots(base.gen(rng, n, tier))


def diff(ctx, n, exhaustive_too=False):
    import sys
    import vlib
    me = sys.modules[__name__]
    vlib.step_diff(ctx, "vh-core", "reassembler-slots", me, n)
    if exhaustive_too:
        for name, ops in base.exhaustive_shards():
            class Shard:
                oracle = staticmethod(me.oracle)
                nontrivial = staticmethod(lambda op, out: None)
                gen = staticmethod(lambda rng, n, tier, ops=ops: to_slots(ops))
            res = vlib.step_diff(ctx, "vh-core", "reassembler-slots", Shard, 0,
                                 name="D:vh-core/reassembler-slots exhaustive, " + name)
            del res


def _base_view(op, out):
    """(op, out) in the vocabulary of the `reassembler` component"""
    o = out.split()
    if not o or o[0] in ("panic", "bad-op"):
        return op, out
    k = 1 if o[0] == "ok" else 2
    if len(o) != k + 10:
        return op, out
    tok, chunks = o[k], o[k + 1]
    rest = o[k + 2:]
    b_out = o[:k] + [tok, rest[0]] + rest[2:]
    t = op.split()
    if t[0] == "pop":
        op = f"popn {t[1]} {base.tok_len(tok)}"
    return op, " ".join(b_out)


def oracle(ops, outs):
    b_ops, b_outs = [], []
    bad = []
    for i, (op, out) in enumerate(zip(ops, outs)):
        bo, bout = _base_view(op, out)
        b_ops.append(bo)
        b_outs.append(bout)
        o = out.split()
        if not o or o[0] in ("panic", "bad-op"):
            continue
        k = 1 if o[0] == "ok" else 2
        if len(o) != k + 10:
            continue
        tok, chunks = o[k], o[k + 1]
        sizes = [] if chunks == "-" else [int(x) for x in chunks.split(",")]
        if sum(sizes) != base.tok_len(tok) or any(x == 0 for x in sizes):
            bad.append((i, "reasm:sizes", f"op {i} `{op}` -> `{out[:160]}`: chunk lengths {sizes} do not add up to the {base.tok_len(tok)} bytes handed out"))
        t = op.split()
        if t[0] == "pop" and t[1] != "inf" and sizes and sizes[0] > int(t[1]):
            bad.append((i, "reasm:wrong-bytes", f"op {i} `{op}` -> `{out[:160]}`: chunk above the watermark"))
    return bad + base.oracle(b_ops, b_outs)


def nontrivial(op, out):
    bo, bout = _base_view(op, out)
    r = base.nontrivial(bo, bout)
    if r is None:
        return None
    o = out.split()
    return r + "|" + (o[2] if len(o) > 2 else "")
