"""ops for the `replay_window` component (vh-dc: real receiver::State) / Lean `replay_window` driver.

The oracle is the PROPERTY (C19, receiver half), written against a plain python set + max and
evaluated on the implementation's outputs only:
  an id is accepted  iff  it is not the reserved maximum, was not accepted before, and
  (nothing accepted yet  or  id > highest accepted  or  highest accepted - id < 896).
"""
import itertools

MAX = 2**62 - 1
W = 896
ALPHABET = [0, 1, 2, 895, 896, 897, 898, MAX - 1, MAX]
EDGE = [0, 1, 2, 894, 895, 896, 897, 898, 1790, 1791, 1792, 1793]


def _base(rng):
    c = rng.random()
    if c < 0.25:
        return rng.randrange(0, 3000)
    if c < 0.5:
        return rng.choice([2**16, 2**30, 2**32 - 1, 2**32, 2**32 + 5, 2**48, 2**61, 2**62 - 5000]) + rng.randrange(0, 2000)
    if c < 0.6:
        return MAX - 1 - rng.randrange(0, 1800)
    return rng.getrandbits(rng.choice([10, 12, 20, 40, 61]))


def _hist_edge(rng):
    """populate around a maximum, then probe the window edge and replay"""
    b = _base(rng) + 2000
    b = min(b, MAX - 1)
    ops = [f"post {b}"]
    probes = [b - d for d in EDGE if b - d >= 0]
    rng.shuffle(probes)
    for p in probes[:rng.randrange(3, len(probes) + 1)]:
        ops.append(f"post {p}")
    for p in rng.sample(probes, min(4, len(probes))):
        ops.append(f"post {p}")           # replays
    if rng.random() < 0.5:
        ops.append("snap")
    return ops


def _hist_slide(rng):
    """fill part of the window, slide the maximum forward by a critical delta, probe again"""
    b = min(_base(rng) + 1000, MAX - 5000)
    ids = [b - rng.randrange(0, W) for _ in range(rng.randrange(2, 12))] + [b, b - 895]
    ids = [i for i in ids if i >= 0]
    rng.shuffle(ids)
    ops = [f"post {i}" for i in ids]
    d = rng.choice([1, 2, 63, 64, 65, 894, 895, 896, 897, 898, 1791, 1792, 4000, 2**20])
    nb = min(b + d, MAX - 1)
    ops.append(f"post {nb}")
    again = ids + [nb - 895, nb - 896, nb - 897, nb - 1, b + 1, b - 1]
    again = [i for i in again if 0 <= i <= MAX]
    rng.shuffle(again)
    ops += [f"post {i}" for i in again[:rng.randrange(4, len(again) + 1)]]
    ops.append("min_unseen")
    if rng.random() < 0.5:
        ops.append("snap")
    return ops


def _hist_shuffle(rng):
    """a full (or partial) window of ids delivered in shuffled order with replays"""
    b = _base(rng)
    n = rng.choice([5, 20, 100, 895, 896, 897, 1000])
    ids = [b + i for i in range(n) if b + i <= MAX]
    k = rng.choice([len(ids), len(ids), max(1, len(ids) // 3)])
    ids = rng.sample(ids, k)
    extra = rng.sample(ids, min(len(ids), rng.randrange(0, 8)))
    seq = ids + extra
    rng.shuffle(seq)
    if len(seq) > 300:
        seq = seq[:300] + [b, b + n - 1, b + n - 896, b + n - 897]
        seq = [i for i in seq if 0 <= i <= MAX]
    ops = [f"post {i}" for i in seq]
    ops.append("min_unseen")
    return ops


def _hist_jumps(rng):
    """huge jumps, the reserved id, ids just below it"""
    ops = []
    cur = rng.randrange(0, 100)
    for _ in range(rng.randrange(3, 14)):
        c = rng.random()
        if c < 0.3:
            cur = min(MAX, cur + rng.choice([1, 895, 896, 897, 2**16, 2**32, 2**40, 2**60]))
            ops.append(f"post {cur}")
        elif c < 0.45:
            ops.append(f"post {rng.choice([MAX, MAX - 1, MAX - 2, MAX - 896, MAX - 897, MAX - 898])}")
        elif c < 0.55:
            ops.append(f"pre {rng.choice([MAX, MAX - 1, 0, cur])}")
        elif c < 0.65:
            ops.append("min_unseen")
        else:
            back = rng.choice([0, 1, 2, 894, 895, 896, 897, 898, 5000])
            ops.append(f"post {max(0, cur - back)}")
    return ops


def _hist_small(rng):
    """random words over the exhaustive alphabet (+ neighbours)"""
    n = rng.randrange(1, 10)
    al = ALPHABET + [3, 894, 899, 1791, 1792, 1793, MAX - 2]
    return [f"post {rng.choice(al)}" for _ in range(n)]


def _hist_walk(rng):
    cur = _base(rng)
    ops = []
    for _ in range(rng.randrange(5, 40)):
        step = rng.choice([-1000, -897, -896, -895, -100, -3, -2, -1, 0, 0, 1, 2, 3, 50, 400, 895, 896, 897, 3000])
        cur = min(MAX, max(0, cur + step))
        ops.append(f"post {cur}")
    ops.append("min_unseen")
    ops.append("snap")
    return ops


HISTS = [_hist_edge, _hist_slide, _hist_shuffle, _hist_jumps, _hist_small, _hist_walk]

FIXED = [
    # first id ever is arbitrary; the window edge right after it
    ["post 0", "post 0", "min_unseen", "snap"],
    ["post 896", "post 1", "post 0", "post 1", "post 896", "snap"],
    ["post 895", "post 0", "post 0"],
    ["post 897", "post 2", "post 1", "post 0"],
    ["post 5", "post 901", "post 5", "post 6", "post 4", "post 900"],
    [f"post {MAX}", f"pre {MAX}", "min_unseen", f"post {MAX - 1}", f"post {MAX}", "min_unseen", f"post {MAX - 896}", f"post {MAX - 897}", f"post {MAX - 1}"],
    ["post 10", "post 2000", "post 10", "post 1105", "post 1104", "post 2000", "snap"],
    ["post 100", "post 996", "post 100", "post 101", "post 996", "post 997", "post 101", "post 102"],
    ["pre 0", "pre 5", f"pre {MAX - 1}", f"pre {MAX}", f"post {2**62}", "post x", "frob 1", "post"],
    ["stress 2 10 1"], ["stress 4 896 2"], ["stress 8 300 3"], ["stress 3 1 4"], ["stress 0 1 1", "stress 2 897 1"],
]


def exhaustive(maxlen=6):
    """every word of length maxlen over ALPHABET (prefixes cover the shorter ones)"""
    ops = []
    for w in itertools.product(ALPHABET, repeat=maxlen):
        ops.extend(f"post {k}" for k in w)
        ops.append("reset")
    return ops


def gen(rng, n, tier):
    ops = []
    for h in FIXED:
        ops += h + ["reset"]
    # exhaustive short words: length 3 always, length 6 in the thorough tier
    ops += exhaustive(6 if tier == "thorough" else 3)
    budget = n
    while budget > 0:
        h = rng.choice(HISTS)(rng)
        ops += h + ["reset"]
        budget -= len(h) + 1
    k = 6 if tier == "thorough" else 2
    for i in range(k):
        ops += [f"stress {rng.choice([2, 3, 4, 8])} {rng.choice([1, 7, 64, 500, 895, 896])} {rng.randrange(2**32)}", "reset"]
    return ops


def _stress_base(seed):
    return (seed * 2654435761 + 12345) % 2**61


def oracle(ops, outs):
    bad = []
    S = set()
    mx = None
    for i, (op, out) in enumerate(zip(ops, outs)):
        t = op.split()
        if t == ["reset"]:
            S = set()
            mx = None
            continue
        if out.startswith("panic"):
            bad.append((i, "replay:panic", f"{op} panicked: {out}"))
            S = set()
            mx = None
            continue
        if len(t) == 2 and t[0] == "post" and t[1].isdigit() and int(t[1]) <= MAX:
            k = int(t[1])
            in_window = mx is None or k > mx or mx - k < W
            fresh = k not in S
            if out == "ok":
                if not fresh:
                    bad.append((i, "replay:accepted-twice", f"key id {k} accepted a second time (highest accepted {mx})"))
                elif k == MAX:
                    bad.append((i, "replay:max-id-accepted", f"reserved maximum key id {k} accepted"))
                elif not in_window:
                    bad.append((i, "replay:too-old-accepted", f"key id {k} is {mx - k} below the highest accepted id {mx} (window {W}) but was accepted"))
                S.add(k)
                mx = k if mx is None else max(mx, k)
            elif out in ("err already-exists", "err unknown"):
                if fresh and k != MAX and in_window:
                    d = "first id" if mx is None else (f"{k - mx} above" if k > mx else f"{mx - k} below")
                    bad.append((i, "replay:fresh-in-window-rejected", f"not-yet-seen key id {k} ({d} the highest accepted id {mx}) rejected with {out}"))
                if out == "err already-exists" and fresh:
                    bad.append((i, "replay:false-already-exists", f"key id {k} was never accepted but is reported as definitely seen"))
            else:
                bad.append((i, "replay:bad-output", f"{op} -> {out}"))
        elif len(t) == 2 and t[0] == "pre" and t[1].isdigit() and int(t[1]) <= MAX:
            k = int(t[1])
            if k == MAX and out == "ok":
                bad.append((i, "replay:max-id-accepted", f"pre-check let the reserved maximum key id {k} through"))
            elif k != MAX and out != "ok":
                bad.append((i, "replay:pre-check-rejects-valid", f"{op} -> {out}"))
        elif t == ["min_unseen"]:
            o = out.split()
            if len(o) != 2 or o[0] != "ok" or not o[1].isdigit():
                bad.append((i, "replay:bad-output", f"{op} -> {out}"))
            elif mx is not None and int(o[1]) <= mx:
                bad.append((i, "replay:min-unseen-not-above-max", f"minimum unseen id {o[1]} is not above the highest accepted id {mx}"))
        elif len(t) == 4 and t[0] == "stress" and all(x.isdigit() for x in t[1:]):
            th, n, seed = int(t[1]), int(t[2]), int(t[3])
            if not (1 <= th <= 64 and 1 <= n <= W and seed < 2**32):
                continue
            m = dict(kv.split("=") for kv in out.split()[1:]) if out.startswith("ok ") else None
            if m is None:
                bad.append((i, "replay:bad-output", f"{op} -> {out}"))
                continue
            if int(m["dups"]) != 0:
                bad.append((i, "replay:accepted-twice", f"{op}: {m['dups']} key ids accepted twice under concurrency ({out})"))
            if int(m["accepted"]) - int(m["dups"]) < n:
                bad.append((i, "replay:fresh-in-window-rejected", f"{op}: only {m['accepted']} of {n} distinct in-window ids accepted under concurrency ({out})"))
            if int(m["accepted"]) - int(m["dups"]) > n:
                bad.append((i, "replay:bad-output", f"{op}: more ids accepted than offered ({out})"))
    return bad


def nontrivial(op, out):
    return op if out.startswith("ok") and op != "reset" else None
