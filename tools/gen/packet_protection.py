"""ops for the `packet_protection` component (vh-core: REAL s2n-quic-crypto keys + REAL encode/unprotect/decrypt)
and the Lean `packet_protection` driver (PacketLayout + ideal-AEAD verdicts).

  key <suite> <client secret> <server secret>
  case <suite> <id> short <dcid> <pn> <largest acked> <spin> <key phase> <payload>   -> ok <len> <regions>
  case initial <id> initial <dcid> <scid> <token> <pn> <largest acked> <payload>     -> ok <len> <regions>
  open <suite> <id>                      genuine packet                -> ok opened
  flip <suite> <id> <byte index> <mask>  one byte XOR mask             -> ok rejected
  trunc <suite> <id> <n>                 first n bytes                 -> ok rejected
  splice <suite> <a> <b> <cut>           a[:cut] ++ b[cut:]            -> ok rejected
  reopen <suite> <id> <largest acked'>   receiver with another pn-expansion base -> opened iff same pn
  kat …                                  RFC 9001 Appendix A vectors   -> ok opened

The oracle is the property's twin on the implementation's outputs: EVERY byte position of every genuine
packet is flipped with several masks, every truncation length is tried, splices at every region boundary
and inside every region; none may open.  Signatures: pp:tamper-accepted:<suite>:<region>,
pp:genuine-rejected:<suite>, pp:kat-rejected:<name>, pp:panic."""
import os
import re

SUITES = ["aes128", "aes256", "chacha20"]
SECRET_LEN = {"aes128": 32, "aes256": 48, "chacha20": 32}
MASKS = [0x01, 0x80, 0xff]
MAXPN = 2**62 - 1

# RFC 9001 Appendix A.3 (server Initial, pn 1, 2-byte pn) and A.5 (ChaCha20-Poly1305 short header)
RFC_DCID = "8394c8f03e515708"
A3_PACKET = (
    "cf000000010008f067a5502a4262b5004075c0d95a482cd0991cd25b0aac406a"
    "5816b6394100f37a1c69797554780bb38cc5a99f5ede4cf73c3ec2493a1839b3"
    "dbcba3f6ea46c5b7684df3548e7ddeb9c3bf9c73cc3f3bded74b562bfb19fb84"
    "022f8ef4cdd93795d77d06edbb7aaf2f58891850abbdca3d20398c276456cbc4"
    "2158407dd074ee")
A3_PAYLOAD = (
    "02000000000600405a020000560303eefce7f7b37ba1d1632e96677825ddf739"
    "88cfc79825df566dc5430b9a045a1200130100002e00330024001d00209d3c94"
    "0d89690b84d08a60993c144eca684d1081287c834d5311bcf32bb9da1a002b00"
    "020304")
A5_SECRET = "9ac312a7f877468ebe69422748ad00a15443f18203a07d6060f688f30f21632b"
A5_PACKET = "4cfe4189655e5cd55c41f69080575d7999c25a5bfb"
A5_PAYLOAD = "01"
A5_PN = 654360564


def _rfc_a2():
    """client Initial of RFC 9001 A.2, read from the offline RFC text shipped with the repo (specs/)."""
    repo = os.environ.get("VERIF_REPO", "/repo")
    p = os.path.join(repo, "specs", "www.rfc-editor.org", "rfc", "rfc9001.txt")
    try:
        txt = open(p).read()
    except OSError:
        return None
    a, b = txt.rfind("A.2.  Client Initial"), txt.rfind("A.3.  Server Initial")
    if a < 0 or b < a:
        return None
    sec = txt[a:b]
    pay = re.search(r"1162-byte payload:\s*\n(.*?)\n\s*\n\s*The unprotected header", sec, re.S)
    pkt = re.search(r"resulting protected packet is:\s*\n(.*)$", sec, re.S)
    if not pay or not pkt:
        return None
    hexs = lambda s: "".join(re.findall(r"\b[0-9a-f]{2,}\b", s))
    payload = hexs(pay.group(1))
    packet = hexs(pkt.group(1))
    if len(packet) != 2400 or len(payload) > 2 * 1162:
        return None
    return packet, payload + "00" * (1162 - len(payload) // 2)


def hexs(b):
    return bytes(b).hex() if b else "-"


def _pn_len(pn, la):
    d = 2 * (pn - la)
    return 1 if d <= 0xff else 2 if d <= 0xffff else 3 if d <= 0xffffff else 4


def _short_case(rng, suite, cid, dcid, pn, la, spin, phase, n):
    payload = bytes(rng.randrange(256) for _ in range(n))
    return f"case {suite} {cid} short {hexs(dcid)} {pn} {la} {spin} {phase} {hexs(payload)}"


def _tamper_all(ops, suite, cid, total, masks):
    for i in range(total):
        for m in masks:
            ops.append(f"flip {suite} {cid} {i} {m}")
    for n in range(total):
        ops.append(f"trunc {suite} {cid} {n}")


def gen(rng, n, tier):
    """n scales the number of random extra cases; the systematic part is always complete.  Independent groups of
    cases are separated by `reset` (each group re-keys), so that a failing op is replayed with a short history."""
    ops = []
    # --- known answers first (nonce = iv XOR pn, key/iv/hp derivation, header protection) ---
    ops.append(f"kat initial server {RFC_DCID} 0 {A3_PACKET} {A3_PAYLOAD}")
    ops.append(f"kat chacha20 {A5_SECRET} 0 {A5_PN - 1} {A5_PACKET} {A5_PAYLOAD}")
    a2 = _rfc_a2()
    if a2:
        ops.append(f"kat initial client {RFC_DCID} 0 {a2[0]} {a2[1]}")
    extra = max(1, n // 1500)

    def short_case(suite, case):
        cid, dc, pn, la, spin, phase, plen = case
        ops.append(_short_case(rng, suite, cid, dc, pn, la, spin, phase, plen))
        ops.append(f"open {suite} {cid}")
        total = 1 + len(dc) + _pn_len(pn, la) + plen + 16
        masks = MASKS if plen <= 100 else [rng.choice([1, 2, 4, 8, 16, 32, 64, 128])]
        _tamper_all(ops, suite, cid, total, masks)
        # the first byte with every single-bit mask (form, fixed, spin, reserved, key phase, pn length)
        for bit in range(8):
            ops.append(f"flip {suite} {cid} 0 {1 << bit}")
        # another packet-number expansion base: the nonce must change
        for la2 in (la + 2**33, la + 2**17 if pn - la < 100 else max(0, la - 2**17), la):
            if 0 <= la2 <= MAXPN:
                ops.append(f"reopen {suite} {cid} {la2}")

    for suite in SUITES:
        cs = bytes(rng.randrange(256) for _ in range(SECRET_LEN[suite]))
        ss = bytes(rng.randrange(256) for _ in range(SECRET_LEN[suite]))
        key = f"key {suite} {hexs(cs)} {hexs(ss)}"
        dcid = bytes(rng.randrange(256) for _ in range(8))
        # (id, dcid, pn, la, spin, phase, payload length): all four pn lengths, both key phases, dcid 0/8/20
        base = rng.randrange(1000, 2**30)
        ca = ("a", dcid, base + 3, base, 0, 0, 33)
        cb = ("b", dcid, base + 4, base, 1, 0, 33)                      # same connection, next pn, other spin
        cc = ("c", dcid, base + 200, base, 0, 1, 40)                    # 2-byte pn, key phase 1
        cd = ("d", dcid, base + 40000, base, 1, 1, 24)                  # 3-byte pn
        singles = [("e", dcid, base + 2**24, base, 0, 0, 24),           # 4-byte pn
                   ("f", b"", 7, 0, 1, 0, 38),                          # empty dcid
                   ("g", bytes(rng.randrange(256) for _ in range(20)), 9, 2, 0, 0, 64)]
        for k in range(extra):
            la = rng.randrange(0, 2**40)
            pn = la + rng.choice([1, 2, 100, 127, 128, 129, 32767, 32768, 2**23 - 1, 2**23, 2**31 - 1])
            singles.append((f"r{k}", bytes(rng.randrange(256) for _ in range(rng.choice([0, 4, 8, 16, 20]))), pn, la,
                            rng.randrange(2), rng.randrange(2), rng.choice([48, 100, 300, 1200])))
        ops += ["reset", key]
        short_case(suite, ca)
        short_case(suite, cb)
        # splices of two genuine packets of the same connection (different spin bit): every cut
        for cut in range(1, 1 + 8 + 1 + 33 + 16):
            ops.append(f"splice {suite} a b {cut}")
            ops.append(f"splice {suite} b a {cut}")
        ops += ["reset", key]
        short_case(suite, cc)
        short_case(suite, cd)
        for cut in range(1, 1 + 8 + 2 + 24 + 16, 3):
            ops.append(f"splice {suite} c d {cut}")
        for case in singles:
            ops += ["reset", key]
            short_case(suite, case)
        # below-minimum payloads are refused by the encoder (model of the size rule)
        ops += ["reset", key]
        for plen in (0, 1, 15, 16, 19, 23, 24, 25, 26):
            ops.append(_short_case(rng, suite, "z", b"", 5, 0, 0, 0, plen))
        ops.append(_short_case(rng, suite, "z", dcid, 5, 9, 0, 0, 40))       # pn below largest acked: truncation error
        ops.append(_short_case(rng, suite, "z", dcid, 5, 0, 0, 0, 1500))     # does not fit
    # --- Initial keys (AES-128-GCM, secrets derived from the client's DCID) ---
    dcid = bytes(rng.randrange(256) for _ in range(8))
    init = [
        ("a", dcid, b"\x11" + bytes(rng.randrange(256) for _ in range(4)), b"", 2, 0, 40),
        ("b", dcid, b"\x22" + bytes(rng.randrange(256) for _ in range(4)), b"", 3, 0, 40),
        ("c", bytes(rng.randrange(256) for _ in range(20)), bytes(rng.randrange(256) for _ in range(20)),
         bytes(rng.randrange(256) for _ in range(70)), 70000, 1, 60),
        ("d", dcid, b"", b"\x07", 300, 100, 1100),
    ]
    for cid, dc, sc, tok, pn, la, plen in init:
        if cid != "b":
            ops.append("reset")
        payload = bytes(rng.randrange(256) for _ in range(plen))
        ops.append(f"case initial {cid} initial {hexs(dc)} {hexs(sc)} {hexs(tok)} {pn} {la} {hexs(payload)}")
        ops.append(f"open initial {cid}")
        toklen = 1 if len(tok) < 64 else 2
        total = 1 + 4 + 1 + len(dc) + 1 + len(sc) + toklen + len(tok) + 2 + _pn_len(pn, la) + plen + 16
        masks = MASKS if plen <= 100 else [rng.choice([1, 4, 32, 128])]
        _tamper_all(ops, "initial", cid, total, masks)
        for bit in range(8):
            ops.append(f"flip initial {cid} 0 {1 << bit}")
        ops.append(f"reopen initial {cid} {la + 2**33}")
        ops.append(f"reopen initial {cid} {la}")
        if cid == "b":
            for cut in range(8 + len(dcid), 1 + 4 + 1 + 8 + 1 + 5 + 1 + 2 + 1 + 40 + 16):
                ops.append(f"splice initial a b {cut}")
                ops.append(f"splice initial b a {cut}")
    return ops


REGION_RE = re.compile(r"([a-z]+):(\d+)")


def _region_of(regions, i):
    for name, ln in regions:
        if i < ln:
            return name
        i -= ln
    return "beyond"


def oracle(ops, outs):
    bad = []
    cases = {}     # (suite, id) -> (total, regions)
    for i, (op, out) in enumerate(zip(ops, outs)):
        t = op.split()
        o = out.split()
        if not o:
            continue
        if o[0] == "panic":
            bad.append((i, "pp:panic", f"{op[:120]} panicked: {out}"))
            continue
        if t[0] == "reset":
            cases = {}
            continue
        suite = t[1] if len(t) > 1 else "?"
        if t[0] == "key":
            for k in [k for k in cases if k[0] == suite]:
                del cases[k]
        elif t[0] == "case":
            if o[0] == "ok" and len(o) >= 3:
                cases[(suite, t[2])] = (int(o[1]), [(m.group(1), int(m.group(2))) for m in REGION_RE.finditer(o[2])])
            elif o[0] == "err" and o[1].startswith("genuine-"):
                bad.append((i, f"pp:genuine-rejected:{suite}", f"a packet sealed with the real {suite} keys does not open again ({out}): {op[:160]}"))
            else:
                cases.pop((suite, t[2]), None)
        elif t[0] == "open":
            if out != "ok opened":
                bad.append((i, f"pp:genuine-rejected:{suite}", f"{op}: the genuine packet must open to its payload, implementation gave {out}"))
        elif t[0] == "kat":
            if out != "ok opened":
                name = "rfc9001-a5-chacha20" if suite != "initial" else "rfc9001-initial-" + t[2]
                bad.append((i, f"pp:kat-rejected:{name}", f"RFC 9001 Appendix A sample packet ({name}) must open to the RFC's payload, implementation gave {out}"))
        elif t[0] in ("flip", "trunc", "splice"):
            if out == "bad-op":
                # the generator only emits ops inside the domain: a refusal means the real packet does not have the
                # length / shape the generator assumed, i.e. bytes would silently go untested
                bad.append((i, "pp:unexpected-bad-op", f"{op[:160]} was refused as outside the domain"))
                continue
            if out == "ok identical":
                continue
            if out != "ok rejected":
                c = cases.get((suite, t[2]))
                if t[0] == "flip":
                    region = _region_of(c[1], int(t[3])) if c else "?"
                elif t[0] == "trunc":
                    region = "truncated"
                else:
                    region = "splice-" + (_region_of(c[1], int(t[4])) if c else "?")
                bad.append((i, f"pp:tamper-accepted:{suite}:{region}",
                            f"{op}: a datagram that differs from every sealed packet was accepted ({out}) by the real unprotect+decrypt"))
        elif t[0] == "reopen":
            # opened only when the receiver reconstructs the very packet number that was sealed (checked below for far bases)
            if out not in ("ok opened", "ok rejected", "bad-op"):
                bad.append((i, f"pp:tamper-accepted:{suite}:nonce", f"{op}: {out}"))
    # nonce binding: for every case, a far-away expansion base (+2^33) must be rejected
    for i, (op, out) in enumerate(zip(ops, outs)):
        t = op.split()
        if t[0] == "reopen" and out.startswith("ok opened"):
            # find the case line to learn its largest-acked
            la = None
            for j in range(i - 1, -1, -1):
                u = ops[j].split()
                if u[0] == "case" and u[1] == t[1] and u[2] == t[2]:
                    la = int(u[6]) if u[3] == "short" else int(u[8])
                    break
            if la is not None and abs(int(t[3]) - la) >= 2**33:
                bad.append((i, f"pp:tamper-accepted:{t[1]}:nonce",
                            f"{op}: the receiver reconstructed a different packet number (expansion base {t[3]} vs {la}) and the packet still opened: the nonce does not depend on the packet number"))
    return bad


def nontrivial(op, out):
    t = op.split()
    if out.startswith("ok") and t[0] in ("flip", "trunc", "splice", "open", "case", "reopen", "kat"):
        return op if t[0] != "case" else " ".join(t[:4] + t[-4:-1])
    return None
