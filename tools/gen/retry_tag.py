"""ops + independent oracle for the `retry_tag` component (vh-core: real Retry decode + Retry::validate with the
s2n-quic-crypto RetryKey). The oracle is RFC 9001 §5.8 written out: AES-128-GCM (pure python, tools/quiccrypto.py,
self-tested on the RFC vectors) with the fixed key / nonce over the Retry pseudo-packet
    ODCID length (1) | ODCID | the Retry packet WITHOUT its 16-byte tag, exactly as received,
including the four unused bits of the first byte (RFC 9000 §17.2.5: arbitrary) and any version-1 field values."""
import quiccrypto as qc

KEY = bytes.fromhex("be0c690b9f66575a1d766b54e368c84e")
NONCE = bytes.fromhex("461599d35d632bf2239825bb")
A4 = ("8394c8f03e515708", "ff000000010008f067a5502a4262b5746f6b656e04a265ba2eff4d829058fb3f0f2496ba")


def tag_for(odcid, body):
    return qc.AesGcm(KEY).seal(NONCE, bytes([len(odcid)]) + odcid + body, b"")


def build(rng, first=None):
    odcid = bytes(rng.randrange(256) for _ in range(rng.choice([8, 8, 9, 16, 20])))
    dcid = bytes(rng.randrange(256) for _ in range(rng.choice([0, 4, 8, 20])))
    scid = bytes(rng.randrange(256) for _ in range(rng.choice([0, 8, 16, 20])))
    token = bytes(rng.randrange(256) for _ in range(rng.choice([1, 5, 16, 64, 200])))
    if first is None:
        first = 0xf0 | rng.randrange(16)      # long header, fixed bit, type Retry (0b11), unused bits arbitrary
    body = bytes([first]) + b"\x00\x00\x00\x01" + bytes([len(dcid)]) + dcid + bytes([len(scid)]) + scid + token
    return odcid, body


def gen(rng, n, tier):
    ops = [f"val {A4[0]} {A4[1]}"]
    # every value of the unused bits once
    for low in range(16):
        odcid, body = build(rng, 0xf0 | low)
        ops.append(f"val {odcid.hex()} {(body + tag_for(odcid, body)).hex()}")
    while len(ops) < n:
        odcid, body = build(rng)
        tag = tag_for(odcid, body)
        c = rng.random()
        if c < 0.5:
            pkt = body + tag
        elif c < 0.65:
            t = bytearray(tag); t[rng.randrange(16)] ^= 1 << rng.randrange(8); pkt = body + bytes(t)
        elif c < 0.8:
            b = bytearray(body); i = rng.randrange(5, len(b)); b[i] ^= 1 << rng.randrange(8); pkt = bytes(b) + tag
        elif c < 0.9:
            o = bytearray(odcid); o[rng.randrange(len(o))] ^= 1; ops.append(f"val {bytes(o).hex()} {(body + tag).hex()}"); continue
        else:
            # the unused bits changed AFTER the tag was computed: the tag no longer matches
            b = bytearray(body); b[0] ^= 1 << rng.randrange(4); pkt = bytes(b) + tag
        ops.append(f"val {odcid.hex()} {pkt.hex()}")
    return ops


def expected(op):
    t = op.split()
    odcid, pkt = bytes.fromhex(t[1]), bytes.fromhex(t[2])
    body, tag = pkt[:-16], pkt[-16:]
    return "valid" if tag_for(odcid, body) == tag else "invalid"


def oracle(ops, outs):
    bad = []
    for i, (op, out) in enumerate(zip(ops, outs)):
        if not out.startswith("ok "):
            # mutated bytes may break the header (connection-id length bytes): a decode error is a rejection
            if expected(op) == "valid":
                bad.append((i, "retry:rejected-valid:decode", f"{op} -> {out}: a Retry packet with a correct RFC 9001 5.8 integrity tag was not decoded"))
            continue
        want = expected(op)
        got = out.split()[1]
        if got != want:
            first = bytes.fromhex(op.split()[2])[0]
            sig = "retry:rejected-valid" if want == "valid" else "retry:accepted-invalid"
            bad.append((i, sig, f"{op} -> {out}: RFC 9001 5.8 says {want} (first byte {first:#04x}, unused bits {first & 0x0f:#x})"))
    return bad


def nontrivial(op, out):
    return f"{op.split()[2][:2]}|{out}" if out.startswith("ok") else None
