"""ops for the `keychain` component (vh-tls: REAL TLS handshakes of s2n-quic-tls / s2n-quic-rustls in every server x client
combination and cipher suite, REAL `OneRttKey::derive_next_key` chains on both sides; Lean `keychain`: ideal AEAD over
generation-tagged packets).  Protocol: harness/vh-tls/src/comp/keychain.rs.

The oracle is evaluated on the implementation's outputs only. Per handshake (segment):
  (a) agreement     what one side seals with generation k the peer opens with generation k, payload intact
                    (both directions, every provider pair)                       keychain:genuine-rejected:...
  (b) distinctness  generation j never opens a generation i != j packet          keychain:wrong-generation-opened:...
                    the same (pn, header, payload) sealed under generations 0..N
                    gives pairwise different ciphertexts                         keychain:same-ciphertext-across-generations:...
                    nobody opens what he sealed himself                          keychain:own-packet-opened:...
  (c) RFC 9001      with the TLS traffic secrets (NSS key log of the TLS library, or the known secrets of a `keys`
                    segment) tools/quiccrypto.py derives generation k by "quic ku" and key/iv by "quic key"/"quic iv"
                    and must reproduce every ciphertext byte for byte            keychain:seal-differs-from-rfc9001:...
                    and the header-protection mask (hp key never updated)        keychain:hp-mask-differs-from-rfc9001:...
  (d) limits        the suite's RFC 9001 §6.6 limits, unchanged along the chain  keychain:limit-above-rfc9001:... / keychain:limits-change-along-chain:...
  (e) tampering     other packet number / header / flipped byte never opens      keychain:tampered-opened:...
"""
import hashlib

import quiccrypto as qc

SUITES = ["aes128", "aes256", "chacha20"]
# (server provider, client provider, suite); s2n x s2n cannot be forced to ChaCha20-Poly1305 (no such s2n-tls policy)
TLS_COMBOS = [(s, c, su) for s in ("s2n", "rustls") for c in ("s2n", "rustls") for su in SUITES
              if not (s == "s2n" and c == "s2n" and su == "chacha20")]
A5_SECRET = "9ac312a7f877468ebe69422748ad00a15443f18203a07d6060f688f30f21632b"
A5 = ("a5", 654360564, "4200bff4", "01", "655e5cd55c41f69080575d7999c25a5bfb")
MAXPN = 2 ** 62 - 1


def hx(b):
    return bytes(b).hex() if b else "-"


def unhx(s):
    return b"" if s == "-" else bytes.fromhex(s)


def _rand_bytes(rng, lo, hi):
    return bytes(rng.randrange(256) for _ in range(rng.randint(lo, hi)))


def _pn(rng):
    k = rng.random()
    if k < 0.3:
        return rng.randrange(0, 300)
    if k < 0.6:
        return rng.choice([2 ** 8, 2 ** 16, 2 ** 24, 2 ** 32, 2 ** 40, 2 ** 62 - 1]) - rng.randrange(0, 3)
    return rng.randrange(0, MAXPN + 1)


def _segment(rng, head, n_gens, full_matrix=True, extra=4):
    """one handshake and everything asked about it"""
    ops = ["reset", head, "limits c 0", "limits s 0"]
    for who, peer in (("c", "s"), ("s", "c")):
        sample = hx(_rand_bytes(rng, 16, 16))
        ops += [f"hp {who} seal {sample}", f"hp {peer} open {sample}"]
    order = ["c"] * n_gens + ["s"] * n_gens
    if rng.random() < 0.5:
        rng.shuffle(order)
    ops += [f"next {w}" for w in order]
    # the SAME packet under every generation (distinctness), per direction
    base = {}
    for who in "cs":
        pn, hdr, pay = _pn(rng), hx(_rand_bytes(rng, 1, 20)), hx(_rand_bytes(rng, 0, 40))
        base[who] = (pn, hdr, pay)
        for g in range(n_gens + 1):
            ops.append(f"seal {who} {g} {who}b{g} {pn} {hdr} {pay}")
    if head.startswith("keys chacha20 ") and head.endswith(" " + A5_SECRET):
        ops.append(f"seal s 0 {A5[0]} {A5[1]} {A5[2]} {A5[3]}")
        ops.append(f"open c 0 {A5[0]}")
    # a few independent packets per generation
    extras = []
    for e in range(extra):
        who = rng.choice("cs")
        g = rng.randint(0, n_gens)
        pid = f"{who}x{e}"
        ops.append(f"seal {who} {g} {pid} {_pn(rng)} {hx(_rand_bytes(rng, 1, 20))} {hx(_rand_bytes(rng, 0, 64))}")
        extras.append((who, g, pid))
    # the observation table: generation j opener of the peer on the generation i packet
    pairs = [(i, j) for i in range(n_gens + 1) for j in range(n_gens + 1)]
    if not full_matrix:
        pairs = [(i, j) for (i, j) in pairs if abs(i - j) <= 2 or i == 0 or j == 0 or rng.random() < 0.02]
    for who, peer in (("c", "s"), ("s", "c")):
        for (i, j) in pairs:
            ops.append(f"open {peer} {j} {who}b{i}")
    for (who, g, pid) in extras:
        peer = "s" if who == "c" else "c"
        ops.append(f"open {peer} {g} {pid}")
        ops.append(f"open {peer} {(g + 1) % (n_gens + 1)} {pid}")
        ops.append(f"open {who} {g} {pid}")                       # own packet
    for who in "cs":                                              # own packets, diagonal
        for g in range(0, n_gens + 1, max(1, n_gens // 3)):
            ops.append(f"open {who} {g} {who}b{g}")
    # tampering on the base packets (and the identity control)
    for who, peer in (("c", "s"), ("s", "c")):
        pn, hdr, pay = base[who]
        for g in sorted({0, 1, n_gens}):
            pid = f"{who}b{g}"
            ctlen = len(unhx(pay)) + 16
            ops.append(f"openx {peer} {g} {pid} {pn} {hdr} -")
            ops.append(f"openx {peer} {g} {pid} {pn + 1 if pn < MAXPN else pn - 1} {hdr} -")
            h2 = bytearray(unhx(hdr))
            h2[rng.randrange(len(h2))] ^= 1 << rng.randrange(8)
            ops.append(f"openx {peer} {g} {pid} {pn} {hx(h2)} -")
            ops.append(f"openx {peer} {g} {pid} {pn} {hdr} {rng.randrange(ctlen)}")
            ops.append(f"openx {peer} {g} {pid} {pn} {hdr} {ctlen - 1}")
    ops += [f"limits c {n_gens}", f"limits s {n_gens}", f"limits c {n_gens // 2}"]
    return ops


def _keys_head(rng, suite, a5=False):
    n = qc.SUITES[suite][2]
    if a5:
        # RFC 9001 A.5 is the SERVER's write secret; the client's must differ (direction separation)
        return f"keys chacha20 {hx(_rand_bytes(rng, n, n))} {A5_SECRET}"
    return f"keys {suite} {hx(_rand_bytes(rng, n, n))} {hx(_rand_bytes(rng, n, n))}"


def gen(rng, n, tier):
    """n = number of key updates walked on both sides in the full-matrix segments"""
    ops = []
    rounds = 1 if tier == "quick" and n <= 8 else 2
    for r in range(rounds):
        combos = list(TLS_COMBOS)
        rng.shuffle(combos)
        for (s, c, su) in combos:
            ops += _segment(rng, f"hs {s} {c} {su}", n if r == 0 else rng.randint(1, n))
        ops += _segment(rng, "hs rustls-default rustls-default aes128", min(n, 3), extra=1)
        for su in SUITES:
            ops += _segment(rng, _keys_head(rng, su), n)
        ops += _segment(rng, _keys_head(rng, "chacha20", a5=True), min(n, 4))
    if tier != "quick" or n > 8:
        # long chains, banded table
        for head in ("hs s2n rustls aes128", "hs rustls s2n chacha20", "hs rustls rustls aes256", "hs s2n s2n aes256",
                     _keys_head(rng, "aes128"), _keys_head(rng, "chacha20")):
            ops += _segment(rng, head, 8 * n, full_matrix=False, extra=8)
    # the harness never sees this unknown handshake request shape: domain edge
    ops += ["reset", "hs s2n s2n chacha20", "next c", "reset", "next c", "hs s2n nobody aes128", "keys aes128 00 00"]
    return ops


# ------------------------------------------------------------------------------------------------
# parsing a run
# ------------------------------------------------------------------------------------------------

class Seg:
    def __init__(self, start, head):
        self.start = start
        self.head = head.split(" ")
        self.ok = False
        self.suite = None
        self.secrets = {"c": None, "s": None}
        self.packets = {}          # id -> dict(who, gen, pn, hdr, pay, ct, idx)
        self.opens = []            # (idx, opener, gen, id, opened, payload)
        self.openx = []            # (idx, opener, gen, id, pn, hdr, flip, opened)
        self.limits = []           # (idx, who, gen, suite, conf, integ, tag)
        self.hp = []               # (idx, who, dir, sample, mask)
        self.gens = {"c": 1, "s": 1}

    @property
    def label(self):
        h = self.head
        if h[0] == "hs":
            return f"{h[1]}/{h[2]}:{self.suite or h[3]}"
        return f"crypto/crypto:{self.suite or h[1]}"


def parse(ops, outs):
    segs = []
    cur = None
    for i, (op, out) in enumerate(zip(ops, outs)):
        t = op.split(" ")
        o = out.split(" ")
        if t[0] in ("hs", "keys"):
            cur = Seg(i, op)
            segs.append(cur)
            if o[0] == "ok" and len(o) >= 2:
                cur.ok = True
                cur.suite = o[1]
                if len(o) >= 4:
                    for who, v in (("c", o[2]), ("s", o[3])):
                        try:
                            cur.secrets[who] = bytes.fromhex(v) if v not in ("-", "conflict") else None
                        except ValueError:
                            cur.secrets[who] = None
            continue
        if op == "reset":
            cur = None
            continue
        if cur is None or not cur.ok or o[0] != "ok":
            continue
        if t[0] == "next" and len(o) == 2:
            cur.gens[t[1]] = int(o[1]) + 1
        elif t[0] == "seal" and len(o) == 2:
            cur.packets[t[3]] = {"who": t[1], "gen": int(t[2]), "pn": int(t[4]), "hdr": unhx(t[5]), "pay": unhx(t[6]),
                                 "ct": unhx(o[1]) if o[1] != "sealed" else None, "idx": i}
        elif t[0] == "open" and len(o) >= 2:
            cur.opens.append((i, t[1], int(t[2]), t[3], o[1] == "opened", o[2] if len(o) > 2 else None))
        elif t[0] == "openx" and len(o) >= 2:
            cur.openx.append((i, t[1], int(t[2]), t[3], int(t[4]), unhx(t[5]), t[6], o[1] == "opened"))
        elif t[0] == "limits" and len(o) == 5:
            cur.limits.append((i, t[1], int(t[2]), o[1], int(o[2]), int(o[3]), int(o[4])))
        elif t[0] == "hp" and len(o) == 2:
            cur.hp.append((i, t[1], t[2], unhx(t[3]), o[1]))
    return segs


def bucket(g):
    return "gen0" if g == 0 else "gen1" if g == 1 else "gen2+"


def observation_tables(seg):
    """{direction 'c2s'|'s2c': {(i, j): opened}} from the `open` ops of a segment (base packets only)"""
    tabs = {"c2s": {}, "s2c": {}}
    for (_, opener, j, pid, opened, _) in seg.opens:
        p = seg.packets.get(pid)
        if p is None or p["who"] == opener or not pid[1:2] == "b":
            continue
        d = "c2s" if p["who"] == "c" else "s2c"
        tabs[d].setdefault((p["gen"], j), []).append(opened)
    return tabs


def rfc_chains(seg):
    """python key chains per SEALING side, or None when the TLS library logged no secret"""
    out = {}
    for who in "cs":
        sec = seg.secrets[who]
        if sec is None or seg.suite not in qc.SUITES or len(sec) != qc.SUITES[seg.suite][2]:
            out[who] = None
        else:
            out[who] = qc.chain(seg.suite, sec, max(seg.gens.values()))
    return out


def oracle(ops, outs):
    fails = []
    for i, (op, out) in enumerate(zip(ops, outs)):
        if out.startswith("panic"):
            fails.append((i, "keychain:panic", f"{op[:80]} -> {out}"))
    for seg in parse(ops, outs):
        if not seg.ok:
            continue
        lab = seg.label
        chains = rfc_chains(seg)
        # (c) every ciphertext against RFC 9001
        for pid, p in seg.packets.items():
            ch = chains[p["who"]]
            if ch is not None and p["ct"] is not None and p["gen"] < len(ch):
                want = ch[p["gen"]].seal(p["pn"], p["hdr"], p["pay"])
                if want != p["ct"]:
                    side = "client" if p["who"] == "c" else "server"
                    fails.append((p["idx"], f"keychain:seal-differs-from-rfc9001:{lab}",
                                  f"{lab}: {side} generation {p['gen']} sealed pn {p['pn']} to {p['ct'].hex()}, RFC 9001 §5.1/§6.1 keys from the "
                                  f"TLS traffic secret give {want.hex()}"))
            if pid == A5[0] and p["ct"] is not None and p["ct"].hex() != A5[4]:
                fails.append((p["idx"], "keychain:rfc9001-a5-vector", f"RFC 9001 A.5 packet sealed to {p['ct'].hex()}, expected {A5[4]}"))
        # same plaintext under different generations
        for who in "cs":
            seen = {}
            for pid, p in sorted(seg.packets.items(), key=lambda kv: kv[1]["idx"]):
                if p["who"] != who or not pid[1:2] == "b" or p["ct"] is None:
                    continue
                if p["ct"] in seen:
                    side = "client" if who == "c" else "server"
                    fails.append((p["idx"], f"keychain:same-ciphertext-across-generations:{lab}",
                                  f"{lab}: {side} generations {seen[p['ct']]} and {p['gen']} seal the same packet to the same bytes: "
                                  f"derive_next_key did not change the key"))
                else:
                    seen[p["ct"]] = p["gen"]
        # (a) (b) opens
        for (idx, opener, j, pid, opened, payload) in seg.opens:
            p = seg.packets.get(pid)
            if p is None:
                continue
            d = "c2s" if p["who"] == "c" else "s2c"
            if p["who"] == opener:
                if opened:
                    fails.append((idx, f"keychain:own-packet-opened:{lab}", f"{lab}: {opener} opened its own generation {p['gen']} packet with its generation {j} opener"))
            elif p["gen"] == j:
                if not opened:
                    fails.append((idx, f"keychain:genuine-rejected:{lab}",
                                  f"{lab}: generation {j} packet of {p['who']} does not open under the peer's generation {j} key: the two chains diverge"))
                elif unhx(payload) != p["pay"]:
                    fails.append((idx, f"keychain:payload-corrupted:{lab}", f"{lab}: generation {j} packet opened to other bytes"))
            elif opened:
                fails.append((idx, f"keychain:wrong-generation-opened:{lab}",
                              f"{lab}: generation {p['gen']} packet of {p['who']} opens under the peer's generation {j} key: generations share a key"))
        # (e) tampering
        for (idx, opener, g, pid, pn, hdr, flip, opened) in seg.openx:
            p = seg.packets.get(pid)
            if p is None or p["who"] == opener:
                continue
            same = pn == p["pn"] and hdr == p["hdr"] and flip == "-" and g == p["gen"]
            if same and not opened:
                fails.append((idx, f"keychain:genuine-rejected:{lab}", f"{lab}: untouched packet rejected"))
            if not same and opened:
                kind = "pn" if pn != p["pn"] else "header" if hdr != p["hdr"] else "byte" if flip != "-" else "generation"
                fails.append((idx, f"keychain:tampered-opened:{lab}:{kind}", f"{lab}: packet with changed {kind} opened"))
        # (c) header protection
        for (idx, who, direction, sample, mask) in seg.hp:
            # `seal` uses the side's own write secret, `open` the peer's
            src = who if direction == "seal" else ("s" if who == "c" else "c")
            sec = seg.secrets[src]
            if sec is None or seg.suite not in qc.SUITES or len(sec) != qc.SUITES[seg.suite][2]:
                continue
            want = bytearray(qc.header_mask(seg.suite, sec, sample))
            want[0] &= 0x1f
            if want.hex() != mask:
                fails.append((idx, f"keychain:hp-mask-differs-from-rfc9001:{lab}", f"{lab}: hp mask {mask}, RFC 9001 §5.4 gives {want.hex()}"))
        # (d) limits
        first = {}
        for (idx, who, g, suite, conf, integ, tag) in seg.limits:
            if suite in qc.LIMITS:
                c_max, i_max = qc.LIMITS[suite]
                if (c_max is not None and conf > c_max) or integ > i_max or conf < 1 or integ < 1:
                    fails.append((idx, f"keychain:limit-above-rfc9001:{lab}", f"{lab}: generation {g} reports limits {conf}/{integ}, RFC 9001 §6.6: {c_max}/{i_max}"))
            if tag != qc.TAG_LEN:
                fails.append((idx, f"keychain:tag-length:{lab}", f"{lab}: tag length {tag}"))
            if suite != seg.suite:
                fails.append((idx, f"keychain:suite-changes-along-chain:{lab}", f"{lab}: generation {g} reports suite {suite}"))
            if who in first and first[who] != (conf, integ, tag):
                fails.append((idx, f"keychain:limits-change-along-chain:{lab}", f"{lab}: generation {g} of {who} reports {conf}/{integ}/{tag}, generation 0 {first[who]}"))
            first.setdefault(who, (conf, integ, tag))
    fails.sort(key=lambda f: f[0])
    return fails


def nontrivial(op, out):
    t = op.split(" ")
    o = out.split(" ")
    if o[0] != "ok":
        return None
    if t[0] == "hs":
        return f"hs:{t[1]}:{t[2]}:{o[1]}"
    if t[0] == "keys":
        return f"keys:{t[1]}"
    if t[0] in ("open", "openx"):
        return f"{t[0]}:{t[1]}:{min(int(t[2]), 9)}:{t[3][:2]}:{o[1]}"
    if t[0] in ("seal", "next", "limits"):
        return f"{t[0]}:{t[1]}:{min(int(t[2]) if t[0] != 'next' else int(o[1]), 9)}"
    return t[0]


def normalise(op, out):
    """what of an implementation output line the abstract model predicts: the TLS secrets, ciphertext bytes and header
    protection masks depend on the handshake's randomness"""
    t = op.split(" ")
    o = out.split(" ")
    if o[0] != "ok":
        return out
    if t[0] in ("hs", "keys"):
        return " ".join(o[:2])
    if t[0] == "seal" and len(o) == 2:
        return f"ok sealed {len(unhx(o[1]))}"
    if t[0] == "hp" and len(o) == 2:
        return "ok mask"
    return out


# ------------------------------------------------------------------------------------------------
# reverse direction with KNOWN secrets: python seals (RFC 9001), the real s2n-quic-crypto keys open
# ------------------------------------------------------------------------------------------------

def gen_rfc(rng, n_gens, per_gen=2):
    ops, want = [], []
    for suite in SUITES + ["a5"]:
        a5 = suite == "a5"
        su = "chacha20" if a5 else suite
        head = _keys_head(rng, su, a5=a5)
        h = head.split(" ")
        chains = {"c": qc.chain(su, bytes.fromhex(h[2]), n_gens), "s": qc.chain(su, bytes.fromhex(h[3]), n_gens)}
        ops += ["reset", head]
        want += [None, None]
        for _ in range(n_gens):
            ops += ["next c", "next s"]
            want += [None, None]
        for g in range(n_gens + 1):
            for _ in range(per_gen):
                who = rng.choice("cs")
                peer = "s" if who == "c" else "c"
                pn, hdr, pay = _pn(rng), _rand_bytes(rng, 1, 20), _rand_bytes(rng, 0, 48)
                ct = chains[who][g].seal(pn, hdr, pay)
                ops.append(f"openhex {peer} {g} {pn} {hx(hdr)} {hx(ct)}")
                want.append(f"ok opened {hx(pay)}")
                g2 = (g + 1 + rng.randrange(n_gens)) % (n_gens + 1) if n_gens else g
                if g2 != g:
                    ops.append(f"openhex {peer} {g2} {pn} {hx(hdr)} {hx(ct)}")
                    want.append("ok rejected")
                ops.append(f"openhex {who} {g} {pn} {hx(hdr)} {hx(ct)}")
                want.append("ok rejected")
    return ops, want


def digest(lines):
    return hashlib.sha256("\n".join(lines).encode()).hexdigest()[:16]
