"""ops for the `sliding_window` component (vh-core) / Lean `sliding_window` driver.

Histories are separated by `reset`. Packet numbers are concentrated at the window edges: distance
0, 1, 2, 126..131 left of the right edge, jumps of 1, 2, 127..131 and huge jumps to the right,
re-insertions of earlier numbers, descending runs, right edges near 0 and near 2^62-1.
The thorough tier (and, shorter, the quick tier) additionally enumerates ALL insert sequences of
length 1..N over a 10-value alphabet (N = 5 thorough, 3 quick), each closed by a check() probe of
the whole alphabet range (check is a pure observer, so every interleaving with `check` is covered
as well).

The python oracle is a plain set of the packet numbers the *implementation* accepted: every
answer of insert/check/probe must be what a receiver that remembers everything would say, with the
"too old" edge at distance 129 from the largest accepted number.
"""
import itertools

MAXPN = 2**62 - 1
WIDTH = 129            # WINDOW_WIDTH of the code: distance >= 129 is TooOld
LEFT = [0, 0, 1, 1, 2, 3, 64, 126, 127, 127, 128, 128, 128, 129, 129, 130, 130, 131, 200, 257]
RIGHT = [1, 1, 1, 2, 2, 3, 64, 126, 127, 127, 128, 128, 129, 129, 130, 131, 200, 256, 257, 258, 2**32 + 1]
BASES = [0, 0, 1, 2, 5, 127, 128, 129, 130, 131, 256, 1000, 2**32 - 1, 2**32, MAXPN - 300, MAXPN - 129, MAXPN - 128, MAXPN - 1, MAXPN]
ALPHABET = [0, 1, 2, 3, 129, 130, 131, 258, 259, 260]
EXHAUSTIVE_LEN = {"quick": 3, "thorough": 5}


def clamp(v):
    return max(0, min(MAXPN, v))


def history(rng, length):
    ops = []
    seen = []
    re = None

    def probe():
        lo = clamp((re or 0) - 132)
        ops.append(f"probe {lo} {min(136, MAXPN - lo + 1)}")

    first = clamp(rng.choice(BASES) + rng.choice([0, 0, 0, 1, 3]))
    mode = rng.random()
    i = 0
    while i < length:
        c = rng.random()
        if re is None:
            v = first
        elif mode < 0.15 and c < 0.7:
            # descending run below the right edge
            v = clamp(re - (i + 1) * rng.choice([1, 1, 2, 43]))
        elif c < 0.40:
            v = clamp(re - rng.choice(LEFT))
        elif c < 0.70:
            v = clamp(re + rng.choice(RIGHT))
        elif c < 0.80 and seen:
            v = rng.choice(seen)
        elif c < 0.85:
            v = clamp(re + rng.choice([2**20, 2**32, 2**40, 2**61, MAXPN]))
        elif c < 0.90:
            v = rng.randrange(0, clamp(re + 300) + 1)
        else:
            v = clamp(re - rng.randrange(0, 140))
        k = rng.random()
        if k < 0.15:
            ops.append(f"check {v}")
        kind = "insert" if rng.random() < 0.75 else "ins"
        ops.append(f"{kind} {v}")
        seen.append(v)
        re = v if re is None else max(re, v)
        if rng.random() < 0.5:
            probe()
        elif rng.random() < 0.3:
            ops.append(f"check {clamp(re - rng.choice(LEFT))}")
        i += 1
    probe()
    return ops


def exhaustive(maxlen, alphabet=ALPHABET):
    """every insert sequence of length 1..maxlen over the alphabet, each followed by a check()
    probe of the whole alphabet range (so every interleaving with `check` is covered too)"""
    ops = []
    lo, hi = min(alphabet), max(alphabet)
    for n in range(1, maxlen + 1):
        for seq in itertools.product(alphabet, repeat=n):
            ops.append("reset")
            for j, v in enumerate(seq):
                ops.append(f"insert {v}" if j % 2 == 0 else f"ins {v}")
            ops.append(f"probe {lo} {hi - lo + 3}")
    return ops


def exhaustive_info(tier):
    n = EXHAUSTIVE_LEN.get(tier, 3)
    return {"alphabet": ALPHABET, "max_len": n, "sequences": sum(len(ALPHABET) ** k for k in range(1, n + 1)),
            "what": "all insert sequences of length 1..max_len over the alphabet, every insert result and a final "
                    "check() probe of the whole alphabet range compared with model and plain-set oracle"}


def gen(rng, n, tier):
    ops = []
    # fixed corpus: the repo's own unit-test sequences and the exact edges
    corpus = [
        [0, 0, 1, 1, 2, 5, 8, 7, 3, 6, 4, 7, 2, 8, MAXPN, 5],
        [0, 128, 128, 129, 0, 1],
        [0, 129, 129, 0, 1],
        [0, 127, 128, 0, 129, 1, 130, 2],
        [256], [MAXPN, MAXPN - 128, MAXPN - 129, MAXPN],
        [0, 2**32 + 1, 2**32 + 1, 0],
        [5, 4, 3, 2, 1, 0, 0, 134, 5, 6, 133],
        [300, 172, 171, 429, 300, 301, 172, 558, 429, 430],
    ]
    for seq in corpus:
        ops.append("reset")
        for v in seq:
            ops.append(f"check {v}")
            ops.append(f"insert {v}")
            ops.append(f"probe {clamp(v - 131)} 136")
    while len(ops) < n:
        ops.append("reset")
        ops += history(rng, rng.choice([3, 6, 12, 25, 40]))
    ops += exhaustive(EXHAUSTIVE_LEN.get(tier, 3))
    return ops


# ---------------------------------------------------------------------------------------------
# oracle: a plain set

def expected(S, re, pn):
    if re is None or pn > re:
        return "ok"
    if re - pn >= WIDTH:
        return "too-old"
    return "duplicate" if pn in S else "ok"


def signature(exp, got, in_s):
    if got == exp:
        return None
    if got == "ok":
        return "window:dup-accepted" if in_s else "window:too-old-accepted"
    if got == "duplicate":
        return "window:fresh-rejected-as-duplicate" if not in_s else "window:too-old-reported-duplicate"
    if got == "too-old":
        return "window:in-window-rejected-as-too-old"
    return "window:unexpected-output"


CH = {"O": "ok", "D": "duplicate", "T": "too-old"}


def parse_result(out):
    if out == "ok" or out.startswith("ok "):
        return "ok"
    if out == "err duplicate":
        return "duplicate"
    if out == "err too-old":
        return "too-old"
    return None


def oracle(ops, outs):
    bad = []
    S = set()
    re = None
    for i, (op, out) in enumerate(zip(ops, outs)):
        t = op.split()
        if t[0] == "reset":
            S = set()
            re = None
            continue
        if out.startswith("panic"):
            bad.append((i, f"window:panic:{t[0]}", f"sliding window {op} panicked after accepted set of {len(S)} numbers (right edge {re})"))
            S = set()
            re = None
            continue
        if out == "bad-op":
            continue
        if t[0] in ("insert", "ins", "check"):
            pn = int(t[1])
            got = parse_result(out)
            exp = expected(S, re, pn)
            sig = signature(exp, got, pn in S)
            if sig:
                bad.append((i, sig, f"{op}: right edge {re}, distance {None if re is None else re - pn}, "
                               f"{'already accepted' if pn in S else 'never accepted'}: plain set says {exp}, implementation says {out}"))
            if t[0] != "check" and got == "ok":
                if t[0] == "insert" and exp == "ok":
                    # the evicted set: never-accepted numbers of the old window that became too old
                    ev = [] if out == "ok -" else [int(x) for x in out.split()[1].split(",")]
                    want = []
                    if re is not None and pn > re:
                        want = [x for x in range(max(0, re - 128), re) if x not in S and pn - x >= WIDTH]
                    if ev != want:
                        bad.append((i, "window:evicted-mismatch", f"{op}: old right edge {re}: evicted {ev[:6]}… ({len(ev)}), plain set says {want[:6]}… ({len(want)})"))
                S.add(pn)
                re = pn if re is None else max(re, pn)
        elif t[0] == "probe":
            lo = int(t[1])
            chars = out.split()[1] if len(out.split()) > 1 else ""
            if chars == "-":
                chars = ""
            for j, c in enumerate(chars):
                pn = lo + j
                exp = expected(S, re, pn)
                sig = signature(exp, CH.get(c), pn in S)
                if sig:
                    bad.append((i, sig, f"{op}: check({pn}) with right edge {re}: plain set says {exp}, implementation says {CH.get(c)}"))
                    break
    return bad


def nontrivial(op, out):
    if out.startswith("panic") or out == "bad-op" or op == "reset":
        return None
    return (op + ">" + out)[:96]
