"""ops for the `pcong` component (vh-core: REAL `recovery::persistent_congestion::Calculator`).

  new <first_rtt_sample_us|none> <path_id>
  lost <pn> <time_sent_us> <path_id> <mtu_probing> <ack_eliciting>  -> ok <persistent_congestion_duration_ns>

Oracle (RFC 9002 §7.6.2 as far as the calculator is concerned): the reported duration never decreases within a
history, and it is never longer than the span between the first and the last lost ack-eliciting packet sent
after the first RTT sample on the calculator's path."""


def gen(rng, n, tier):
    ops = ["lost 1 10 0 0 1", "new 5 0", "lost 1 10 0 0 1", "lost 2 20 0 0 1", "lost 3 30 0 0 0", "lost 4 40 0 0 1", "lost 6 60 0 0 1",
           "lost 7 70 0 0 1", "reset"]
    made = 0
    while made < n:
        t = rng.randrange(1, 10**6)
        path = rng.randrange(0, 3)
        first = "none" if rng.random() < 0.1 else str(max(1, t + rng.choice([-1000, 0, 0, 1000, 50000])))
        ops.append(f"new {first} {path}")
        pn = rng.randrange(0, 100)
        for _ in range(rng.randrange(1, 25)):
            pn += rng.choice([1, 1, 1, 1, 2, 3])
            t += rng.choice([0, 1, 1000, 25000, 100000])
            p = path if rng.random() < 0.85 else rng.randrange(0, 3)
            ops.append(f"lost {pn} {t} {p} {int(rng.random() < 0.1)} {int(rng.random() < 0.8)}")
            made += 1
        ops.append("reset")
    return ops


def oracle(ops, outs):
    bad = []
    prev = 0
    lo = hi = None
    first = None
    path = 0
    for i, (op, out) in enumerate(zip(ops, outs)):
        t = op.split()
        if t[0] == "reset" or t[0] == "new":
            prev, lo, hi = 0, None, None
            if t[0] == "new":
                first = None if t[1] == "none" else int(t[1])
                path = int(t[2])
            else:
                first, path = None, 0
            continue
        if out.startswith("panic"):
            bad.append((i, "pcong:panic", f"{op}: {out}"))
            continue
        o = out.split()
        if o[0] != "ok" or t[0] != "lost":
            continue
        d = int(o[1])
        sent = int(t[2])
        if first is not None and sent >= first and int(t[3]) == path and t[4] == "0" and t[5] == "1":
            lo = sent if lo is None else lo
            hi = sent
        if d < prev:
            bad.append((i, "pcong:duration-decreased", f"{op}: {prev} -> {d}"))
        span = 0 if lo is None else (hi - lo) * 1000
        if d > span:
            bad.append((i, "pcong:duration-exceeds-lost-span", f"{op}: duration {d} ns > span {span} ns of lost ack-eliciting packets"))
        prev = d
    return bad[:10]


def nontrivial(op, out):
    return op + "|" + out if out.startswith("ok") and not out.endswith(" 0") else None
