"""ops for the `stateless_reset` component (vh-core: real `packet::stateless_reset::encode_packet`) / Lean driver.
   op: enc <max_tag_len> <trigger_len> <buf_len> <r>      (r: the u64 the deterministic generator returns)"""
STATELESS = True
TAGS = [0, 16, 32]
BUFS = [0, 15, 16, 25, 26, 27, 41, 42, 43, 57, 58, 59, 100, 600, 1199, 1200, 1201, 1500]
M64 = 2**64 - 1
# independent of the code: 1 first byte + 20 connection id + 4 packet number + 1 payload (+ AEAD tag)
MIN_WITHOUT_TAG = 1 + 20 + 4 + 1


def _rs(rng, tag, trig, buf):
    """random words that make the draw hit the lower end, the upper end, one past the upper end, anything"""
    hi = min(trig - 1, buf)
    lo = MIN_WITHOUT_TAG + tag
    span = max(hi - lo, 0)
    return [0, span, span + 1, M64, rng.getrandbits(64)]


def gen(rng, n, tier):
    ops = []
    # every trigger length 0..1500 x tag lengths, with the endpoint's 1200-byte buffer
    for trig in range(0, 1501):
        for tag in TAGS:
            for r in _rs(rng, tag, trig, 1200):
                ops.append(f"enc {tag} {trig} 1200 {r}")
    # other buffer lengths: all triggers in thorough tier, boundary triggers otherwise
    for buf in BUFS:
        if buf == 1200:
            continue
        trigs = range(0, 1501) if tier == "thorough" else sorted(set(
            list(range(0, 80)) + [buf - 1, buf, buf + 1, buf + 2, 599, 600, 601, 1199, 1200, 1201, 1202, 1499, 1500]))
        for trig in trigs:
            if trig < 0:
                continue
            for tag in TAGS:
                for r in _rs(rng, tag, trig, buf)[1:4]:
                    ops.append(f"enc {tag} {trig} {buf} {r}")
    for _ in range(n):
        tag = rng.choice(TAGS + [1, 8, 15, 17, 48])
        trig = rng.choice([rng.randrange(0, 120), rng.randrange(0, 1501), rng.randrange(1100, 70000)])
        buf = rng.choice([1200, 1200, rng.choice(BUFS), rng.randrange(0, 1600)])
        ops.append(f"enc {tag} {trig} {buf} {rng.choice(_rs(rng, tag, trig, buf))}")
    return ops


def oracle(ops, outs):
    """RFC 9000 §10.3/§10.3.3 on the implementation's answers: a stateless reset is strictly smaller than its
    trigger, at least the indistinguishable minimum, fits the buffer; none is sent iff that is impossible."""
    bad = []
    for i, (op, out) in enumerate(zip(ops, outs)):
        t = op.split()
        o = out.split()
        if t[0] != "enc":
            continue
        tag, trig, buf = int(t[1]), int(t[2]), int(t[3])
        lo = MIN_WITHOUT_TAG + tag
        possible = min(trig - 1, buf) >= lo
        if not o or o[0] == "panic":
            bad.append((i, "sreset:panic", f"{op}: encode_packet panicked: {out}"))
            continue
        if out == "ok none":
            if possible:
                bad.append((i, "sreset:none-unexpected", f"{op}: no stateless reset although lengths {lo}..{min(trig - 1, buf)} are admissible"))
            continue
        if o[0] != "ok" or len(o) < 2 or not o[1].isdigit():
            bad.append((i, "sreset:malformed-output", f"{op}: {out}"))
            continue
        n = int(o[1])
        if n >= trig:
            bad.append((i, "sreset:not-smaller", f"{op}: stateless reset of {n} bytes for a {trig}-byte trigger"))
        if n < lo:
            bad.append((i, "sreset:below-min", f"{op}: stateless reset of {n} bytes is below the indistinguishable minimum {lo}"))
        if n > buf:
            bad.append((i, "sreset:beyond-buffer", f"{op}: {n} bytes reported for a {buf}-byte buffer"))
        if not possible:
            bad.append((i, "sreset:some-unexpected", f"{op}: a stateless reset was produced although none can be both >= {lo} and < {trig} (buffer {buf})"))
        if len(o) >= 4:
            if not (o[2].isdigit() and 64 <= int(o[2]) < 128):
                bad.append((i, "sreset:first-byte", f"{op}: first byte {o[2]} is not a short header with the fixed bit"))
            if o[3] != "1":
                bad.append((i, "sreset:token-missing", f"{op}: the packet does not end with the stateless reset token"))
        else:
            bad.append((i, "sreset:malformed-output", f"{op}: {out}"))
    return bad


def nontrivial(op, out):
    if out.startswith("ok") and out != "ok none":
        t = op.split()
        return " ".join(t[1:4]) + " -> " + out.split()[1]
    return None
