"""ops for the `recovery-manager` component: the Lean model of s2n-quic-transport's `recovery::Manager`
(QuicModel/Recovery/Manager.lean) and, through the integrator's in-crate hook, the real Manager.

  init <space 0|1|2> | confirmed | mad <path> <ms> | pathflags <path> <peer_validated> <at_amp_limit> | active <path>
  send <pn> <bytes> <cc> <ack_eliciting> <now_us> <path> <mtu_probe> | burst <now_us>
  ack <lo-hi,lo-hi,...> <ack_delay_ns> <now_us> <rx_path> | timeout <now_us> | discard <path> | retry <path>
  -> ok acked=<pns> lost=<pns> discarded=<pns> bif=<b0>,<b1>,<b2>,<b3> la=<n|none> losstimer=<us|none> pto=<us|none>
        tx=<n> backoff=<n> srtt=<ns> thr=<loss_time_threshold of paths 0..3, ns> tracked=<n> uf=<0|1> panic=<0|1>

The oracle is the C09 text evaluated on the outputs of whichever side produced them: every sent packet is resolved
exactly once, bytes in flight = total size of the unresolved congestion-controlled packets per path, a timeout taken
with no loss timer armed loses nothing, and a packet is declared lost only if a later packet is the largest
acknowledged and it is >= 3 packet numbers older or was sent MORE than the loss time threshold earlier
(`loss:time-threshold-early-within-granularity` = known finding F2)."""
K = 3
GRAN_NS = 1_000_000


def _ranges(rng, pns):
    """random subset of pns as descending inclusive ranges"""
    if not pns:
        return None
    chosen = sorted(p for p in pns if rng.random() < 0.6) or [rng.choice(pns)]
    rs = []
    s = e = chosen[0]
    for p in chosen[1:]:
        if p == e + 1 or rng.random() < 0.1:   # occasionally bridge a gap (acks a lost/unknown-but-sent pn)
            e = p
        else:
            rs.append((s, e))
            s = e = p
    rs.append((s, e))
    rs.reverse()
    return ",".join(f"{a}-{b}" for a, b in rs)


def gen(rng, n, tier, multipath=False, mtu=False):
    ops = []
    made = 0
    while made < n:
        space = rng.choice([1, 1, 2, 2, 0])
        ops.append(f"init {space}")
        ops.append("confirmed")
        ops.append(f"mad 0 {rng.choice([0, 10, 25])}")
        now = rng.randrange(1000, 10**6)
        pn = rng.randrange(0, 5)
        outstanding = []
        rtt = rng.choice([200, 1000, 5000, 30000, 100000])        # µs
        for _ in range(rng.randrange(3, 30)):
            c = rng.random()
            if c < 0.45:
                for _ in range(rng.randrange(1, 6)):
                    pn += rng.choice([1, 1, 1, 1, 2])
                    now += rng.choice([0, 1, 10, 100, 1000])
                    cc = rng.random() < 0.85
                    ae = cc and rng.random() < 0.9
                    byt = rng.choice([1, 100, 1200, 1500, 65535]) if cc else rng.choice([0, 40])
                    path = rng.randrange(0, 2) if multipath and space == 2 else 0
                    mt = int(mtu and cc and rng.random() < 0.05)
                    ops.append(f"send {pn} {byt} {int(cc)} {int(ae)} {now} {path} {mt}")
                    outstanding.append(pn)
                    made += 1
                ops.append(f"burst {now}")
            elif c < 0.75 and outstanding:
                now += int(rtt * rng.choice([0.5, 1, 1, 1.1, 1.125, 2, 5]))
                r = _ranges(rng, outstanding[-12:])
                d = rng.choice([0, 0, 1000_000, 10_000_000, 30_000_000])
                ops.append(f"ack {r} {d} {now} {rng.randrange(0, 2) if multipath and space == 2 else 0}")
                made += 1
            elif c < 0.95:
                now += rng.choice([1, 999, 1000, 1001, rtt // 8, rtt // 8 + 1000, rtt, 3 * rtt, 10 * rtt, 10**6])
                ops.append(f"timeout {now}")
                made += 1
            elif space != 2 and rng.random() < 0.5:
                ops.append("discard 0")
                made += 1
                break
            else:
                ops.append("get" if False else f"timeout {now}")
                made += 1
        ops.append("reset")
    return ops


def _kv(out):
    d = {}
    for tok in out.split()[1:]:
        k, _, v = tok.partition("=")
        d[k] = v
    return d


def _list(v):
    return [] if v in ("-", "") else [int(x) for x in v.split(",")]


def oracle(ops, outs):
    bad = []
    per = {}

    def add(i, sig, msg):
        per[sig] = per.get(sig, 0) + 1
        if per[sig] <= 3:
            bad.append((i, sig, msg))

    un = {}            # pn -> (bytes, time_sent, path)
    prev_timer = None
    for i, (op, out) in enumerate(zip(ops, outs)):
        t = op.split()
        if t[0] in ("reset", "init"):
            un, prev_timer = {}, None
            continue
        if out.startswith("panic"):
            add(i, f"manager:panic:{t[0]}", f"{op}: {out}")
            un, prev_timer = {}, None
            continue
        if not out.startswith("ok"):
            continue
        kv = _kv(out)
        if t[0] == "send":
            un[int(t[1])] = (int(t[2]) if t[3] == "1" else 0, int(t[5]), int(t[6]))
        acked, lost, disc = _list(kv["acked"]), _list(kv["lost"]), _list(kv["discarded"])
        now = int(t[-2]) if t[0] == "ack" else (int(t[1]) if t[0] in ("timeout", "burst") else None)
        la = None if kv["la"] == "none" else int(kv["la"])
        for pn in lost:
            if pn not in un:
                continue
            byt, sent, path = un[pn]
            if la is None or not la > pn:
                add(i, "loss:not-acked-later", f"{op}: packet {pn} declared lost, largest acked {la}")
            elif la - pn < K:
                thr = int(kv["thr"].split(",")[path])
                elapsed = (now - sent) * 1000
                if not elapsed > thr:
                    margin = thr - elapsed
                    if margin < GRAN_NS:
                        add(i, "loss:time-threshold-early-within-granularity",
                            f"{op}: packet {pn} (sent {sent}) declared lost {margin} ns before the time threshold {thr} ns elapsed, distance {la - pn} < {K}")
                    else:
                        add(i, "loss:time-threshold-early" if margin < max(thr // 2, 2 * GRAN_NS) else "loss:packet-threshold",
                            f"{op}: packet {pn} (sent {sent}) declared lost {margin} ns before the time threshold {thr} ns elapsed, distance {la - pn} < {K}")
        if t[0] == "timeout" and prev_timer is None and lost:
            add(i, "pto:expiry-marked-lost", f"{op}: no loss timer was armed but packets {lost} were declared lost")
        for pn in acked + lost + disc:
            if pn not in un:
                add(i, "resolve:not-exactly-once", f"{op}: packet {pn} resolved although it is not an unresolved sent packet")
            else:
                del un[pn]
        if len(set(acked + lost + disc)) != len(acked + lost + disc):
            add(i, "resolve:not-exactly-once", f"{op}: a packet is reported twice: {out}")
        exp = [0, 0, 0, 0]
        for pn, (byt, sent, path) in un.items():
            exp[path] += byt
        got = [int(x) for x in kv["bif"].split(",")]
        if got != exp:
            add(i, "bif:not-sum-of-unresolved", f"{op}: bytes in flight {got}, unresolved congestion-controlled bytes {exp}")
        if int(kv["tracked"]) != len(un):
            add(i, "resolve:tracked-count", f"{op}: {kv['tracked']} packets tracked, {len(un)} unresolved")
        if kv.get("uf") == "1":
            add(i, "bif:underflow", f"{op}: bytes-in-flight counter underflow")
        prev_timer = None if kv["losstimer"] == "none" else int(kv["losstimer"])
    return bad


def nontrivial(op, out):
    if not out.startswith("ok"):
        return None
    kv = _kv(out)
    if "acked" not in kv:
        return None
    return op if (kv["acked"] != "-" or kv["lost"] != "-" or kv["discarded"] != "-") else None
