"""C05 view of the `tp` component: the codec-level obligations only (total, round-trip, announced size,
re-encoding preserves every parameter). Reuses the C14 generator; every generated block is additionally
pushed through `enc` (decode → encode → decode). Acceptance questions (C14) are NOT judged here."""
import gen.transport_params as tp

STATELESS = True


def gen(rng, n, tier):
    ops = tp.gen(rng, n, tier)
    out = []
    seen = set()
    for op in ops:
        t = op.split()
        if t[0] in ("dec", "enc"):
            for k in ("dec", "enc"):
                o = f"{k} {t[1]} {t[2]}"
                if o not in seen:
                    seen.add(o)
                    out.append(o)
    return out


def oracle(ops, outs):
    return [(i, s, m) for (i, s, m) in tp.oracle(ops, outs) if s.startswith("tp:enc:") or s.startswith("tp:panic")]


def nontrivial(op, out):
    return op if out.startswith("ok") else None
