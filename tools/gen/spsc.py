"""ops for the `spsc` component (vh-core) / Lean `spsc-seq` driver: the real
s2n_quic_core::sync::spsc channel driven single-threaded (C17, sequential part).

protocol: new <c> | push <k> <v> | apush <k> <v> | pop <k> | apop <k> | dropsend | droprecv | stat
"""

PUSHY = ("push", "apush", "extend")
POPPY = ("pop", "apop")


def _fixed():
    H = []
    # fill to capacity, then push / apush on the full queue, drain, refill
    H.append(["new 3", "stat", "push 3 1", "stat", "push 1 4", "apush 1 5", "stat", "pop 1", "stat", "apush 2 6", "stat",
              "pop 6", "pop 1", "stat"])
    H.append(["new 4", "push 6 1", "push 6 7", "push 1 13", "stat", "pop 7", "pop 1", "stat"])     # c=4 -> cap 7
    # wrap-around several times at capacity 1 and 3
    h = ["new 1"]
    v = 1
    for _ in range(7):
        h += [f"push 2 {v}", "pop 1", "stat"]
        v += 2
    H.append(h + ["pop 1"])
    h = ["new 3"]
    v = 1
    for k, j in [(2, 1), (3, 2), (2, 3), (3, 1), (3, 3), (1, 1), (3, 2), (2, 4), (3, 3)]:
        h += [f"push {k} {v}", f"pop {j}"]
        v += k
    H.append(h + ["stat", "pop 6", "pop 1"])
    h = ["new 3"]
    v = 1
    for k, j in [(3, 3), (3, 3), (3, 2), (2, 3), (3, 3), (3, 3)]:
        h += [f"apush {k} {v}", "stat", f"apop {j}", "stat"]
        v += k
    H.append(h)
    # apop pending, then push: the receiver must be woken (exactly once)
    H.append(["new 2", "apop 1", "stat", "push 0 1", "stat", "push 1 1", "stat", "push 1 2", "stat", "apop 1", "apop 3", "apop 1",
              "stat", "apush 2 3", "stat"])
    # apush pending on a full queue, then pop: the sender must be woken
    H.append(["new 2", "push 3 1", "apush 1 4", "stat", "pop 0", "stat", "pop 1", "stat", "pop 1", "stat", "apush 1 4", "apush 1 5",
              "apush 1 6", "stat", "apop 2", "stat"])
    # apop pending, then dropsend: wake + closed
    H.append(["new 2", "apop 1", "stat", "dropsend", "stat", "apop 1", "pop 1", "stat", "droprecv", "stat"])
    # apush pending, then droprecv: wake + closed, the queued item is freed by the second close
    H.append(["new 1", "push 1 1", "apush 1 2", "stat", "droprecv", "stat", "apush 1 2", "push 1 3", "stat", "dropsend", "stat"])
    # push, dropsend, pop: items still delivered, then closed
    H.append(["new 4", "push 3 1", "dropsend", "stat", "pop 2", "apop 2", "pop 1", "apop 1", "stat", "droprecv", "stat"])
    # push, droprecv: nothing freed by the first close; the second close frees everything
    H.append(["new 4", "push 3 1", "droprecv", "stat", "push 1 4", "dropsend", "stat"])
    # push, pop some, dropsend, droprecv: the second close frees the rest (wrapped position)
    H.append(["new 3", "push 3 1", "pop 2", "push 2 4", "stat", "dropsend", "droprecv", "stat"])
    H.append(["new 2", "push 2 1", "droprecv", "dropsend"])
    H.append(["new 8", "push 6 1", "push 6 7", "push 6 13", "stat", "apop 4", "dropsend", "apop 20", "apop 1", "droprecv"])
    # both pending at once is impossible sequentially, but both wakers registered over time
    H.append(["new 1", "apop 1", "apush 1 1", "stat", "apush 1 2", "stat", "apop 1", "stat", "apop 1", "stat", "dropsend", "stat", "droprecv"])
    # the bulk form: an iterator longer than the free space while the queue is not empty (must stop at capacity)
    H.append(["new 4", "push 2 1", "stat", "extend 9 3", "stat", "pop 3", "extend 9 12", "stat", "pop 9", "stat", "extend 0 30", "extend 2 30", "pop 9", "stat"])
    H.append(["new 2", "extend 5 1", "stat", "pop 1", "extend 5 6", "pop 5", "stat", "dropsend", "droprecv"])
    # protocol edges
    H.append(["stat", "push 1 1", "pop 1", "dropsend", "new 0", "new 65", "new 64", "stat", "push 6 1", "new 2", "stat", "pop 1",
              "dropsend", "dropsend", "push 1 1", "apush 1 1", "droprecv", "droprecv", "pop 1", "apop 1", "stat", "bogus", "push 1", "pop"])
    return H


def _random_history(rng):
    c = rng.choice([1, 1, 2, 2, 2, 3, 3, 3, 4, 4, 7, 8])
    length = rng.randrange(5, 41)
    ops = [f"new {c}"]
    v = 1
    send, recv = True, True
    i = 0
    while i < length:
        i += 1
        near_end = i > length * 0.75
        p_drop = 0.12 if near_end else 0.012
        r = rng.random()
        if r < p_drop and (send or recv):
            which = rng.choice([x for x, alive in (("dropsend", send), ("droprecv", recv)) if alive])
            ops.append(which)
            if which == "dropsend":
                send = False
            else:
                recv = False
            if rng.random() < 0.7:
                ops.append("stat")
            continue
        kinds = []
        if send or rng.random() < 0.03:
            kinds += ["push", "push", "apush", "apush", "extend"]
        if recv or rng.random() < 0.03:
            kinds += ["pop", "pop", "apop", "apop"]
        kinds += ["stat"]
        if not send and not recv and rng.random() < 0.6:
            break
        kind = rng.choice(kinds)
        k = rng.choice([0, 1, 1, 1, 2, 2, 3, 3, 4, 5, 6])
        if kind in PUSHY:
            ops.append(f"{kind} {k} {v}")
            v += k
        elif kind in POPPY:
            ops.append(f"{kind} {k}")
        else:
            ops.append("stat")
            continue
        if rng.random() < 0.45:
            ops.append("stat")
    if ops[-1] != "stat":
        ops.append("stat")
    # most histories are closed completely so that exactly-once is decided
    if rng.random() < 0.7:
        order = ["dropsend", "droprecv"]
        rng.shuffle(order)
        for d in order:
            if (d == "dropsend" and send) or (d == "droprecv" and recv):
                ops.append(d)
        ops.append("stat")
    return ops


def gen(rng, n, tier):
    ops = []
    for h in _fixed():
        ops += h + ["reset"]
    while len(ops) < n:
        ops += _random_history(rng) + ["reset"]
    return ops


# ------------------------------------------------------------------------------------------
# oracle: plain FIFO reference of the property, evaluated on the implementation's outputs

def _cap(c):
    x = max(c + 1, 2)
    p = 1
    while p < x:
        p *= 2
    return p - 1


def _ints(s):
    if s == "-":
        return []
    return [int(x) for x in s.split(",")]


class _Hist:
    def __init__(self):
        self.live = False        # a channel exists
        self.cap = 0
        self.fifo = []           # pushed and not yet delivered
        self.send = self.recv = False
        self.pushed = []         # every value the implementation accepted
        self.seen = {}           # value -> how often it left the channel (popped or dropped)
        self.closes = 0
        self.reg_r = self.reg_s = False     # a waker is parked (apop / apush returned pending)
        self.exp_r = self.exp_s = 0         # wake-ups owed so far


def oracle(ops, outs):
    bad = []
    h = _Hist()

    def fail(i, sig, msg):
        bad.append((i, sig, f"{msg} (op #{i}: `{ops[i]}` -> `{outs[i]}`)"))

    def leave(i, vals, how):
        for x in vals:
            if x not in h.pushed:
                fail(i, "spsc:exactly-once", f"value {x} {how} but never accepted by a push")
            h.seen[x] = h.seen.get(x, 0) + 1
            if h.seen[x] > 1:
                fail(i, "spsc:exactly-once", f"value {x} {how} although it already left the channel once")

    for i, (op, out) in enumerate(zip(ops, outs)):
        t = op.split()
        o = out.split()
        if o and o[0] == "panic":
            fail(i, "spsc:panic", f"spsc {t[0] if t else ''} panicked")
            h = _Hist()
            continue
        if t == ["reset"]:
            h = _Hist()
            continue
        try:
            if len(t) == 2 and t[0] == "new" and t[1].isdigit():
                c = int(t[1])
                if not 1 <= c <= 64:
                    if out != "bad-op":
                        fail(i, "spsc:protocol", "capacity outside the harness domain must be bad-op")
                    continue
                h = _Hist()
                h.live = h.send = h.recv = True
                h.cap = _cap(c)
                if out != f"ok cap={h.cap}":
                    fail(i, "spsc:new:capacity", f"channel({c}) must offer next_power_of_two(max(c+1,2))-1 = {h.cap} slots")
                continue
            shape_ok = ((len(t) == 3 and t[0] in PUSHY and t[1].isdigit() and t[2].isdigit()) or
                        (len(t) == 2 and t[0] in POPPY and t[1].isdigit()) or
                        t in (["dropsend"], ["droprecv"], ["stat"]))
            if not shape_ok or not h.live:
                if out != "bad-op":
                    fail(i, "spsc:protocol", "op outside the domain (or before `new`) must be bad-op")
                continue
            if t[0] in PUSHY:
                k, v = int(t[1]), int(t[2])
                if not h.send:
                    if out != "bad-op":
                        fail(i, "spsc:protocol", "push after dropsend must be bad-op")
                    continue
                if not h.recv:
                    if out != "err closed":
                        fail(i, "spsc:push:closed-mismatch", "receiver is gone: the sender must see the channel closed")
                    continue
                full = len(h.fifo) == h.cap
                blocked = "ok none" if t[0] in ("push", "extend") else "ok pending"
                if out == "err closed":
                    fail(i, "spsc:push:closed-mismatch", "closed reported although the receiver is alive")
                    continue
                if full or out in ("ok none", "ok pending"):
                    if not (full and out == blocked):
                        fail(i, "spsc:push:full-mismatch",
                             f"queue holds {len(h.fifo)}/{h.cap}: `{blocked}` must be answered exactly when it is full")
                    if out == "ok pending":
                        h.reg_s = True
                    if out in ("ok none", "ok pending"):
                        continue
                n = int(o[1]) if len(o) == 2 and o[0] == "ok" and o[1].isdigit() else None
                if n is None:
                    fail(i, "spsc:protocol", "unparsable push answer")
                    continue
                want = min(k, h.cap - len(h.fifo))
                if n != want:
                    fail(i, "spsc:push:count", f"{want} of {k} values fit ({len(h.fifo)}/{h.cap} used) but {n} were accepted")
                vals = list(range(v, v + n))
                h.fifo += vals
                h.pushed += vals
                if n >= 1 and h.reg_r:
                    h.reg_r = False
                    h.exp_r += 1
            elif t[0] in POPPY:
                k = int(t[1])
                if not h.recv:
                    if out != "bad-op":
                        fail(i, "spsc:protocol", "pop after droprecv must be bad-op")
                    continue
                empty = not h.fifo
                if out == "err closed":
                    if not (empty and not h.send):
                        fail(i, "spsc:pop:closed-mismatch",
                             f"closed reported with {len(h.fifo)} undelivered values / sender {'alive' if h.send else 'gone'}")
                    continue
                if out in ("ok none", "ok pending"):
                    blocked = "ok none" if t[0] == "pop" else "ok pending"
                    if not (empty and h.send and out == blocked):
                        fail(i, "spsc:pop:empty-mismatch" if h.send or not empty else "spsc:pop:closed-mismatch",
                             f"`{out}` with {len(h.fifo)} undelivered values / sender {'alive' if h.send else 'gone'}")
                    if out == "ok pending":
                        h.reg_r = True
                    continue
                if len(o) != 2 or o[0] != "ok":
                    fail(i, "spsc:protocol", "unparsable pop answer")
                    continue
                got = _ints(o[1])
                if empty:
                    fail(i, "spsc:pop:empty-mismatch" if h.send else "spsc:pop:closed-mismatch",
                         "a slice was handed out although nothing is queued")
                want = h.fifo[:min(k, len(h.fifo))]
                if got != want:
                    fail(i, "spsc:pop:fifo", f"FIFO order: expected {want}, received {got}")
                leave(i, got, "popped")
                for x in got:                      # follow the implementation
                    if x in h.fifo:
                        h.fifo.remove(x)
                if got and h.reg_s:
                    h.reg_s = False
                    h.exp_s += 1
            elif t[0] in ("dropsend", "droprecv"):
                alive = h.send if t[0] == "dropsend" else h.recv
                if not alive:
                    if out != "bad-op":
                        fail(i, "spsc:protocol", "double drop must be bad-op")
                    continue
                if len(o) != 2 or o[0] != "ok" or not o[1].startswith("dropped="):
                    fail(i, "spsc:protocol", "unparsable drop answer")
                    continue
                got = _ints(o[1][len("dropped="):])
                h.closes += 1
                if t[0] == "dropsend":
                    h.send = False
                    if h.reg_r:
                        h.reg_r = False
                        h.exp_r += 1
                else:
                    h.recv = False
                    if h.reg_s:
                        h.reg_s = False
                        h.exp_s += 1
                want = [] if h.closes == 1 else list(h.fifo)
                if got != want:
                    fail(i, "spsc:drop:contents",
                         f"{'first' if h.closes == 1 else 'second'} close must free {want or 'nothing'}, it freed {got or 'nothing'}")
                leave(i, got, "freed by close")
                if h.closes == 2:
                    h.fifo = [x for x in h.fifo if x not in got]
                    lost = [x for x in h.pushed if h.seen.get(x, 0) != 1]
                    if lost:
                        fail(i, "spsc:exactly-once",
                             f"both halves dropped: values {lost[:8]} were delivered-or-freed {[h.seen.get(x, 0) for x in lost[:8]]} times")
            elif t[0] == "stat":
                m = None
                if len(o) == 4 and o[0] == "ok" and o[3].startswith("wakes="):
                    try:
                        m = [int(x) for x in o[3][6:].split(",")]
                    except ValueError:
                        m = None
                if not m or len(m) != 2:
                    fail(i, "spsc:protocol", "unparsable stat answer")
                    continue
                for who, have, owe in (("receiver", m[0], h.exp_r), ("sender", m[1], h.exp_s)):
                    if have < owe:
                        fail(i, f"spsc:wake:{who}-lost", f"{who} was parked {owe} times before progress/close but woken only {have} times")
                    elif have > owe:
                        fail(i, f"spsc:wake:{who}-spurious", f"{who} woken {have} times, only {owe} wake-ups are due")
                # resynchronise so one lost wake-up is reported once
                h.exp_r, h.exp_s = m
        except (ValueError, IndexError):
            fail(i, "spsc:protocol", "unparsable line")
    return bad


def nontrivial(op, out):
    if op == "reset" or not (out.startswith("ok") or out.startswith("err")):
        return None
    return f"{op} -> {out}"
