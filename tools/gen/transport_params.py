"""ops for the `tp` component (vh-core) / Lean `tp` driver + the python RFC 9000 §7.4/§18.2 oracle.

The oracle is an INDEPENDENT table written from RFC 9000 §18.2 (+ §4.6, §7.2, §7.3, §7.4, §7.4.2, §16) and
RFC 9221 §3. It never looks at the Lean model and knows nothing about known findings.

Signatures (stable; `<name>` is the RFC parameter name, `<class>` a value class):
  tp:accept:<name>=<class>                     implementation accepted an RFC-invalid value
  tp:reject:<name>=<class>                     implementation rejected an RFC-valid parameter
  tp:unknown-rejected                          an unknown (incl. GREASE) parameter made the block fail
  tp:duplicate-accepted:<name>                 a repeated defined parameter was accepted
  tp:server-only-from-client-accepted:<name>
  tp:accept:framing                            a block that is not a sequence of (id,len,value) was accepted
  tp:value:<name> / tp:default:<name>          decoded value differs from the declared one / RFC default
  tp:limits:<key>                              derived operating limit differs from the declared parameter
  tp:enc:<what>                                re-encoding does not preserve the parameters
Value classes: integers → the decimal value, or `nonminimal` when the (valid) value was rejected only in a
non-shortest varint encoding, or `malformed`; byte strings / connection IDs / flags → `len<k>`;
preferred_address → `cidlen<k>`, `len<k>`, `bothzero`.
"""
STATELESS = True

MAXV = 2**62 - 1

# ----------------------------------------------------------------------------------------------------
# RFC table: id -> (name, kind, default, server_only)
#   kind: ("int", lo, hi) | ("flag",) | ("bytes", n) | ("cid", lo, hi) | ("pa",) | ("dcv",)
RFC = {
    0x00: ("original_destination_connection_id", ("cid", 8, 20), None, True),    # §7.2: first DCID >= 8 bytes
    0x01: ("max_idle_timeout", ("int", 0, MAXV), 0, False),
    0x02: ("stateless_reset_token", ("bytes", 16), None, True),
    0x03: ("max_udp_payload_size", ("int", 1200, 65527), 65527, False),           # "maximum permitted UDP payload of 65527"
    0x04: ("initial_max_data", ("int", 0, MAXV), 0, False),
    0x05: ("initial_max_stream_data_bidi_local", ("int", 0, MAXV), 0, False),
    0x06: ("initial_max_stream_data_bidi_remote", ("int", 0, MAXV), 0, False),
    0x07: ("initial_max_stream_data_uni", ("int", 0, MAXV), 0, False),
    0x08: ("initial_max_streams_bidi", ("int", 0, 2**60), 0, False),              # §4.6
    0x09: ("initial_max_streams_uni", ("int", 0, 2**60), 0, False),
    0x0a: ("ack_delay_exponent", ("int", 0, 20), 3, False),                       # "Values above 20 are invalid"
    0x0b: ("max_ack_delay", ("int", 0, 2**14 - 1), 25, False),                    # "Values of 2^14 or greater are invalid"
    0x0c: ("migration_support", ("flag",), None, False),                          # disable_active_migration
    0x0d: ("preferred_address", ("pa",), None, True),
    0x0e: ("active_connection_id_limit", ("int", 2, MAXV), 2, False),
    0x0f: ("initial_source_connection_id", ("cid", 0, 20), None, False),
    0x10: ("retry_source_connection_id", ("cid", 0, 20), None, True),
    0x20: ("max_datagram_frame_size", ("int", 0, MAXV), 0, False),                # RFC 9221 §3
    # private parameters the endpoint supports (no spec beyond the code's doc comments)
    0xdc0000: ("dc_supported_versions", ("dcv",), None, False),
    0xdc0002: ("mtu_probing_complete_support", ("flag",), None, False),
}
# order in which the implementation prints its fields (struct order)
PRINT_ORDER = [0x01, 0x03, 0x04, 0x05, 0x06, 0x07, 0x08, 0x09, 0x20, 0x0a, 0x0b, 0x0c, 0x0e, 0x00, 0x02, 0x0d, 0x0f, 0x10,
               0xdc0000, 0xdc0002]
INT_IDS = [i for i, r in RFC.items() if r[1][0] == "int"]


# value lengths of UNKNOWN parameters beyond 0..20: both sides of the 1|2-byte and 2|4-byte length-varint boundaries
BIG_UNKNOWN_LENS = [63, 64, 65, 255, 300, 16383, 16384]


def hexs(b):
    return bytes(b).hex() if b else "-"


def unhex(h):
    return b"" if h == "-" else bytes.fromhex(h)


def vi(v, n=None):
    """varint of v on n bytes (None = shortest)"""
    if n is None:
        n = 1 if v <= 63 else 2 if v <= 16383 else 4 if v <= 2**30 - 1 else 8
    assert v < 1 << (8 * n - 2), (v, n)
    tag = {1: 0, 2: 1, 4: 2, 8: 3}[n]
    return list((v | tag << (8 * n - 2)).to_bytes(n, "big"))


def tlv(i, val, idlen=None, lenlen=None, declared=None):
    return vi(i, idlen) + vi(len(val) if declared is None else declared, lenlen) + list(val)


def parse_vi(b, pos=0):
    if pos >= len(b):
        return None
    n = 1 << (b[pos] >> 6)
    if pos + n > len(b):
        return None
    return int.from_bytes(bytes(b[pos:pos + n]), "big") & ((1 << (8 * n - 2)) - 1), pos + n


def parse_items(b):
    """§18 Figure 20/21; None when the block is not a sequence of (id, len, value)"""
    items = []
    pos = 0
    while pos < len(b):
        r = parse_vi(b, pos)
        if r is None:
            return None
        i, pos = r
        r = parse_vi(b, pos)
        if r is None:
            return None
        ln, pos = r
        if pos + ln > len(b):
            return None
        items.append((i, bytes(b[pos:pos + ln])))
        pos += ln
    return items


def dc_versions(val):
    """(ok, versions): at most four leading varints are read, each must fit u32; the rest is ignored"""
    out = []
    pos = 0
    while pos < len(val) and len(out) < 4:
        r = parse_vi(val, pos)
        if r is None:
            return False, out
        v, pos = r
        if v > 2**32 - 1:
            return False, out
        out.append(v)
    return True, out


def item_class(i, val):
    """(valid: True/False/None(unspecified by the RFC), class string, decoded value as the implementation prints it)"""
    name, kind, default, _ = RFC[i]
    k = kind[0]
    if k == "int":
        r = parse_vi(val, 0)
        if r is None or r[1] != len(val):
            return False, "malformed", None
        v = r[0]
        ok = kind[1] <= v <= kind[2]
        minimal = len(val) == len(vi(v))
        return ok, (str(v) if (minimal or not ok) else "nonminimal"), str(v)
    if k == "flag":
        return len(val) == 0, f"len{len(val)}", None
    if k == "bytes":
        return len(val) == kind[1], f"len{len(val)}", hexs(val)
    if k == "cid":
        return kind[1] <= len(val) <= kind[2], f"len{len(val)}", hexs(val)
    if k == "pa":
        if len(val) < 25:
            return False, f"len{len(val)}", None
        n = val[24]
        if len(val) != 25 + n + 16:
            return False, f"len{len(val)}", None
        if not 1 <= n <= 20:
            return False, f"cidlen{n}", None
        v4, v6 = val[:6], val[6:24]
        shown = "/".join(["none" if not any(v4) else hexs(v4), "none" if not any(v6) else hexs(v6), hexs(val[25:25 + n]),
                          hexs(val[25 + n:])])
        if not any(v4) and not any(v6):
            return None, "bothzero", shown
        return True, f"cidlen{n}", shown
    if k == "dcv":
        ok, vs = dc_versions(val)
        return ok, ("ok" if ok else "malformed"), (",".join(map(str, vs)) if vs else "-")
    raise AssertionError(k)


def rfc_judge(role, blk):
    """-> (verdict, problems, items)
    verdict True: the RFC requires acceptance; False: requires rejection; None: either is permitted.
    problems: list of signature strings explaining a False verdict (all of them)."""
    items = parse_items(blk)
    if items is None:
        return False, ["tp:accept:framing"], None
    problems = []
    unspecified = False
    seen = {}
    for i, val in items:
        if i not in RFC:
            if seen.get(i):
                unspecified = True      # repeated unsupported id: sender error, receiver cannot be required to notice
            seen[i] = True
            continue
        name = RFC[i][0]
        if seen.get(i):
            problems.append(f"tp:duplicate-accepted:{name}")
        seen[i] = True
        if RFC[i][3] and role == "client":
            problems.append(f"tp:server-only-from-client-accepted:{name}")
            continue
        ok, cls, _ = item_class(i, val)
        if ok is None:
            unspecified = True
        elif not ok:
            problems.append(f"tp:accept:{name}={cls}")
    if problems:
        return False, problems, items
    return (None if unspecified else True), [], items


def expected_view(items):
    """field name -> printed value the RFC expects (declared value, or default when absent); None = don't check"""
    view = {}
    by_id = {}
    for i, val in items:
        by_id.setdefault(i, []).append(val)
    for i in PRINT_ORDER:
        name, kind, default, _ = RFC[i]
        vals = by_id.get(i, [])
        if len(vals) > 1:
            view[name] = None
            continue
        if not vals:
            if kind[0] == "int":
                view[name] = ("default", str(default))
            elif kind[0] == "flag":
                view[name] = ("default", "enabled" if i == 0x0c else "disabled")
            elif kind[0] == "dcv":
                view[name] = ("default", "-")
            else:
                view[name] = ("default", "none")
            continue
        val = vals[0]
        if kind[0] == "flag":
            view[name] = ("value", "disabled" if i == 0x0c else "enabled")
        else:
            _, _, shown = item_class(i, val)
            view[name] = ("value", shown) if shown is not None else None
    return view


# ----------------------------------------------------------------------------------------------------
# generator

GREASE = [31 * n + 27 for n in (0, 1, 2, 3, 17, 1000, 2**20, (MAXV - 27) // 31)]
UNKNOWN = GREASE + [0x11, 0x12, 0x1f, 0x21, 0x3f, 0x40, 0xff, 0x2ab2, 0xdc0001, 0xdc0003, 0xff04de1b, MAXV]

CID8 = list(range(0xa0, 0xa8))
TOKEN = list(range(0x10, 0x20))


def pa_value(v4=True, v6=True, cidlen=4, tok=16, extra=0, cid_declared=None):
    a4 = [192, 0, 2, 1, 0x11, 0x51] if v4 else [0] * 6
    a6 = [0x20, 0x01, 0x0d, 0xb8] + [0] * 11 + [1, 0x01, 0xbb] if v6 else [0] * 18
    return a4 + a6 + [cidlen if cid_declared is None else cid_declared] + [0xc0 + k for k in range(cidlen)] + TOKEN[:tok] + [0xee] * extra


def sample_value(i, rng=None):
    """a valid, non-default value for parameter i"""
    kind = RFC[i][1]
    if kind[0] == "int":
        return vi({0x03: 1472, 0x0a: 10, 0x0b: 100, 0x0e: 8}.get(i, 1000 + i))
    if kind[0] == "flag":
        return []
    if kind[0] == "bytes":
        return TOKEN
    if kind[0] == "cid":
        return CID8 if i != 0x0f else [0x5c, 0x1d, 0x00, 0x01, 0x02]
    if kind[0] == "pa":
        return pa_value()
    if kind[0] == "dcv":
        return vi(1) + vi(2**30)
    raise AssertionError


def int_boundaries(i):
    _, kind, default, _ = RFC[i]
    lo, hi = kind[1], kind[2]
    c = {0, 1, 2, 3, 19, 20, 21, 24, 25, 26, 63, 64, 255, 256, 1199, 1200, 1201, 16382, 16383, 16384, 16385, 65526, 65527, 65528,
         2**30 - 1, 2**30, 2**32 - 1, 2**32, 2**60 - 1, 2**60, 2**60 + 1, MAXV - 1, MAXV, default}
    for b in (lo, hi):
        for d in (-1, 0, 1):
            c.add(b + d)
    return sorted(v for v in c if 0 <= v <= MAXV)


def gen(rng, n, tier):
    ops = []
    roles = ("client", "server")

    def dec(blk, role=None):
        for r in ((role,) if role else roles):
            ops.append(f"dec {r} {hexs(blk)}")

    # 0. the empty block, single stray bytes
    dec([])
    for b in (0x00, 0x01, 0x0b, 0x1b, 0x40, 0x80, 0xc0, 0xff):
        dec([b])
    # 1. every integer parameter at, just inside and just outside each bound, in every encoding length
    for i in INT_IDS:
        for v in int_boundaries(i):
            for ln in (1, 2, 4, 8):
                if v < 1 << (8 * ln - 2):
                    blk = tlv(i, vi(v, ln))
                    dec(blk)
                    if ln == len(vi(v)):
                        ops.append(f"limits {rng.choice(roles)} {hexs(blk)} {rng.choice([0, 1, 30000])}")
        # declared length vs varint length, empty value, trailing byte inside the value
        dec(tlv(i, []))
        dec(tlv(i, vi(5) + [0]))
        dec(tlv(i, vi(300)[:1]))
        dec(tlv(i, vi(5), declared=2))
        dec(tlv(i, vi(300), declared=1))
    # ack_delay_exponent raw bytes 0..255
    for b in range(256):
        dec(tlv(0x0a, [b]), "client")
    # 2. flags, tokens, connection ids with every length
    for i in (0x0c, 0xdc0002):
        for ln in (0, 1, 2, 17):
            dec(tlv(i, [0] * ln))
    for ln in (0, 1, 15, 16, 17, 32):
        dec(tlv(0x02, TOKEN[:ln] + [7] * max(0, ln - 16)))
    for i in (0x00, 0x0f, 0x10):
        for ln in range(0, 23):
            dec(tlv(i, [0xb0 + k for k in range(ln)]))
    # preferred_address
    for v4 in (True, False):
        for v6 in (True, False):
            for cl in (0, 1, 4, 19, 20, 21):
                dec(tlv(0x0d, pa_value(v4, v6, cl)))
    for tok, extra in ((15, 0), (16, 1), (0, 0), (16, 5)):
        dec(tlv(0x0d, pa_value(tok=tok, extra=extra)))
    dec(tlv(0x0d, pa_value(cidlen=4, cid_declared=5)))
    dec(tlv(0x0d, pa_value(cidlen=4, cid_declared=3)))
    dec(tlv(0x0d, pa_value(cidlen=2, cid_declared=200)))
    full = pa_value()
    for cut in range(0, len(full)):
        dec(tlv(0x0d, full[:cut]), "server")
    # port-only / address-only "unspecified" corner
    dec(tlv(0x0d, [0, 0, 0, 0, 0, 1] + [0] * 18 + [1, 9] + TOKEN))
    dec(tlv(0x0d, [0] * 6 + [0] * 17 + [1] + [1, 9] + TOKEN))
    # dc_supported_versions
    for k in range(0, 7):
        dec(tlv(0xdc0000, sum((vi(10 + j) for j in range(k)), [])))
    dec(tlv(0xdc0000, vi(2**32 - 1)))
    dec(tlv(0xdc0000, vi(2**32)))
    dec(tlv(0xdc0000, vi(1) + vi(2**32)))
    dec(tlv(0xdc0000, vi(1) + vi(2) + vi(3) + vi(4) + vi(2**40)))
    dec(tlv(0xdc0000, vi(1) + vi(2) + vi(3) + vi(4) + [0x40]))
    dec(tlv(0xdc0000, [0x40]))
    dec(tlv(0xdc0000, vi(1) + [0x80, 0]))
    dec(tlv(0xdc0000, vi(7, 8) + vi(8, 4) + vi(9, 2)))
    # 3. unknown ids (incl. GREASE 31*N+27) with lengths 0..20, every id/length encoding, truncated / over-long
    for k, u in enumerate(UNKNOWN):
        for ln in range(0, 21):
            dec(tlv(u, [rng.randrange(256) for _ in range(ln)]), rng.choice(roles))
        # values whose LENGTH needs a 2- or 4-byte varint (63 | 64, 16383 | 16384): alone, and between two known
        # parameters, so that a decoder mis-reading a multi-byte length of an unknown parameter loses alignment
        for ln in BIG_UNKNOWN_LENS if k < 3 else BIG_UNKNOWN_LENS[:5]:
            val = [rng.randrange(256) for _ in range(ln)]
            dec(tlv(u, val), rng.choice(roles))
            dec(tlv(0x04, vi(1000)) + tlv(u, val) + tlv(0x08, vi(7)), rng.choice(roles))
            ll = rng.choice([x for x in (2, 4, 8) if ln < 1 << (8 * x - 2)])
            dec(tlv(u, val, lenlen=ll) + tlv(0x0e, vi(3)), rng.choice(roles))
        dec(tlv(u, [1, 2, 3], declared=4))
        dec(tlv(u, [1, 2, 3], declared=2))
        dec(vi(u))
        dec(vi(u) + [0x40])
        for il in (1, 2, 4, 8):
            for ll in (1, 2, 4, 8):
                if u < 1 << (8 * il - 2):
                    dec(tlv(u, [9, 9], idlen=il, lenlen=ll), rng.choice(roles))
        dec(tlv(u, [], declared=MAXV))
        dec(tlv(u, []) + tlv(u, [1]))          # repeated unsupported id
    # known ids with non-minimal id / length encodings
    for i in (0x01, 0x0b, 0x0c, 0x0f):
        for il in (2, 4, 8):
            dec(tlv(i, sample_value(i), idlen=il))
            dec(tlv(i, sample_value(i), lenlen=il))
    # 4. all sequences (subsets / orders / duplications) of up to 4 parameters
    pool_all = [(i, sample_value(i)) for i in PRINT_ORDER] + [(27, [1, 2, 3]), (58, []), (0x2ab2, [0] * 9)]
    singles = [tlv(i, v) for i, v in pool_all]
    for a in singles:
        dec(a)
    for a in singles:
        for b in singles:
            dec(a + b)
    small = [tlv(i, sample_value(i)) for i in (0x01, 0x0b, 0x0c, 0x0f, 0x10, 0x02)] + [tlv(27, [1]), tlv(0xdc0000, vi(3))]
    for a in small:
        for b in small:
            for c in small:
                dec(a + b + c, rng.choice(roles))
    tiny = [tlv(0x04, vi(77)), tlv(0x0e, vi(4)), tlv(0x00, CID8), tlv(58, [5]), tlv(0x0c, [])]
    for a in tiny:
        for b in tiny:
            for c in tiny:
                for d in tiny:
                    dec(a + b + c + d, rng.choice(roles))
    # a full block of every parameter, every rotation, every prefix (truncation at every byte)
    full_server = [tlv(i, sample_value(i)) for i in PRINT_ORDER]
    for k in range(len(full_server)):
        rot = full_server[k:] + full_server[:k]
        dec(sum(rot, []), "server")
        ops.append(f"enc server {hexs(sum(rot, []))}")
        ops.append(f"limits server {hexs(sum(rot, []))} {rng.choice([0, 500, 1001, 1002, 99999])}")
    full_client = [tlv(i, sample_value(i)) for i in PRINT_ORDER if not RFC[i][3]]
    blk = sum(full_client, [])
    for cut in range(len(blk) + 1):
        dec(blk[:cut], "client")
    ops.append(f"enc client {hexs(blk)}")
    # explicit defaults are legal and must read back as the default; re-encoding omits them
    for i in INT_IDS:
        d = RFC[i][2]
        dec(tlv(i, vi(d)))
        ops.append(f"enc client {hexs(tlv(i, vi(d)))}")
    for i, v in pool_all:
        ops.append(f"enc server {hexs(tlv(i, v))}")
    # idle timeout combination rule
    for peer in (None, 0, 1, 999, 1000, 1001, 30000, 2**40):
        for local in (0, 1, 1000, 30000, 2**41):
            b = [] if peer is None else tlv(0x01, vi(peer))
            ops.append(f"limits {rng.choice(roles)} {hexs(b)} {local}")
    for dg, udp in ((0, None), (65535, None), (1200, 1300), (1300, 1200), (70000, None), (65527, 65527), (65528, 1200)):
        b = tlv(0x20, vi(dg)) + ([] if udp is None else tlv(0x03, vi(udp)))
        ops.append(f"limits server {hexs(b)} 0")

    # 5. random structured blocks, mutations, raw random bytes
    def rand_item():
        c = rng.random()
        if c < 0.62:
            i = rng.choice(PRINT_ORDER)
            kind = RFC[i][1]
            if kind[0] == "int":
                if rng.random() < 0.6:
                    v = rng.choice(int_boundaries(i))
                else:
                    v = rng.getrandbits(rng.choice([3, 6, 8, 14, 16, 30, 40, 62]))
                ln = rng.choice([None, None, None, 1, 2, 4, 8])
                if ln is not None and v >= 1 << (8 * ln - 2):
                    ln = None
                return tlv(i, vi(v, ln))
            if kind[0] in ("cid", "bytes"):
                ln = rng.choice([0, 1, 3, 4, 7, 8, 16, 16, 20, 21]) if kind[0] == "cid" else rng.choice([15, 16, 16, 16, 17])
                return tlv(i, [rng.randrange(256) for _ in range(ln)])
            if kind[0] == "flag":
                return tlv(i, [0] * rng.choice([0, 0, 0, 1]))
            if kind[0] == "pa":
                return tlv(i, pa_value(rng.random() < 0.7, rng.random() < 0.7, rng.choice([0, 1, 4, 8, 20, 21])))
            return tlv(i, sum((vi(rng.getrandbits(rng.choice([5, 20, 32, 33]))) for _ in range(rng.randrange(6))), []))
        if c < 0.9:
            u = rng.choice(UNKNOWN) if rng.random() < 0.7 else rng.getrandbits(rng.choice([6, 14, 30, 62]))
            if u in RFC:
                u += 0x40
            ln = rng.randrange(0, 21) if rng.random() < 0.8 else rng.choice(BIG_UNKNOWN_LENS[:5])
            return tlv(u, [rng.randrange(256) for _ in range(ln)])
        # malformed item
        i = rng.choice(PRINT_ORDER + UNKNOWN)
        val = [rng.randrange(256) for _ in range(rng.randrange(0, 6))]
        return tlv(i, val, declared=max(0, len(val) + rng.choice([-1, 1, 2, 60])))

    for _ in range(n):
        c = rng.random()
        k = rng.choice([1, 1, 2, 2, 3, 4, 6, 10])
        blk = sum((rand_item() for _ in range(k)), [])
        if c < 0.25 and blk:
            blk = list(blk)
            for _ in range(rng.choice([1, 1, 2, 3])):
                m = rng.random()
                p = rng.randrange(len(blk)) if blk else 0
                if m < 0.4 and blk:
                    blk[p] = rng.randrange(256)
                elif m < 0.6 and blk:
                    blk[p] ^= 1 << rng.randrange(8)
                elif m < 0.8 and blk:
                    del blk[p]
                else:
                    blk.insert(p, rng.randrange(256))
        elif c < 0.30:
            blk = [rng.randrange(256) for _ in range(rng.randrange(1, 24))]
        role = rng.choice(roles)
        o = rng.random()
        if o < 0.8:
            ops.append(f"dec {role} {hexs(blk)}")
        elif o < 0.9:
            ops.append(f"enc {role} {hexs(blk)}")
        else:
            ops.append(f"limits {role} {hexs(blk)} {rng.choice([0, 1, 25, 30000, rng.getrandbits(20)])}")

    # 6. attribution probes: for every RFC-valid block of >= 2 items, each item on its own (same role), so that a
    # rejection of the block can be attributed to the parameter that is rejected individually
    have = set(ops)
    probes = []
    for op in ops:
        t = op.split()
        if t[0] not in ("dec", "enc", "limits"):
            continue
        blk = unhex(t[2])
        verdict, _, items = rfc_judge(t[1], blk)
        if verdict is True and len(items) >= 2:
            for i, val in items:
                p = f"dec {t[1]} {hexs(tlv(i, val))}"
                if p not in have:
                    have.add(p)
                    probes.append(p)
    return ops + probes


# ----------------------------------------------------------------------------------------------------
# oracle

def parse_view(out):
    view = {}
    for kv in out.split()[1:]:
        k, _, v = kv.partition("=")
        view[k] = v
    return view


def oracle(ops, outs):
    """one entry per distinct signature (the first op that shows it): vlib.step_diff only looks at the first 20
    entries, so repeated hits of one signature must not crowd out a different one"""
    out = []
    seen = set()
    for f in oracle_all(ops, outs):
        if f[1] not in seen:
            seen.add(f[1])
            out.append(f)
    return out


def oracle_all(ops, outs):
    bad = []
    # single-item probe results of this run: (role, item bytes) -> accepted?
    probe = {}
    for op, out in zip(ops, outs):
        t = op.split()
        if t[0] == "dec":
            items = parse_items(unhex(t[2]))
            if items is not None and len(items) == 1 and bytes(tlv(items[0][0], items[0][1])) == unhex(t[2]):
                probe[(t[1], unhex(t[2]))] = out.startswith("ok")
    for idx, (op, out) in enumerate(zip(ops, outs)):
        t = op.split()
        o = out.split()
        if not o or o[0] == "panic":
            bad.append((idx, f"tp:panic:{t[0]}", f"{op} -> {out}"))
            continue
        if t[0] not in ("dec", "enc", "limits") or o[0] == "bad-op":
            continue
        role = t[1]
        blk = unhex(t[2])
        verdict, problems, items = rfc_judge(role, blk)
        accepted = o[0] == "ok"
        if accepted and verdict is False:
            for sig in problems:
                bad.append((idx, sig, f"{op}: RFC 9000 §7.4/§18.2 requires TRANSPORT_PARAMETER_ERROR ({sig}), implementation accepted: {out[:160]}"))
            continue
        if not accepted and verdict is True:
            sig = None
            culprits = []
            for i, val in items:
                one = bytes(tlv(i, val))
                if len(items) == 1 or probe.get((role, one)) is False:
                    culprits.append((i, val))
            if not culprits:
                known = all(probe.get((role, bytes(tlv(i, val)))) is True for i, val in items)
                sig = "tp:reject:combination" if known else "tp:reject:unattributed"
                bad.append((idx, sig, f"{op}: RFC-valid block rejected ({out}) although no single parameter of it is"))
                continue
            for i, val in culprits:
                if i in RFC:
                    _, cls, _ = item_class(i, val)
                    sig = f"tp:reject:{RFC[i][0]}={cls}"
                else:
                    sig = "tp:unknown-rejected"
                bad.append((idx, sig, f"{op}: RFC 9000 permits this parameter ({sig}), implementation rejected the block: {out}"))
            continue
        if not accepted:
            continue
        if t[0] == "dec":
            got = parse_view(out)
            exp = expected_view(items)
            for name, e in exp.items():
                if e is None:
                    continue
                if name not in got:
                    bad.append((idx, f"tp:value:{name}", f"{op}: field {name} missing in {out[:120]}"))
                elif got[name] != e[1]:
                    bad.append((idx, f"tp:{e[0]}:{name}", f"{op}: {name} should be {e[1]} ({'declared' if e[0] == 'value' else 'RFC default'}), implementation has {got[name]}"))
        elif t[0] == "enc":
            e = unhex(o[1])
            if int(o[2]) != len(e):
                bad.append((idx, "tp:enc:size", f"{op}: announced size {o[2]} but wrote {len(e)} bytes"))
            if o[3] != "1":
                bad.append((idx, "tp:enc:roundtrip", f"{op}: decode(encode(p)) != p"))
            v2, _, items2 = rfc_judge(role, e)
            if items2 is None or v2 is False:
                bad.append((idx, "tp:enc:invalid", f"{op}: re-encoded block {o[1]} is not RFC-valid"))
            elif verdict is not False:
                a, b = expected_view(items), expected_view(items2)
                for name in a:
                    if a[name] is not None and b[name] is not None and a[name][1] != b[name][1]:
                        bad.append((idx, f"tp:enc:{name}", f"{op}: {name} changed from {a[name][1]} to {b[name][1]} by re-encoding"))
        elif t[0] == "limits":
            got = parse_view(out)
            exp = expected_view(items)

            def val(name):
                e = exp.get(name)
                return None if e is None else int(e[1])
            want = {
                "max_data": val("initial_max_data"),
                "max_streams_bidi": val("initial_max_streams_bidi"),
                "max_streams_uni": val("initial_max_streams_uni"),
                "stream_data_bidi_local": val("initial_max_stream_data_bidi_local"),
                "stream_data_bidi_remote": val("initial_max_stream_data_bidi_remote"),
                "stream_data_uni": val("initial_max_stream_data_uni"),
                "ack_delay_exponent": val("ack_delay_exponent"),
                "active_connection_id_limit": val("active_connection_id_limit"),
                "zero_rtt_consistent": 1,
            }
            if val("max_ack_delay") is not None:
                want["max_ack_delay_us"] = val("max_ack_delay") * 1000
            if val("max_datagram_frame_size") is not None and val("max_udp_payload_size") is not None:
                want["max_datagram_payload"] = min(val("max_datagram_frame_size"), val("max_udp_payload_size"))
            peer = val("max_idle_timeout")
            if peer is not None:
                local = int(t[3])
                eff = [x for x in (local, peer) if x != 0]       # §10.1: minimum of the advertised values, 0 = none
                want["idle_ms"] = min(eff) if eff else "none"
            for k, w in want.items():
                if w is not None and got.get(k) != str(w):
                    bad.append((idx, f"tp:limits:{k}", f"{op}: {k} should be {w} (declared by the peer), implementation derives {got.get(k)}"))
    return bad


def nontrivial(op, out):
    return op if out.startswith("ok") else None
