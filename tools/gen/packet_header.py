"""ops for the `packet_header` component (vh-core: the real `ProtectedPacket::decode`, the coalesced-packet loop,
`VersionNegotiation::encode`, `Retry::encode`, `PacketEncoder::encode_packet` under the testing key) / Lean `packet_header`.

The ORACLE below is an independent python transcription of RFC 9000 §17.2 / §17.3 (Figures 13-19, Table 5) and the RFC 8999
invariants; it is evaluated on the IMPLEMENTATION's outputs only.  Signatures:
  pkt:panic                                  any panic
  pkt:<kind>:accepts-invalid:<what>          the decoder returned a <kind> packet for bytes the RFC parser rejects because of <what>
                                             (fixed-bit, dcid-len, scid-len, truncated, token-empty, vn-versions, short-cid-len, …)
  pkt:<kind>:rejects-valid[:cid-gt-20]       the RFC parser yields a <kind> packet, the decoder an error
  pkt:<kind>:fields                          both accept, some header field differs
  pkt:<kind>:consumed                        both accept, a different number of bytes is consumed / protected region differs
  pkt:kind:<rfc-kind>-as-<impl-kind>         both accept, different packet types
  pkt:unknown-version:fields                 an accepted packet of an unknown version does not show the RFC 8999 fields
  pkt:unknown-version:cid-rule               a version-1 connection-ID length rule rejected an Initial-typed packet of another version
  pkt:decall:…                               the same judgements on the first diverging packet of a coalesced datagram
  pkt:enc:<kind>:<what>                      an encoder's output does not parse back (RFC parser) to the fields it was given,
                                             or the Length field is not packet number + payload
"""
STATELESS = True

V1 = 1
VERSIONS = [0, 1, 1, 1, 1, 0xff00001d, 0x6b3343cf, 0x0a0a0a0a, 0xffffffff, 2]
CID_LENS = [0, 1, 8, 20, 21, 255]
TOKEN_LENS = [0, 1, 63, 64, 300]


def hexs(b):
    return bytes(b).hex() if len(b) else "-"


def unhex(s):
    return b"" if s == "-" else bytes.fromhex(s)


def varint(v, width=None):
    """RFC 9000 §16; `width` forces a (possibly non-minimal) encoding"""
    if width is None:
        width = 1 if v <= 63 else 2 if v <= 16383 else 4 if v <= 2**30 - 1 else 8
    tag = {1: 0, 2: 1, 4: 2, 8: 3}[width]
    assert v < 1 << (8 * width - 2)
    return ((tag << (8 * width - 2)) | v).to_bytes(width, "big")


def rbytes(rng, n):
    return bytes(rng.randrange(256) for _ in range(n))


# ---------------------------------------------------------------------------------------------------------------------
# independent RFC 9000 §17 / RFC 8999 parser
# ---------------------------------------------------------------------------------------------------------------------

class Reject(Exception):
    def __init__(self, what, kind="?"):
        self.what = what
        self.kind = kind


def p_varint(b, pos, kind):
    if pos >= len(b):
        raise Reject("truncated", kind)
    w = 1 << (b[pos] >> 6)
    if pos + w > len(b):
        raise Reject("truncated", kind)
    return int.from_bytes(b[pos:pos + w], "big") & ((1 << (8 * w - 2)) - 1), pos + w


KIND_OF_TYPE = {0: "initial", 1: "zerortt", 2: "handshake", 3: "retry"}


def rfc_parse(local_cid_len, b):
    """one packet from the front of `b`.  Returns a dict: kind, fields…, consumed.  Raises Reject(what, kind)."""
    if len(b) == 0:
        raise Reject("empty")
    first = b[0]
    if first & 0x80 == 0:
        # §17.3.1 1-RTT
        if first & 0x40 == 0:
            raise Reject("fixed-bit", "short")
        if local_cid_len > 20:
            raise Reject("short-cid-len", "short")
        if 1 + local_cid_len > len(b):
            raise Reject("truncated", "short")
        return {"kind": "short", "spin": (first >> 5) & 1, "dcid": b[1:1 + local_cid_len], "off": 1 + local_cid_len,
                "len": len(b) - 1 - local_cid_len, "consumed": len(b)}
    # long header: RFC 8999 §5.1
    if len(b) < 5:
        raise Reject("truncated", "long")
    version = int.from_bytes(b[1:5], "big")
    kind = "vn" if version == 0 else KIND_OF_TYPE[(first >> 4) & 3] if version == 1 else "unsupported"
    pos = 5
    cids = []
    for _ in range(2):
        if pos >= len(b):
            raise Reject("truncated", kind)
        n = b[pos]
        pos += 1
        if pos + n > len(b):
            raise Reject("truncated", kind)
        cids.append(b[pos:pos + n])
        pos += n
    dcid, scid = cids
    if version == 0:
        # §17.2.1, RFC 8999 §6
        rest = b[pos:]
        if len(rest) == 0 or len(rest) % 4 != 0:
            raise Reject("vn-versions", "vn")
        return {"kind": "vn", "unused": first & 0x7f, "dcid": dcid, "scid": scid,
                "versions": [int.from_bytes(rest[i:i + 4], "big") for i in range(0, len(rest), 4)], "consumed": len(b)}
    if version != 1:
        return {"kind": "unsupported", "version": version, "dcid": dcid, "scid": scid, "consumed": len(b),
                "initial_typed": (first >> 4) & 3 == 0 and first & 0x40 != 0}
    if first & 0x40 == 0:
        raise Reject("fixed-bit", kind)
    if len(dcid) > 20:
        raise Reject("dcid-len", kind)
    if len(scid) > 20:
        raise Reject("scid-len", kind)
    out = {"kind": kind, "version": 1, "dcid": dcid, "scid": scid}
    if kind == "retry":
        rest = b[pos:]
        if len(rest) < 16:
            raise Reject("truncated", kind)
        if len(rest) == 16:
            raise Reject("token-empty", kind)
        out.update({"unused": first & 0x0f, "token": rest[:-16], "itag": rest[-16:], "consumed": len(b)})
        return out
    if kind == "initial":
        tl, pos = p_varint(b, pos, kind)
        if pos + tl > len(b):
            raise Reject("truncated", kind)
        out["token"] = b[pos:pos + tl]
        pos += tl
    length, pos = p_varint(b, pos, kind)
    if pos + length > len(b):
        raise Reject("truncated", kind)
    out.update({"off": pos, "len": length, "consumed": pos + length})
    return out


# ---------------------------------------------------------------------------------------------------------------------
# reading the implementation's rendering
# ---------------------------------------------------------------------------------------------------------------------

def parse_impl(out):
    """`ok <kind> k=v …` -> dict with bytes / ints;  `err <class>` -> {'err': class}"""
    t = out.split()
    if not t:
        return {"err": "?"}
    if t[0] == "err":
        return {"err": t[1] if len(t) > 1 else "?"}
    if t[0] != "ok" or len(t) < 2:
        return {"err": "?"}
    d = {"kind": t[1]}
    for kv in t[2:]:
        k, _, v = kv.partition("=")
        if k in ("dcid", "scid", "token", "itag"):
            d[k] = unhex(v)
        elif k == "versions":
            d[k] = [] if v == "-" else [int(x) for x in v.split(",")]
        else:
            d[k] = int(v) if v.isdigit() else v
    return d


def judge(n, b, impl, prefix="pkt"):
    """compare the implementation's result for one packet with the RFC parser; returns None or (signature, message)"""
    try:
        want = rfc_parse(n, b)
        rej = None
    except Reject as r:
        want = None
        rej = r
    if "err" in impl:
        if want is None:
            return None
        if want["kind"] == "unsupported":
            # dropping a packet of an unknown version is always allowed — except that version-1 connection-ID
            # rules must not decide about packets a server answers with Version Negotiation (§17.2.1)
            if want["initial_typed"] and impl["err"] in ("dcid-len", "scid-len"):
                return (f"{prefix}:unknown-version:cid-rule",
                        f"Initial-typed packet of version {want['version']:#x} rejected with {impl['err']}")
            return None
        gt20 = len(want.get("dcid", b"")) > 20 or len(want.get("scid", b"")) > 20
        return (f"{prefix}:{want['kind']}:rejects-valid" + (":cid-gt-20" if gt20 else ""),
                f"RFC parser accepts a {want['kind']} packet ({want['consumed']} bytes), implementation gave err {impl['err']}")
    k = impl["kind"]
    if want is None:
        return (f"{prefix}:{k}:accepts-invalid:{rej.what}", f"implementation decoded a {k} packet, RFC parser rejects: {rej.what}")
    if want["kind"] == "unsupported":
        ok = impl.get("v") == want["version"] and impl.get("dcid") == want["dcid"] and impl.get("scid") == want["scid"]
        return None if ok else (f"{prefix}:unknown-version:fields", f"RFC 8999 fields {want}, implementation {impl}")
    if want["kind"] != k:
        return (f"{prefix}:kind:{want['kind']}-as-{k}", f"RFC parser: {want['kind']}, implementation: {k}")
    # fields
    pairs = [("dcid", "dcid")]
    if k != "short":
        pairs.append(("scid", "scid"))
    if k in ("initial", "zerortt", "handshake", "retry"):
        pairs.append(("version", "v"))
    if k in ("initial", "retry"):
        pairs.append(("token", "token"))
    if k == "retry":
        pairs.append(("itag", "itag"))
    if k == "vn":
        pairs.append(("versions", "versions"))
    if k == "short":
        pairs.append(("spin", "spin"))
    for w, i in pairs:
        if want[w] != impl.get(i):
            return (f"{prefix}:{k}:fields", f"{w}: RFC {want[w]!r}, implementation {impl.get(i)!r}")
    if k == "retry" and impl.get("tag", 0) & 0x0f != want["unused"]:
        return (f"{prefix}:{k}:fields", "unused bits")
    if k == "vn" and impl.get("tag", 0) & 0x7f != want["unused"]:
        return (f"{prefix}:{k}:fields", "unused bits")
    consumed = len(b) - impl.get("rem", 0)
    if consumed != want["consumed"]:
        return (f"{prefix}:{k}:consumed", f"RFC consumes {want['consumed']} bytes, implementation {consumed}")
    if k in ("initial", "zerortt", "handshake", "short"):
        if impl.get("hdr") != want["off"] or impl.get("len", 0) - impl.get("hdr", 0) != want["len"] or impl.get("len") != want["consumed"]:
            return (f"{prefix}:{k}:consumed", f"protected region: RFC off={want['off']} len={want['len']}, implementation hdr={impl.get('hdr')} len={impl.get('len')}")
    return None


def rfc_walk(n, b):
    """§12.2: the packets of a datagram as (kind, consumed); stops at the first reject (appended as ('reject', what))"""
    out = []
    while len(b):
        try:
            p = rfc_parse(n, b)
        except Reject as r:
            out.append(("reject", r.what))
            break
        out.append((p["kind"], p["consumed"]))
        b = b[p["consumed"]:]
    return out


def pn_len_needed(pn, la):
    """RFC 9000 A.2 / §17.1: bytes needed so that twice the distance is representable; None if not encodable in 4"""
    if pn < la:
        return None
    d = 2 * (pn - la)
    for n in (1, 2, 3, 4):
        if d < (1 << (8 * n)):
            return n
    return None


def oracle(ops, outs):
    bad = []
    for i, (op, out) in enumerate(zip(ops, outs)):
        t = op.split()
        if out.startswith("panic"):
            bad.append((i, "pkt:panic", f"{op[:200]} panicked: {out}"))
            continue
        if out == "bad-op":
            continue
        if t[0] == "dec":
            n, b = int(t[1]), unhex(t[2])
            r = judge(n, b, parse_impl(out))
            if r:
                bad.append((i, r[0], f"{op[:300]} -> {out[:300]}: {r[1]}"))
        elif t[0] == "decall":
            n, b = int(t[1]), unhex(t[2])
            o = out.split()
            if len(o) != 4 or o[0] != "ok":
                bad.append((i, "pkt:decall:format", f"{op[:200]} -> {out}"))
                continue
            seq = [] if o[2] == "-" else [(x.split(":")[0], int(x.split(":")[1])) for x in o[2].split(",")]
            end = o[3].split("=", 1)[1]
            want = rfc_walk(n, b)
            pos = 0
            r = None
            for j in range(max(len(seq), len(want)) + 1):
                w = want[j] if j < len(want) else None
                s = seq[j] if j < len(seq) else None
                if w is None and s is None:
                    if (end == "done") != (pos == len(b)):
                        r = ("pkt:decall:end", f"loop ended with {end} at offset {pos} of {len(b)}")
                    break
                if w is not None and w[0] == "unsupported":
                    break          # layout of other versions is not defined: the prefix agreed
                if s is None:
                    impl = {"err": end}
                else:
                    impl = None
                if w is not None and w[0] == "reject":
                    if s is not None:
                        r = (f"pkt:decall:{s[0]}:accepts-invalid:{w[1]}", f"packet {j} at offset {pos}")
                    elif end == "done":
                        r = ("pkt:decall:end", f"RFC parser rejects at offset {pos}, loop reported done")
                    break
                if s is None:
                    if w is not None:
                        gt = ""
                        try:
                            p = rfc_parse(n, b[pos:])
                            gt = ":cid-gt-20" if len(p.get("dcid", b"")) > 20 or len(p.get("scid", b"")) > 20 else ""
                        except Reject:
                            pass
                        r = (f"pkt:decall:{w[0]}:rejects-valid{gt}", f"packet {j} at offset {pos}: RFC {w}, loop ended with {end}")
                    break
                if w is None:
                    r = ("pkt:decall:extra-packet", f"packet {j}: {s} beyond the RFC walk")
                    break
                if s[0] != w[0]:
                    r = (f"pkt:decall:kind:{w[0]}-as-{s[0]}", f"packet {j} at offset {pos}")
                    break
                if s[1] != w[1]:
                    r = (f"pkt:decall:{s[0]}:consumed", f"packet {j} at offset {pos}: RFC {w[1]} bytes, implementation {s[1]}")
                    break
                if s[1] == 0:
                    r = ("pkt:decall:no-progress", f"packet {j} consumed no bytes")
                    break
                pos += s[1]
            if r:
                bad.append((i, r[0], f"{op[:300]} -> {out[:300]}: {r[1]}"))
        elif t[0] == "enc":
            kind = t[1]
            if out.startswith("err"):
                if out == "err trunc" and kind not in ("vn", "retry"):
                    pn, la = int(t[-3]), int(t[-2])
                    if pn_len_needed(pn, la) is not None:
                        bad.append((i, f"pkt:enc:{kind}:trunc", f"{op[:200]}: packet number is encodable, implementation gave {out}"))
                continue
            o = out.split()
            if o[0] != "ok" or len(o) != 2:
                bad.append((i, f"pkt:enc:{kind}:format", f"{op[:200]} -> {out[:200]}"))
                continue
            wire = unhex(o[1])
            try:
                if kind == "vn":
                    tag, d, s, sup = int(t[2]), unhex(t[3]), unhex(t[4]), unhex(t[5])
                    if len(sup) == 0 or len(sup) % 4:
                        # not a well-formed list: only the byte layout is checked
                        exp = bytes([tag | 0xc0]) + b"\0\0\0\0" + bytes([len(d)]) + d + bytes([len(s)]) + s + sup
                        if wire != exp:
                            bad.append((i, "pkt:enc:vn:layout", f"{op[:200]}: expected {exp.hex()}, got {wire.hex()}"))
                        continue
                    p = rfc_parse(0, wire)
                    ok = (p["kind"] == "vn" and p["dcid"] == d and p["scid"] == s and p["consumed"] == len(wire)
                          and b"".join(v.to_bytes(4, "big") for v in p["versions"]) == sup and p["unused"] & 0x3f == tag & 0x3f
                          and wire[0] & 0x40)
                    if not ok:
                        bad.append((i, "pkt:enc:vn:roundtrip", f"{op[:200]} -> {out[:200]}: parses to {p}"))
                elif kind == "retry":
                    tag, v, d, s, tok, itag = int(t[2]), int(t[3]), unhex(t[4]), unhex(t[5]), unhex(t[6]), unhex(t[7])
                    exp = bytes([tag]) + v.to_bytes(4, "big") + bytes([len(d)]) + d + bytes([len(s)]) + s + tok + itag
                    if wire != exp:
                        bad.append((i, "pkt:enc:retry:layout", f"{op[:200]}: expected {exp.hex()}, got {wire.hex()}"))
                else:
                    if kind == "short":
                        cap, spin, phase, d, pn, la, payload = int(t[2]), int(t[3]), int(t[4]), unhex(t[5]), int(t[6]), int(t[7]), unhex(t[8])
                        if len(d) > 20:
                            # not a version-1 connection ID: only the raw layout is checked
                            if wire[1:1 + len(d)] != d or wire[0] & 0xc0 != 0x40:
                                bad.append((i, "pkt:enc:short:layout", f"{op[:200]} -> {out[:120]}"))
                            continue
                        p = rfc_parse(len(d), wire)
                        ok = p["kind"] == "short" and p["dcid"] == d and p["spin"] == spin and (wire[0] >> 2) & 1 == phase and wire[0] & 0x18 == 0
                    else:
                        cap, v, d, s = int(t[2]), int(t[3]), unhex(t[4]), unhex(t[5])
                        tok = unhex(t[6]) if kind == "initial" else None
                        pn, la, payload = int(t[-3]), int(t[-2]), unhex(t[-1])
                        if v != 1 or len(d) > 20 or len(s) > 20:
                            # outside version 1: check the raw layout up to the Length field
                            head = bytes([wire[0]]) + v.to_bytes(4, "big") + bytes([len(d)]) + d + bytes([len(s)]) + s
                            if not wire.startswith(head) or wire[0] >> 4 != {"initial": 12, "zerortt": 13, "handshake": 14}[kind]:
                                bad.append((i, f"pkt:enc:{kind}:layout", f"{op[:200]} -> {out[:120]}"))
                            continue
                        p = rfc_parse(0, wire)
                        ok = (p["kind"] == kind and p["version"] == v and p["dcid"] == d and p["scid"] == s
                              and (tok is None or p["token"] == tok) and wire[0] & 0x0c == 0)
                    if not ok:
                        bad.append((i, f"pkt:enc:{kind}:roundtrip", f"{op[:200]} -> {out[:200]}: parses to {p}"))
                        continue
                    pl = (wire[0] & 3) + 1
                    need = pn_len_needed(pn, la)
                    body = wire[p["off"]:]
                    if (p["consumed"] != len(wire) or p["len"] != pl + len(payload) or body[pl:] != payload
                            or body[:pl] != (pn % (1 << (8 * pl))).to_bytes(pl, "big") or need is None or pl < need or len(wire) > cap):
                        bad.append((i, f"pkt:enc:{kind}:length-field",
                                    f"{op[:200]} -> {out[:200]}: Length={p['len']} pn_len={pl} payload={len(payload)} consumed={p['consumed']}/{len(wire)}"))
            except Reject as r:
                bad.append((i, f"pkt:enc:{kind}:roundtrip", f"{op[:200]} -> {out[:200]}: RFC parser rejects the output: {r.what}"))
    return bad


def nontrivial(op, out):
    return op if out.startswith("ok") else None


# ---------------------------------------------------------------------------------------------------------------------
# generation
# ---------------------------------------------------------------------------------------------------------------------

def pick_cid_len(rng, valid_bias=0.75):
    if rng.random() < valid_bias:
        return rng.choice([0, 1, 4, 8, 8, 16, 20, 20])
    return rng.choice(CID_LENS + [19, 22, 254])


def long_packet(rng, kind, version=None, dlen=None, slen=None, tlen=None, length_mode=None, body=None, first_low=None):
    """grammar-generated long-header packet; returns bytes.  length_mode: 'eq' | 'short' | 'long' | 'zero'"""
    version = rng.choice(VERSIONS) if version is None else version
    dlen = pick_cid_len(rng) if dlen is None else dlen
    slen = pick_cid_len(rng) if slen is None else slen
    typ = {"initial": 0, "zerortt": 1, "handshake": 2, "retry": 3}[kind]
    low = rng.randrange(16) if first_low is None else first_low
    first = 0xc0 | (typ << 4) | low
    out = bytes([first]) + version.to_bytes(4, "big") + bytes([dlen]) + rbytes(rng, dlen) + bytes([slen]) + rbytes(rng, slen)
    if kind == "retry":
        tl = rng.choice([0, 0, 1, 1, 2, 16, 17, 40, 300]) if tlen is None else tlen
        taglen = rng.choice([16, 16, 16, 16, 15, 0, 8])
        return out + rbytes(rng, tl) + rbytes(rng, taglen)
    if kind == "initial":
        tl = rng.choice(TOKEN_LENS + [0, 0, 16]) if tlen is None else tlen
        w = rng.choice([None, None, None, 2, 4, 8])
        out += varint(tl, w) + rbytes(rng, tl)
    if body is None:
        body = rbytes(rng, rng.choice([0, 1, 2, 4, 5, 20, 21, 40, 63, 64, 65, 300, 1200]))
    mode = length_mode or rng.choice(["eq", "eq", "eq", "eq", "short", "long", "zero"])
    if mode == "eq":
        ln = len(body)
    elif mode == "short":
        ln = rng.randrange(0, len(body) + 1)
    elif mode == "zero":
        ln = 0
    else:
        ln = len(body) + rng.choice([1, 1, 2, 100, 16384, 2**30, 2**62 - 1 - len(body)])
    minw = 1 if ln <= 63 else 2 if ln <= 16383 else 4 if ln <= 2**30 - 1 else 8
    w = rng.choice([minw, minw, minw] + [x for x in (2, 4, 8) if x >= minw])
    return out + varint(ln, w) + body


def vn_packet(rng, dlen=None, slen=None, nver=None, first=None, trailing=None):
    dlen = pick_cid_len(rng) if dlen is None else dlen
    slen = pick_cid_len(rng) if slen is None else slen
    nver = rng.choice([0, 1, 1, 2, 3, 8, 40]) if nver is None else nver
    first = (0x80 | rng.randrange(128)) if first is None else first
    trailing = rng.choice([0, 0, 0, 0, 1, 2, 3]) if trailing is None else trailing
    vs = b"".join(rng.choice([1, 0xff00001d, 0x0a1a2a3a, 0, 0xffffffff, rng.getrandbits(32)]).to_bytes(4, "big") for _ in range(nver))
    return bytes([first]) + b"\0\0\0\0" + bytes([dlen]) + rbytes(rng, dlen) + bytes([slen]) + rbytes(rng, slen) + vs + rbytes(rng, trailing)


def short_packet(rng, n, first=None, extra=None):
    first = (0x40 | rng.randrange(64)) if first is None else first
    extra = rng.choice([0, 0, 1, 2, 5, 20, 40, 1200]) if extra is None else extra
    return bytes([first]) + rbytes(rng, n) + rbytes(rng, extra)


def any_packet(rng, n, v1=False):
    k = rng.choice(["initial", "initial", "zerortt", "handshake", "handshake", "retry", "vn", "short", "short"])
    if k == "vn":
        return vn_packet(rng)
    if k == "short":
        return short_packet(rng, n)
    return long_packet(rng, k, version=1 if v1 else None)


def local_len(rng):
    return rng.choice([0, 1, 4, 8, 8, 8, 16, 20, 20, 21, 255])


def enc_ops(rng):
    ops = []
    la = rng.choice([0, 0, 0, 5, 1000, 2**31, 2**62 - 2])
    pn = max(0, min(2**62 - 1, la + rng.choice([-1, 0, 1, 1, 2, 100, 127, 128, 129, 32767, 32768, 2**23, 2**31 - 1, 2**31, 2**40])))
    cap = rng.choice([1200, 1200, 1500, 100, 64, 63, 40, 30, 27, 20, 16500, 65535, 0, 5])
    d = rbytes(rng, rng.choice([0, 1, 8, 8, 20, 20, 21, 255]))
    s = rbytes(rng, rng.choice([0, 1, 8, 20, 21, 255]))
    payload = rbytes(rng, rng.choice([0, 1, 2, 3, 4, 5, 16, 19, 20, 21, 22, 23, 24, 25, 26, 27, 40, 61, 62, 63, 64, 65, 300, 1100]))
    v = rng.choice([1, 1, 1, 0xff00001d, 2, 0, 0xffffffff])
    c = rng.random()
    if c < 0.15:
        nver = rng.choice([0, 1, 1, 2, 7])
        sup = b"".join(rng.choice([1, 0xff00001d, rng.getrandbits(32)]).to_bytes(4, "big") for _ in range(nver)) + rbytes(rng, rng.choice([0, 0, 0, 1, 3]))
        ops.append(f"enc vn {rng.choice([0, 0, 0x40, 0x3f, 0x7f, 0xff, 0x80, rng.randrange(256)])} {hexs(d)} {hexs(s)} {hexs(sup)}")
    elif c < 0.3:
        tok = rbytes(rng, rng.choice([0, 1, 16, 40, 300]))
        ops.append(f"enc retry {rng.choice([0xff, 0xf0, 0xf5, rng.randrange(256)])} {v} {hexs(d)} {hexs(s)} {hexs(tok)} {hexs(rbytes(rng, 16))}")
    elif c < 0.55:
        tok = rbytes(rng, rng.choice(TOKEN_LENS + [0, 0]))
        ops.append(f"enc initial {cap} {v} {hexs(d)} {hexs(s)} {hexs(tok)} {pn} {la} {hexs(payload)}")
    elif c < 0.7:
        ops.append(f"enc zerortt {cap} {v} {hexs(d)} {hexs(s)} {pn} {la} {hexs(payload)}")
    elif c < 0.85:
        ops.append(f"enc handshake {cap} {v} {hexs(d)} {hexs(s)} {pn} {la} {hexs(payload)}")
    else:
        ops.append(f"enc short {cap} {rng.randrange(2)} {rng.randrange(2)} {hexs(d)} {pn} {la} {hexs(payload)}")
    return ops


def gen(rng, n, tier):
    ops = []
    # --- fixed boundary block: every kind x CID length x (DCID|SCID) at version 1 and at an unknown version
    for kind in ("initial", "zerortt", "handshake", "retry"):
        for ln in CID_LENS:
            for version in (1, 0xff00001d):
                ops.append(f"dec 8 {hexs(long_packet(rng, kind, version, ln, 8, None, 'eq'))}")
                ops.append(f"dec 8 {hexs(long_packet(rng, kind, version, 8, ln, None, 'eq'))}")
    for ln in CID_LENS:
        ops.append(f"dec 8 {hexs(vn_packet(rng, ln, 8, 2, None, 0))}")
        ops.append(f"dec 8 {hexs(vn_packet(rng, 8, ln, 2, None, 0))}")
        ops.append(f"dec {ln} {hexs(short_packet(rng, ln))}")
        ops.append(f"dec {ln} {hexs(short_packet(rng, max(ln - 1, 0), extra=0))}")
        ops.append(f"dec {ln} {hexs(short_packet(rng, ln, extra=0))}")
    for tl in TOKEN_LENS:
        for mode in ("eq", "short", "long", "zero"):
            ops.append(f"dec 8 {hexs(long_packet(rng, 'initial', 1, 8, 8, tl, mode))}")
    for tl in (0, 1, 2, 300):                       # Retry: token ‖ 16-byte tag
        ops.append(f"dec 8 {hexs(long_packet(rng, 'retry', 1, 8, 8, tl))}")
    for nver in (0, 1, 2):
        for tr in (0, 1, 2, 3):
            ops.append(f"dec 8 {hexs(vn_packet(rng, 8, 8, nver, None, tr))}")
    # version 0 with every long type / fixed bit combination; fixed bit clear with other versions
    for hi in range(8, 16):
        for version in (0, 1, 0xff00001d):
            p = bytearray(long_packet(rng, "handshake", version, 8, 8, None, "eq"))
            p[0] = (hi << 4) | rng.randrange(16)
            ops.append(f"dec 8 {hexs(p)}")
            v = bytearray(vn_packet(rng, 8, 8, 2, None, 0))
            v[0] = (hi << 4) | rng.randrange(16)
            v[1:5] = version.to_bytes(4, "big")
            ops.append(f"dec 8 {hexs(v)}")
    # every first byte followed by random bytes, and by the tail of a valid packet
    for h in range(256):
        ops.append(f"dec {local_len(rng)} {hexs(bytes([h]) + rbytes(rng, rng.randrange(0, 40)))}")
        tail = long_packet(rng, rng.choice(['initial', 'zerortt', 'handshake', 'retry']), rng.choice([0, 1, 1]), None, None, None, "eq")[1:]
        ops.append(f"dec 8 {hexs(bytes([h]) + tail)}")
    ops.append("dec 0 -")
    ops.append("dec 8 -")
    ops.append("decall 8 -")
    # every truncation and single-byte mutations of one valid packet per kind
    for kind in ("initial", "zerortt", "handshake", "retry", "vn", "short"):
        if kind == "vn":
            p = vn_packet(rng, 8, 4, 2, None, 0)
        elif kind == "short":
            p = short_packet(rng, 8, extra=6)
        else:
            p = long_packet(rng, kind, 1, 8, 4, 3 if kind != "retry" else 5, "eq", body=rbytes(rng, 9))
        for k in range(len(p) + 1):
            ops.append(f"dec 8 {hexs(p[:k])}")
        for k in range(min(len(p), 40)):
            q = bytearray(p)
            q[k] = rng.choice([0, 1, 20, 21, 0x3f, 0x40, 0x7f, 0x80, 0xff, q[k] ^ (1 << rng.randrange(8))])
            ops.append(f"dec 8 {hexs(q)}")
            ops.append(f"decall 8 {hexs(q)}")
    # --- random part
    for _ in range(n):
        c = rng.random()
        nloc = local_len(rng)
        if c < 0.30:
            ops.append(f"dec {nloc} {hexs(any_packet(rng, nloc))}")
        elif c < 0.42:
            # mutation / truncation of a valid version-1 packet
            p = bytearray(any_packet(rng, nloc, v1=True))
            if len(p) and rng.random() < 0.5:
                p = p[:rng.randrange(len(p) + 1)]
            for _ in range(rng.choice([1, 1, 2])):
                if len(p):
                    k = rng.randrange(min(len(p), 60))
                    p[k] = rng.choice([0, 1, 20, 21, 0x40, 0x80, 0xff, rng.randrange(256), p[k] ^ (1 << rng.randrange(8))])
            ops.append(f"dec {nloc} {hexs(p)}")
        elif c < 0.50:
            ops.append(f"dec {nloc} {hexs(rbytes(rng, rng.choice([1, 2, 5, 6, 7, 8, 20, 30, 60])))}")
        elif c < 0.70:
            # coalesced datagram: long packets with exact Length, optionally closed by a short / Retry / VN packet or junk
            parts = []
            for _ in range(rng.choice([1, 2, 2, 3, 4])):
                k = rng.choice(["initial", "zerortt", "handshake"])
                mode = "eq" if rng.random() < 0.85 else None
                dl = rng.choice([0, 8, 20, 20, 21]) if rng.random() < 0.2 else rng.choice([0, 8, 20])
                parts.append(long_packet(rng, k, 1, dl, rng.choice([0, 8, 20]), None, mode, body=rbytes(rng, rng.choice([1, 5, 20, 64, 300]))))
            tail = rng.random()
            if tail < 0.35:
                parts.append(short_packet(rng, nloc))
            elif tail < 0.45:
                parts.append(long_packet(rng, "retry", 1, 8, 8))
            elif tail < 0.55:
                parts.append(vn_packet(rng, 8, 8))
            elif tail < 0.65:
                parts.append(rbytes(rng, rng.choice([1, 3, 9])))
            elif tail < 0.70:
                parts.append(b"\0" * rng.choice([1, 7, 30]))     # zero padding after the last packet
            d = b"".join(parts)
            ops.append(f"decall {nloc} {hexs(d)}")
            if rng.random() < 0.3:
                ops.append(f"dec {nloc} {hexs(d)}")
        else:
            ops.extend(enc_ops(rng))
    return ops
