"""ops for the `packet_number` component (vh-core) / Lean `packet_number` driver.

The oracle is a python transcription of RFC 9000 §17.1 (normative size rule), Appendix A.2 / A.3
(pseudo-code) and of the round-trip claim of property C08: a packet number truncated against the
largest acknowledged number `la` is reconstructed exactly by a peer whose largest processed number
`L` lies in the guaranteed window (la ≤ L and pn > L + 1 - 2^(bits-1)). It looks only at the
implementation's outputs.
"""
STATELESS = True
MAXPN = 2**62 - 1
THRESH = [2**7, 2**15, 2**23, 2**31]          # distances at which the 1/2/3/4-byte choice changes
WINS = [2**8, 2**16, 2**24, 2**32]


def hexs(b):
    return bytes(b).hex() if b else "-"


def clamp(x):
    return max(0, min(MAXPN, x))


# ----------------------------------------------------------------------------------------------
# RFC reference

def rfc_min_len(pn, la):
    """§17.1: smallest size (1..4 bytes) able to represent MORE than twice the distance; None if none"""
    if pn < la:
        return None
    for n in (1, 2, 3, 4):
        if 2 ** (8 * n) > 2 * (pn - la):
            return n
    return None


def rfc_a2_num_bytes(pn, la):
    """A.2 pseudo-code: ceil((log2(num_unacked) + 1) / 8) with a real logarithm"""
    n = pn - la
    for k in (1, 2, 3, 4):
        if n <= 2 ** (8 * k - 1):
            return k
    return 5


def rfc_decode(largest, trunc, nbits):
    """A.3 DecodePacketNumber, python integers (unbounded)"""
    expected = largest + 1
    win = 1 << nbits
    hwin = win // 2
    mask = win - 1
    cand = (expected & ~mask) | trunc
    if cand <= expected - hwin and cand < (1 << 62) - win:
        return cand + win
    if cand > expected + hwin and cand >= win:
        return cand - win
    return cand


def in_window(pn, L, nbytes):
    hwin = 2 ** (8 * nbytes - 1)
    return L + 1 - hwin < pn <= L + 1 + hwin


# ----------------------------------------------------------------------------------------------
# generator

def _triples(rng):
    """(pn, la, L) concentrated where it matters"""
    out = []
    bases = [0, 1, 2, 127, 128, 129, 255, 256, 257, 2**16, 2**24, 2**31, 2**32, 2**32 + 5, 2**40 + 12345,
             0xabe8b3, 0xa82f30ea, 2**61, MAXPN - 2**32 - 3, MAXPN - 2**31, MAXPN - 70000, MAXPN - 300, MAXPN - 130,
             MAXPN - 2, MAXPN - 1, MAXPN]
    for la in bases:
        for th in THRESH:
            for dd in (-2, -1, 0, 1, 2):
                pn = la + th + dd
                if 0 <= pn <= MAXPN:
                    out.append((pn, la, la))
                    out.append((pn, la, clamp(pn - 1)))
                # la below pn by the threshold, anchored at pn (covers pn near 2^62-1)
                la2 = la - th - dd
                if 0 <= la2 <= MAXPN:
                    out.append((la, la2, la2))
        for d in (0, 1, 2, 3):
            if la + d <= MAXPN:
                out.append((la + d, la, la))
            if la - d >= 0:
                out.append((la - d, la, la))      # pn < la  -> None expected (d > 0)
    return out


def _rt_neighbourhood(rng, pn, la):
    """values of L around the edges of the guaranteed window for the length chosen for (pn, la)"""
    n = rfc_min_len(pn, la)
    if n is None:
        return [la]
    hwin = 2 ** (8 * n - 1)
    edge_hi = pn + hwin - 2          # largest L with pn > L + 1 - hwin
    edge_lo = pn - hwin - 1          # smallest L with pn <= L + 1 + hwin
    c = [la, pn, clamp(pn - 1), clamp(pn + 1), (la + pn) // 2]
    for e in (edge_hi, edge_lo):
        for dd in (-2, -1, 0, 1, 2):
            c.append(clamp(e + dd))
    c.append(clamp(rng.randrange(min(la, pn), max(la, pn) + 1)))
    c.append(clamp(pn + rng.randrange(0, hwin)))
    return c


def gen(rng, n, tier):
    ops = []
    # RFC examples (A.2: 0xabe8b3 acked, sending 0xac5c02 -> 16 bits, 0xace8fe -> 24 bits; A.3)
    ops += ["trunc 11295746 11266227", "trunc 11331838 11266227", "expand 2 39730 2821665002",
            "rt 2821692210 2821665002 2821665002"]
    tr = _triples(rng)
    for (pn, la, L) in tr:
        ops.append(f"trunc {pn} {la}")
    for (pn, la, L) in tr:
        for l2 in sorted(set(_rt_neighbourhood(rng, pn, la))):
            ops.append(f"rt {pn} {la} {l2}")
    # expand at the 0 and 2^62 edges, every length, values around the half-window
    for nb in (1, 2, 3, 4):
        win = 2 ** (8 * nb)
        hwin = win // 2
        vals = sorted(set([0, 1, 2, hwin - 2, hwin - 1, hwin, hwin + 1, hwin + 2, win - 3, win - 2, win - 1]))
        for L in [0, 1, 2, hwin - 2, hwin - 1, hwin, hwin + 1, win - 2, win - 1, win, win + 1, 2**33 + 7,
                  MAXPN - win - 1, MAXPN - win, MAXPN - win + 1, MAXPN - hwin - 1, MAXPN - hwin, MAXPN - hwin + 1,
                  MAXPN - 2, MAXPN - 1, MAXPN]:
            if 0 <= L <= MAXPN:
                for v in vals:
                    ops.append(f"expand {nb} {v} {L}")
                # values just around the low bits of L+1
                for dd in (-2, -1, 0, 1, 2):
                    ops.append(f"expand {nb} {(L + 1 + dd) % win} {L}")
                    ops.append(f"expand {nb} {(L + 1 + hwin + dd) % win} {L}")
    # every first byte decides the length by its two low bits only
    for fb in range(256):
        k = rng.randrange(0, 6)
        ops.append(f"dec {fb} " + hexs([rng.randrange(256) for _ in range(k)]))
    for fb in range(4):
        for k in range(0, 6):
            ops.append(f"dec {fb} " + hexs([rng.randrange(1, 256) for _ in range(k)]))
    for p in (0, 1, 2, 2**32, MAXPN - 1, MAXPN):
        ops += [f"next {p}", f"prev {p}"]
    for (s, e) in ((0, 0), (0, 3), (5, 9), (MAXPN - 2, MAXPN), (MAXPN, MAXPN), (0, 1), (7, 7)):
        for pat in ("ffffff", "bbbbbb", "fbfbfbfb", "ffbbffbb", "bfffff", "fbbbbb"):
            ops.append(f"range {s} {e} {pat}")
    # random part
    for _ in range(n):
        c = rng.random()
        if c < 0.5:
            la = _rand_pn(rng)
            th = rng.choice(THRESH + [2**32, 2**33])
            if rng.random() < 0.6:
                d = th + rng.randrange(-3, 4)
            else:
                d = rng.randrange(0, th + 1)
            if rng.random() < 0.05:
                d = -rng.randrange(1, 1000)
            pn = clamp(la + d)
            if rng.random() < 0.35:
                ops.append(f"trunc {pn} {la}")
            else:
                L = rng.choice(_rt_neighbourhood(rng, pn, la))
                ops.append(f"rt {pn} {la} {L}")
        elif c < 0.85:
            nb = rng.choice((1, 2, 3, 4))
            win = 2 ** (8 * nb)
            L = _rand_pn(rng)
            if rng.random() < 0.5:
                v = (L + 1 + win // 2 + rng.randrange(-3, 4)) % win
            else:
                v = rng.randrange(win)
            ops.append(f"expand {nb} {v} {L}")
        elif c < 0.93:
            k = rng.choice((0, 1, 2, 3, 4, 5, 8))
            ops.append(f"dec {rng.randrange(256)} " + hexs([rng.randrange(256) for _ in range(k)]))
        elif c < 0.96:
            ops.append(f"{rng.choice(('next', 'prev'))} {_rand_pn(rng)}")
        else:
            s = _rand_pn(rng)
            e = clamp(s + rng.randrange(0, 5))
            pat = "".join(rng.choice("fb") for _ in range(rng.randrange(1, 9)))
            ops.append(f"range {s} {e} {pat}")
    return ops


def _rand_pn(rng):
    c = rng.random()
    if c < 0.25:
        return rng.randrange(0, 600)
    if c < 0.5:
        return MAXPN - rng.randrange(0, 2**rng.choice((3, 9, 17, 25, 33)))
    if c < 0.7:
        return clamp(rng.choice(WINS + THRESH) * rng.randrange(1, 4) + rng.randrange(-3, 4))
    return rng.getrandbits(rng.choice((8, 16, 24, 32, 33, 48, 62)))


# ----------------------------------------------------------------------------------------------
# oracle

def _check_trunc(op, pn, la, nbytes, value, hx, tag, bad, i):
    want = rfc_min_len(pn, la)
    if want is None:
        bad.append((i, "pn:truncate-some-unexpected", f"{op}: RFC 9000 §17.1 admits no 1..4 byte size (pn < la or 2·(pn-la) ≥ 2^32) but the implementation truncated to {nbytes} bytes"))
        return False
    if nbytes < want:
        bad.append((i, "pn:len-too-short", f"{op}: {nbytes} bytes cannot represent more than twice the distance {pn - la} (§17.1 needs {want})"))
        return False
    if nbytes > want:
        bad.append((i, "pn:len-not-minimal", f"{op}: {nbytes} bytes used, §17.1 shortest admissible size is {want}"))
        return False
    if nbytes < rfc_a2_num_bytes(pn, la):
        bad.append((i, "pn:len-too-short", f"{op}: shorter than Appendix A.2 num_bytes"))
        return False
    wbytes = (pn & (2 ** (8 * nbytes) - 1)).to_bytes(nbytes, "big")
    if hx != wbytes.hex() or (value is not None and value != int.from_bytes(wbytes, "big")):
        bad.append((i, "pn:truncated-value", f"{op}: wire bytes {hx} are not the {nbytes} least significant bytes of pn in network order ({wbytes.hex()})"))
        return False
    if tag is not None and tag != nbytes - 1:
        bad.append((i, "pn:len-tag", f"{op}: first-byte length bits {tag} for a {nbytes}-byte packet number (must be one less)"))
        return False
    return True


def oracle(ops, outs):
    bad = []
    for i, (op, out) in enumerate(zip(ops, outs)):
        t = op.split()
        o = out.split()
        if not o or o[0] == "panic":
            bad.append((i, f"pn:panic:{t[0]}", f"packet_number {op} panicked: {out}"))
            continue
        if t[0] == "trunc":
            pn, la = int(t[1]), int(t[2])
            if out == "err none":
                if rfc_min_len(pn, la) is not None:
                    bad.append((i, "pn:truncate-none-unexpected", f"{op}: la ≤ pn and 2·(pn-la) < 2^32, a {rfc_min_len(pn, la)}-byte encoding exists, implementation returned None"))
            elif o[0] == "ok" and len(o) == 5:
                _check_trunc(op, pn, la, int(o[1]), int(o[2]), o[3], int(o[4]), bad, i)
            else:
                bad.append((i, "pn:malformed-output", f"{op} -> {out}"))
        elif t[0] == "rt":
            pn, la, L = int(t[1]), int(t[2]), int(t[3])
            if out == "err none":
                if rfc_min_len(pn, la) is not None:
                    bad.append((i, "pn:truncate-none-unexpected", f"{op}: a {rfc_min_len(pn, la)}-byte encoding exists, implementation returned None"))
            elif out == "err eof":
                bad.append((i, "pn:dec-len-bits", f"{op}: the emitted bytes could not be decoded with the emitted length bits"))
            elif o[0] == "ok" and len(o) == 4:
                nbytes, hx, got = int(o[1]), o[2], int(o[3])
                if not _check_trunc(op, pn, la, nbytes, None, hx, None, bad, i):
                    continue
                if got > MAXPN:
                    bad.append((i, "pn:expand-out-of-range", f"{op}: expanded to {got} > 2^62-1"))
                    continue
                if la <= L and in_window(pn, L, nbytes) and got != pn:
                    bad.append((i, "pn:roundtrip", f"{op}: sent {pn} as {nbytes} bytes {hx} (largest acked {la}); receiver with largest {L} (inside the window) reconstructs {got}"))
                    continue
                ref = min(rfc_decode(L, int(hx, 16), 8 * nbytes), MAXPN)
                if got != ref:
                    bad.append((i, "pn:expand-ne-rfc", f"{op}: RFC A.3 gives {ref}, implementation {got}"))
            else:
                bad.append((i, "pn:malformed-output", f"{op} -> {out}"))
        elif t[0] == "expand":
            nb, v, L = int(t[1]), int(t[2]), int(t[3])
            if out == "err eof":
                bad.append((i, "pn:dec-len-bits", f"{op}: {nb} bytes announced by length bits {nb - 1} were not accepted as a {nb}-byte packet number"))
                continue
            if o[0] != "ok" or len(o) != 2:
                bad.append((i, "pn:malformed-output", f"{op} -> {out}"))
                continue
            got = int(o[1])
            if got > MAXPN:
                bad.append((i, "pn:expand-out-of-range", f"{op}: expanded to {got} > 2^62-1"))
                continue
            r = rfc_decode(L, v, 8 * nb)
            if got != min(r, MAXPN):
                bad.append((i, "pn:expand-ne-rfc", f"{op}: RFC A.3 gives {r}, implementation {got}"))
                continue
            # declarative: the unique number in the window with these low bits, when it is a valid pn
            win = 2 ** (8 * nb)
            lo = L + 2 - win // 2
            x = lo + ((v - lo) % win)
            if 0 <= x <= MAXPN and got != x:
                bad.append((i, "pn:roundtrip", f"{op}: the only packet number in the window with these bits is {x}, implementation {got}"))
        elif t[0] == "dec":
            fb = int(t[1])
            b = bytes.fromhex(t[2]) if t[2] != "-" else b""
            n = (fb & 3) + 1
            exp = "err eof" if len(b) < n else f"ok {n} {int.from_bytes(b[:n], 'big')} {n}"
            if out != exp:
                bad.append((i, "pn:dec-len-bits", f"{op}: RFC 9000 §17.2 (length = low two bits + 1) says {exp}, implementation gave {out}"))
        elif t[0] in ("next", "prev"):
            p = int(t[1])
            q = p + 1 if t[0] == "next" else p - 1
            exp = f"ok {q}" if 0 <= q <= MAXPN else "err none"
            if out != exp:
                bad.append((i, f"pn:{t[0]}", f"{op}: expected {exp}, implementation gave {out}"))
        elif t[0] == "range":
            s, e, pat = int(t[1]), int(t[2]), t[3]
            items = list(range(s, e + 1)) if e - s < 100 else None
            if items is None or o[0] != "ok":
                continue
            got = o[1].split(",")
            exp = []
            for c in pat:
                if not items:
                    exp.append("x")
                elif c == "f":
                    exp.append(str(items.pop(0)))
                else:
                    exp.append(str(items.pop()))
            if got != exp:
                bad.append((i, "pn:range-iter", f"{op}: a double-ended iterator over {s}..={e} yields {','.join(exp)}, implementation gave {o[1]}"))
    return bad


def nontrivial(op, out):
    return op if out.startswith("ok") else None
