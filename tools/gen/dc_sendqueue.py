"""ops for the `dc_sendqueue` component (vh-dc: the REAL s2n_quic_dc::stream::send::queue::Queue against a scripted
mock socket) / Lean `dc_sendqueue` driver, and the independent oracle of the C20 byte-exactness claim on the
stream-socket (TCP) flush path.

The oracle keeps ITS OWN byte string of everything that was pushed and compares it with the concatenation of what the
mock socket accepted:

  dcsendq:bytes-resent      the socket was handed bytes it had already accepted
  dcsendq:bytes-skipped     the socket was handed later bytes while earlier ones were never accepted
  dcsendq:wrong-bytes       the socket was handed bytes that are neither
  dcsendq:credit-early      poll_flush reported Ready(credit) although not everything queued had been accepted
  dcsendq:credit-wrong      the reported credit is not min(limit, credit accepted by push_buffer and not yet reported)
  dcsendq:stall             poll_flush stopped calling the socket although it was neither told Pending nor empty,
                            or reported Pending/Ready contrary to what the socket answered
  dcsendq:short-write-lost  the socket accepted n bytes in a call but the harness saw a different amount
  dcsendq:error-not-failstop after a socket error the queue still holds segments or credit
  dcsendq:dgram-not-whole   (datagram mode) the socket was offered something that is not a sequence of whole queued
                            segments in queue order, each at most once
  dcsendq:panic             the real code panicked (debug assertions are on in the harness build)
"""

ECNS = [0, 1, 2, 3]


def pattern(length, seed):
    return bytes(((((seed + i) * 2654435761) >> 11) & 0xff) for i in range(length))


def hexs(b):
    return bytes(b).hex() if b else "-"


class H:
    """builder of one history"""

    def __init__(self, rng, mode="stream"):
        self.rng = rng
        self.ops = ["reset", f"config {mode}"]
        self.seed = rng.randrange(1, 1 << 30)

    def seg(self, length, ecn=2, literal=None):
        if literal is None:
            literal = length <= 24 and self.rng.random() < 0.5
        self.seed += 7919
        if literal:
            return f"{ecn}:{pattern(length, self.seed % (1 << 31)).hex()}"
        return f"{ecn}:@{length},{self.seed % (1 << 31)}"

    def push(self, lens, credit=None, ecn=2, err=False):
        if credit is None:
            credit = sum(lens) - 3 * len(lens) if self.rng.random() < 0.5 else self.rng.randrange(0, 50)
            credit = max(credit, 0)
        segs = [self.seg(l, ecn if isinstance(ecn, int) else ecn[i]) for i, l in enumerate(lens)]
        self.ops.append(f"{'pusherr' if err else 'push'} {credit} " + " ".join(segs))

    def flush(self, script, limit="max"):
        self.ops.append(f"flush {limit} " + (",".join(script) if script else "-"))

    def state(self):
        self.ops.append("state")


def acc(ns):
    return [f"a{n}" for n in ns]


def h_one_segment(rng):
    """2, 3, many consecutive short writes inside ONE segment"""
    h = H(rng)
    L = rng.choice([5, 8, 16, 33, 64, 200, 1500])
    h.push([L])
    k = rng.choice([2, 2, 3, 3, 4, 6, 10])
    cuts = [rng.randrange(1, max(2, L // (k + 1) + 1)) for _ in range(k)]
    style = rng.randrange(4)
    if style == 0:        # all in one poll_flush
        h.flush(acc(cuts) + ["p"])
    elif style == 1:      # one short write per poll_flush
        for c in cuts:
            h.flush(acc([c]) + ["p"])
    elif style == 2:      # script exhausted instead of explicit pending
        h.flush(acc(cuts[:1]))
        h.flush(acc(cuts[1:]))
    else:
        h.flush(acc(cuts[:2]) + ["p"])
        h.state()
        h.flush(acc(cuts[2:]) + ["p"])
    h.state()
    h.flush(["A"])
    h.flush([], limit=rng.choice(["max", "0", "3"]))
    return h.ops


def h_boundaries(rng):
    """short writes that end exactly at / one before / one after segment boundaries, equal-sized segments
    (so that one batch spans them)"""
    h = H(rng)
    L = rng.choice([4, 7, 16, 100])
    n = rng.choice([2, 3, 5, 8])
    h.push([L] * n)
    script = []
    left = L * n
    pos = 0
    while left > 0 and len(script) < 12:
        to_b = L - pos % L
        c = rng.choice([to_b, to_b, to_b - 1 if to_b > 1 else 1, to_b + 1, to_b + L, 1, 2 * L, rng.randrange(1, left + 1)])
        c = max(1, min(c, left))
        script.append(c)
        pos += c
        left -= c
    if rng.random() < 0.5:
        h.flush(acc(script))
    else:
        for c in script:
            h.flush(acc([c]) + ["p"])
            if rng.random() < 0.3:
                h.state()
    h.flush(["A", "A", "A", "A", "A", "A", "A", "A", "A"])
    return h.ops


def h_push_between(rng):
    """pushes between short writes"""
    h = H(rng)
    for _ in range(rng.randrange(3, 8)):
        lens = [rng.choice([3, 5, 9, 9, 16, 40]) for _ in range(rng.randrange(1, 4))]
        h.push(lens, err=rng.random() < 0.1)
        r = rng.random()
        if r < 0.6:
            h.flush(acc([rng.randrange(1, 7) for _ in range(rng.randrange(1, 4))]) + ["p"], limit=rng.choice(["max", "max", "2", "10"]))
        elif r < 0.75:
            h.flush(["p"])
        elif r < 0.85:
            h.flush([])
    h.flush(["A"] * 40)
    h.flush([])
    h.state()
    return h.ops


def h_errors(rng):
    h = H(rng)
    h.push([rng.randrange(4, 30) for _ in range(rng.randrange(1, 4))])
    h.flush(acc([rng.randrange(1, 5)]) + [rng.choice(["e", "eio"])])
    h.state()
    # a fresh stream on the same queue object
    h.push([6, 6])
    h.flush(acc([4, 4]) + ["p"])
    h.flush(["e"] if rng.random() < 0.3 else ["A", "A"])
    h.flush([])
    return h.ops


def h_batch_rules(rng):
    """ECN changes, undersized segments, more segments than MAX_COUNT, zero-byte answers"""
    h = H(rng)
    style = rng.randrange(5)
    if style == 0:
        ecns = [rng.choice(ECNS) for _ in range(6)]
        h.push([8] * 6, ecn=ecns)
        h.flush(acc([3, 9, 20]) + ["A"] * 8)
    elif style == 1:
        h.push([rng.choice([4, 8, 8, 12]) for _ in range(7)])
        h.flush(acc([5, 1, 11]) + ["p"])
        h.flush(["A"] * 9)
    elif style == 2:
        n = rng.choice([43, 44, 45, 60, 90])
        h.push([3] * n)
        h.flush(acc([rng.choice([131, 132, 133, 1, 3 * n])]) + ["p"])
        h.state()
        h.flush(["A"] * 50)
    elif style == 3:
        h.push([10, 10])
        h.flush(["a0", "a0"] + acc([4]) + ["a0"] + acc([3]) + ["p"])
        h.flush(["A", "A"])
    else:
        h.push([9, 9, 4, 9])
        h.flush(acc([9 + 9 + 4]) + ["p"])
        h.flush(acc([2, 2]) + ["A"])
    h.flush([])
    return h.ops


def h_big(rng):
    """record-sized segments (TCP uses 2^14 records; the offset is a u16)"""
    h = H(rng)
    L = rng.choice([16384, 16384, 40000, 65535])
    h.push([L], credit=L - 40)
    cuts = [rng.choice([1, 255, 256, 257, L // 2, 32767, 32768, 16383]) for _ in range(3)]
    h.flush(acc(cuts) + ["p"])
    h.state()
    h.flush(acc([1, 1]) + ["A"])
    h.flush([])
    return h.ops


def h_random(rng, mode="stream"):
    h = H(rng, mode)
    for _ in range(rng.randrange(4, 14)):
        r = rng.random()
        if r < 0.4:
            lens = [rng.choice([1, 2, 5, 5, 8, 8, 8, 13, 31]) for _ in range(rng.randrange(1, 6))]
            h.push(lens, ecn=[rng.choice([2, 2, 2, 0, 1, 3]) for _ in lens], err=rng.random() < 0.05)
        elif r < 0.9:
            script = []
            for _ in range(rng.randrange(0, 6)):
                x = rng.random()
                if x < 0.7:
                    script.append(f"a{rng.choice([0, 1, 1, 2, 3, 5, 8, 13, 40])}")
                elif x < 0.85:
                    script.append("A")
                elif x < 0.97:
                    script.append("p")
                else:
                    script.append(rng.choice(["e", "eio"]))
            h.flush(script, limit=rng.choice(["max", "max", "0", "1", "7", "100"]))
        else:
            h.state()
    h.flush(["A"] * 30)
    h.flush([])
    return h.ops


def h_dgram(rng):
    h = H(rng, "dgram")
    style = rng.randrange(4)
    if style == 0:
        h.push([rng.choice([1200, 1200, 1200, 700]) for _ in range(rng.randrange(1, 14))])
        h.flush(["A", rng.choice(["p", "A", "e", "eio"]), "A", "A"])
    elif style == 1:
        h.push([1400] * 12)
        h.flush(["eio"])
        h.push([1400] * 3)
        h.flush(["A", "A", "p"])
    elif style == 2:
        h.push([30000, 30000, 30000, 5487, 5488])
        h.flush(["A"] * 6)
    else:
        return h_random(rng, "dgram")
    h.flush(["A"] * 20)
    h.flush([])
    h.state()
    return h.ops


FAMILIES = [h_one_segment, h_one_segment, h_boundaries, h_boundaries, h_push_between, h_push_between, h_errors,
            h_batch_rules, h_random, h_random, h_dgram]

# fixed witnesses: the shortest histories in which a second short write lands inside the same segment, at the
# boundary, and after a push
FIXED = [
    "reset", "config stream", "push 5 2:0102030405", "flush max a2,a1,p", "flush max A", "flush max -",
    "reset", "config stream", "push 10 2:0102030405 2:060708090a", "flush max a5,p", "flush max a5", "flush max -",
    "reset", "config stream", "push 3 2:010203", "flush max a1,p", "push 3 2:040506", "flush max a1,p", "flush max A,A", "flush 2 -", "flush max -",
    "reset", "config stream", "bogus", "push 1", "push x 2:01", "push 1 2:-", "push 1 4:01", "push 1 2:@0,1", "flush max a", "flush max q", "config tcp",
    "flush", "state",
]


def gen(rng, n, tier):
    ops = list(FIXED)
    big = 2 if tier == "quick" else 12
    for _ in range(big):
        ops += h_big(rng)
    while len(ops) < n:
        ops += rng.choice(FAMILIES)(rng)
    return ops


# ---------------------------------------------------------------------------------------------------------------
# oracle

def _seg_bytes(tok):
    e, body = tok.split(":", 1)
    if body.startswith("@"):
        l, s = body[1:].split(",")
        return pattern(int(l), int(s))
    return bytes.fromhex(body) if body != "-" else b""


def _valid_seg(tok):
    try:
        e, body = tok.split(":", 1)
        if not e.isdigit() or int(e) > 3:
            return False
        if body.startswith("@"):
            l, s = body[1:].split(",")
            if not (l.isdigit() and s.isdigit()):
                return False
            return 1 <= int(l) <= 65535 and int(s) < (1 << 31)
        if body == "-" or len(body) % 2:
            return False
        bytes.fromhex(body)
        return 1 <= len(body) // 2 <= 65535
    except ValueError:
        return False


def _parse_script(tok):
    if tok == "-":
        return []
    out = []
    for a in tok.split(","):
        if a in ("A", "p", "e", "eio"):
            out.append(a)
        elif a.startswith("a") and a[1:].isdigit():
            out.append(int(a[1:]))
        else:
            return None
    return out


def parse_flush_out(out):
    t = out.split()
    if len(t) < 2 or t[0] != "ok":
        return None
    try:
        if t[1] == "ready":
            res, k, rest = "ready", int(t[2]), t[3:]
        else:
            res, k, rest = t[1], None, t[2:]
        kv = dict(x.split("=", 1) for x in rest)
        offered = []
        if kv["offered"] != "-":
            for c in kv["offered"].split(";"):
                e, r = c.split("/")
                cnt, ln = r.split(":")
                offered.append((int(e), int(cnt), int(ln)))
        return {"res": res, "k": k, "calls": int(kv["calls"]), "sent": bytes.fromhex(kv["sent"]) if kv["sent"] != "-" else b"",
                "offered": offered, "acc": int(kv["acc"]), "q": kv["q"]}
    except (KeyError, ValueError, IndexError):
        return None


def _classify(pushed, done, s):
    """`done` bytes of `pushed` were accepted before; the socket now accepted `s` which is not pushed[done:done+len(s)]"""
    exp = pushed[done:done + len(s)]
    d = 0
    while d < len(s) and d < len(exp) and s[d] == exp[d]:
        d += 1
    P = done + d
    r = s[d:]

    def match_len(start):
        m = 0
        while m < len(r) and 0 <= start + m < len(pushed) and pushed[start + m] == r[m]:
            m += 1
        return m

    best_re = max((match_len(P - k) for k in range(1, min(P, 70000) + 1)), default=0) if len(pushed) <= 4096 else \
        max((match_len(P - k) for k in list(range(1, 300)) + [P] if 0 < k <= P), default=0)
    best_sk = max((match_len(P + k) for k in range(1, min(len(pushed) - P, 4096) + 1)), default=0)
    if best_re >= best_sk and best_re > 0:
        return "dcsendq:bytes-resent", P
    if best_sk > 0:
        return "dcsendq:bytes-skipped", P
    return "dcsendq:wrong-bytes", P


def oracle(ops, outs):
    bad = []
    mode = "stream"
    pushed = bytearray()      # everything pushed since the start of the (sub)stream
    done = 0                  # how much of it the socket has accepted
    credit = 0                # accepted by push_buffer, not yet reported
    segs = []                 # dgram: queued whole segments not yet offered
    broken = False            # a violation was reported for this history: later ops of it are not judged

    def fresh():
        nonlocal pushed, done, credit, segs, broken
        pushed, done, credit, segs, broken = bytearray(), 0, 0, [], False

    for i, (op, out) in enumerate(zip(ops, outs)):
        t = op.split()
        if not t:
            continue
        if out.startswith("panic"):
            bad.append((i, "dcsendq:panic", f"{op[:120]} -> {out}"))
            fresh()          # the harness restarts the component
            broken = True
            continue
        if t[0] == "reset":
            mode = "stream"
            fresh()
            continue
        if t[0] == "config" and len(t) == 2 and t[1] in ("stream", "dgram"):
            mode = t[1]
            fresh()
            continue
        if broken:
            continue
        if t[0] in ("push", "pusherr") and len(t) >= 3 and t[1].isdigit() and int(t[1]) <= 1 << 20 and all(_valid_seg(s) for s in t[2:]):
            if not out.startswith("ok "):
                bad.append((i, "dcsendq:push-refused", f"{op[:120]} -> {out}"))
                broken = True
                continue
            for s in t[2:]:
                b = _seg_bytes(s)
                pushed += b
                segs.append(b)
            if t[0] == "push":
                credit += int(t[1])
            continue
        if t[0] == "flush" and len(t) == 3 and (t[1] == "max" or (t[1].isdigit() and int(t[1]) <= 1 << 40)):
            script = _parse_script(t[2])
            if script is None:
                continue
            o = parse_flush_out(out)
            if o is None:
                bad.append((i, "dcsendq:unreadable", f"{op[:120]} -> {out[:200]}"))
                broken = True
                continue
            limit = (1 << 64) - 1 if t[1] == "max" else int(t[1])
            # what the socket was told to answer in the calls that were made
            answers = [(script[j] if j < len(script) else "p") for j in range(o["calls"])]
            if o["calls"] != len(o["offered"]):
                bad.append((i, "dcsendq:unreadable", f"calls != offered entries: {out[:200]}"))
                broken = True
                continue
            if mode == "stream":
                want_len = 0
                for a, (_, _, ln) in zip(answers, o["offered"]):
                    if a == "A":
                        want_len += ln
                    elif isinstance(a, int):
                        want_len += min(a, ln)
                s = o["sent"]
                if len(s) != want_len:
                    bad.append((i, "dcsendq:short-write-lost", f"{op[:120]}: socket answers add up to {want_len} bytes, harness saw {len(s)}"))
                    broken = True
                    continue
                if bytes(pushed[done:done + len(s)]) != s or done + len(s) > len(pushed):
                    sig, P = _classify(bytes(pushed), done, s)
                    bad.append((i, sig, f"{op[:120]}: after {done} accepted bytes the socket was handed {s[:24].hex()}.. but the next pushed bytes "
                                        f"are {bytes(pushed[done:done + 24]).hex()}.. (first difference at stream position {P} of {len(pushed)})"))
                    broken = True
                    continue
                done += len(s)
                hit_err = any(a in ("e", "eio") for a in answers)
                hit_pending = bool(answers) and answers[-1] == "p"
                if hit_err:
                    if o["res"] != "err" or o["q"] != "-" or o["acc"] != 0:
                        bad.append((i, "dcsendq:error-not-failstop", f"{op[:120]} -> {out[:200]}"))
                        broken = True
                        continue
                    fresh()
                    continue
                everything = done == len(pushed)
                if o["res"] == "ready":
                    if not everything or o["q"] != "-":
                        bad.append((i, "dcsendq:credit-early", f"{op[:120]}: Ready({o['k']}) although only {done} of {len(pushed)} pushed bytes "
                                                                f"were accepted by the socket (queue {o['q']})"))
                        broken = True
                        continue
                    if o["k"] != min(limit, credit) or o["acc"] != credit - o["k"]:
                        bad.append((i, "dcsendq:credit-wrong", f"{op[:120]}: Ready({o['k']}) acc={o['acc']}, expected min(limit, {credit})"))
                        broken = True
                        continue
                    credit -= o["k"]
                    if hit_pending:
                        bad.append((i, "dcsendq:stall", f"{op[:120]}: Ready although the last poll_send was answered Pending"))
                        broken = True
                elif o["res"] == "pending":
                    if not hit_pending or everything and o["q"] == "-":
                        bad.append((i, "dcsendq:stall", f"{op[:120]}: Pending but the socket never said so ({done}/{len(pushed)} accepted): {out[:160]}"))
                        broken = True
                        continue
                    if o["acc"] != credit:
                        bad.append((i, "dcsendq:credit-wrong", f"{op[:120]}: acc={o['acc']} while waiting, expected {credit}"))
                        broken = True
                else:
                    bad.append((i, "dcsendq:stall", f"{op[:120]}: error result without a socket error: {out[:160]}"))
                    broken = True
            else:
                # datagram sockets: whole segments, queue order, each at most once (a segment the socket did not take is dropped)
                s = o["sent"]
                pos = 0
                ok = True
                while pos < len(s):
                    while segs and s[pos:pos + len(segs[0])] != segs[0]:
                        segs.pop(0)
                    if not segs:
                        ok = False
                        break
                    pos += len(segs.pop(0))
                if not ok:
                    bad.append((i, "dcsendq:dgram-not-whole", f"{op[:120]}: accepted bytes are not whole queued segments in order: {out[:160]}"))
                    broken = True
                    continue
                if o["res"] == "ready":
                    if o["q"] != "-":
                        bad.append((i, "dcsendq:credit-early", f"{op[:120]}: Ready({o['k']}) with queue {o['q']}"))
                        broken = True
                        continue
                    if o["k"] != min(limit, credit):
                        bad.append((i, "dcsendq:credit-wrong", f"{op[:120]}: Ready({o['k']}), expected min(limit, {credit})"))
                        broken = True
                        continue
                    credit -= o["k"]
                    segs.clear()
            continue
    return bad


def nontrivial(op, out):
    if op.startswith("flush") and out.startswith("ok ") and "sent=-" not in out:
        return op + "|" + out[:80]
    return None
