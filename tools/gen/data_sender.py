"""Generator + oracle for the `data-sender` component: the REAL `DataSender<SimpleFc, PayloadWriter>` of
s2n-quic-transport (crate-private; driven in-crate through the cfg-guarded hook, see /verif/hooks/transport_stream.rs)
against the Lean model `Quic.Stream.DataSender` (lean/QuicModel/Drivers/DataSender.lean).

ops: flow <allowed> | push <n> | finish | transmit <pn> <cap> <n|r|c> | ack <lo> <hi> | loss <lo> <hi> | stop
answers: `ok <frames|-|reset> st=.. total=.. enq=.. infl=.. blocked=.. int=..`, frame = off:len:fin:sum

The oracle is the executable twin of the C12 / C03 statements about one stream's data, evaluated on the
implementation's outputs only (it knows the workload: byte at stream offset o is (31·o+7) mod 251)."""

CORPUS = [
    # lost data first, FIN piggybacked, release on ack
    "flow 1000", "push 100", "transmit 0 40 n", "transmit 1 40 n", "loss 0 0", "finish", "transmit 2 1000 n",
    "ack 1 2", "transmit 3 100 r", "ack 3 3", "stop", "reset",
    # blocked by flow control, unblocked by credit; FIN only when not blocked
    "flow 10", "push 30", "transmit 0 100 n", "transmit 1 100 n", "finish", "transmit 2 100 n", "flow 30",
    "loss 0 0", "transmit 3 100 n", "transmit 4 100 n", "ack 0 4", "reset",
    # the MIN_WRITE_SIZE rule and u16 cap
    "flow 100000", "push 70000", "transmit 0 31 n", "transmit 1 32 n", "transmit 2 70000 n", "transmit 3 70000 n",
    "loss 2 2", "transmit 4 10 r", "transmit 5 40 c", "stop", "transmit 6 100 n", "reset",
    # FIN lost, empty FIN frame retransmitted
    "flow 50", "push 20", "finish", "transmit 0 20 n", "transmit 1 20 n", "loss 0 0", "transmit 2 1 n",
    "transmit 3 0 n", "transmit 4 19 n", "transmit 5 100 r", "ack 2 5", "ack 1 1", "reset",
    # FIN acknowledged while earlier data is still outstanding, then a reset (seeded change C12-2: `stop_sending` must still
    # cancel everything in `Finishing(Acknowledged)`), followed by loss / transmit attempts
    "flow 1000", "push 100", "transmit 0 50 n", "finish", "transmit 1 100 n", "ack 1 1", "stop", "loss 0 0", "transmit 2 100 n",
    "ack 0 0", "reset",
]


def ds_byte(o):
    return (o * 31 + 7) % 251


def ds_sum(off, n):
    acc = 0
    for j in range(n):
        acc = (acc + (j + 1) * ds_byte(off + j)) % 1000003
    return acc


def gen(rng, n, tier):
    lines = list(CORPUS)
    while len(lines) < n:
        small = rng.random() < 0.7
        allowed = rng.choice([0, 10, 50, 200, 1000, 5000, 100000])
        lines.append(f"flow {allowed}")
        pn = rng.choice([0, 0, 5, 1000])
        sent = []
        total = 0
        finished = False
        for _ in range(rng.choice([8, 16, 30, 60])):
            x = rng.random()
            if x < 0.22:
                k = rng.choice([0, 1, 5, 31, 32, 33, 100]) if small else rng.choice([1, 200, 1500, 5000, 66000])
                lines.append(f"push {k}")
                if not finished:
                    total += k
            elif x < 0.55:
                cap = rng.choice([0, 1, 5, 31, 32, 33, 40, 64, 100, 1200]) if small else rng.choice([31, 32, 1200, 1200, 9000, 65535, 65536, 70000])
                c = rng.choice(["n", "n", "n", "n", "r", "r", "c"])
                lines.append(f"transmit {pn} {cap} {c}")
                sent.append(pn)
                pn += rng.choice([1, 1, 1, 2, 0 if rng.random() < 0.1 else 1])
            elif x < 0.70 and sent:
                a = rng.choice(sent)
                b = a + rng.choice([0, 0, 0, 1, 3])
                lines.append(f"ack {a} {b}")
            elif x < 0.85 and sent:
                a = rng.choice(sent)
                b = a + rng.choice([0, 0, 0, 1, 3])
                lines.append(f"loss {a} {b}")
            elif x < 0.92:
                allowed = allowed + rng.choice([0, 1, 10, 100, 1000, 70000]) if rng.random() < 0.9 else max(0, allowed - rng.choice([1, 10]))
                lines.append(f"flow {allowed}")
            elif x < 0.97:
                lines.append("finish")
                finished = True
            else:
                lines.append("stop")
        if rng.random() < 0.2:
            # tail: FIN in its own packet, only that packet acknowledged, then a reset and further events
            lines += ["finish", f"transmit {pn} 1200 n", f"transmit {pn + 1} 1200 n", f"ack {pn + 1} {pn + 1}", "stop",
                      f"loss {pn} {pn}", f"transmit {pn + 2} 1200 n", f"ack 0 {pn + 2}"]
        lines.append("reset")
    return lines


def parse(out):
    """-> (frames [(off,len,fin,sum)] or 'reset' or None, fields dict)"""
    t = out.split(" ")
    if len(t) < 3 or t[0] != "ok":
        return None, {}
    fields = dict(x.split("=", 1) for x in t[2:] if "=" in x)
    if t[1] == "-":
        return [], fields
    if t[1] == "reset":
        return "reset", fields
    fr = []
    for f in t[1].split(","):
        a = f.split(":")
        fr.append((int(a[0]), int(a[1]), a[2] == "1", int(a[3])))
    return fr, fields


def nontrivial(op, out):
    fr, fields = parse(out)
    if fr and fr != "reset":
        kinds = []
        for (off, ln, fin, _s) in fr:
            kinds.append(("fin" if fin else "data") + ("0" if ln == 0 else ""))
        return f"frames:{len(fr)}:{'+'.join(sorted(set(kinds)))}:{op.split(' ')[-1]}:{fields.get('st', '').split(':')[0]}"
    if fields:
        return f"{op.split(' ')[0]}:{fields.get('st', '').split(':')[0]}:{fields.get('int')}:{fields.get('blocked')}"
    return None


def oracle(ops, outs):
    fails = []
    allowed = 0
    total = 0           # bytes pushed and accepted so far (read back from the implementation's `total`)
    final = None        # final size once finish was called
    reset = False
    highest = 0
    for i, (op, out) in enumerate(zip(ops, outs)):
        t = op.split(" ")
        if t[0] == "reset" and len(t) == 1:
            allowed, total, final, reset, highest = 0, 0, None, False, 0
            continue
        if out.startswith("panic"):
            fails.append((i, "ds:panic", f"data sender panicked: {out[:200]}"))
            continue
        fr, fields = parse(out)
        if fr is None:
            continue
        if t[0] == "flow":
            allowed = int(t[1])
        if "total" in fields:
            total = max(total, int(fields["total"]))
        if t[0] == "finish" and final is None and not reset and fields.get("st", "").startswith(("fin", "finished")):
            final = int(fields["total"])
        if fr == "reset":
            reset = True
            continue
        if t[0] != "transmit":
            if fr:
                fails.append((i, "ds:frames-outside-transmit", f"frames written by op {op}"))
            continue
        cap = int(t[2])
        used = 0
        for (off, ln, fin, sm) in fr:
            used += ln if ln > 0 else 1
            if reset:
                fails.append((i, "ds:after-reset", f"STREAM frame {off}+{ln} after the reset"))
            if off + ln > total:
                fails.append((i, "ds:beyond-written", f"frame {off}+{ln} beyond the {total} bytes written"))
            elif sm != ds_sum(off, ln):
                fails.append((i, "ds:bytes-differ", f"frame {off}+{ln} does not carry the bytes written there"))
            if ln > 0 and off + ln > allowed:
                fails.append((i, "ds:beyond-flow", f"frame {off}+{ln} beyond the flow-control window {allowed}"))
            if final is not None and off + ln > final:
                fails.append((i, "ds:beyond-final", f"frame {off}+{ln} beyond the final size {final}"))
            if fin and (final is None or off + ln != final):
                fails.append((i, "ds:fin-not-final", f"FIN at {off + ln}, final size {final}"))
            if ln == 0 and not fin:
                fails.append((i, "ds:empty-frame", f"empty frame without FIN at {off}"))
            if t[3] == "c":
                fails.append((i, "ds:congestion-limited", f"frame {off}+{ln} written while congestion limited"))
            highest = max(highest, off + ln)
        if used > cap:
            fails.append((i, "ds:over-capacity", f"{used} payload units written into a packet with {cap}"))
    return fails
