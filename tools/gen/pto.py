"""ops for the `pto` component (vh-core: REAL `recovery::Pto`).

  update <base_us> <period_ns> | cancel | force | once | timeout <in_flight> <now_us> | transmit <probing> <ack_eliciting> <write_ok>

Oracle: a PTO expiry is reported only for an armed timer whose deadline is less than the timer granularity
(1 ms) away, disarms it and asks for 2 probes (packets in flight) or 1; each probe transmission consumes one."""
GRAN_US = 1000


def gen(rng, n, tier):
    ops = ["once", "timeout 1 5", "update 10 1000000", "timeout 1 9", "timeout 1 10", "timeout 1 5000", "once", "once", "once", "reset"]
    ops += ["update 5000 2000000", "timeout 0 5999", "timeout 0 6000", "timeout 0 6001", "transmit 1 0 1", "transmit 1 0 1", "reset"]
    made = 0
    while made < n:
        now = rng.randrange(1, 10**6)
        deadline = None
        for _ in range(rng.randrange(2, 30)):
            c = rng.random()
            if c < 0.25:
                base = max(1, now - rng.choice([0, 0, 1, 1000, 50000]))
                per = rng.choice([1_000_000, 1_000_999, 2_000_000, 999_000_000, rng.randrange(1_000_000, 3_000_000_000), 0, 1, 999])
                ops.append(f"update {base} {per}")
                deadline = base + per // 1000
            elif c < 0.55:
                if deadline is not None and rng.random() < 0.7:
                    now = max(1, deadline + rng.choice([-2000, -1001, -1000, -999, -1, 0, 1, 999, 1000, 5000]))
                else:
                    now += rng.randrange(0, 10**6)
                ops.append(f"timeout {rng.randrange(2)} {now}")
            elif c < 0.62:
                ops.append("cancel")
                deadline = None
            elif c < 0.70:
                ops.append("force")
            elif c < 0.80:
                ops.append("once")
            else:
                ops.append(f"transmit {int(rng.random() < 0.8)} {rng.randrange(2)} {int(rng.random() < 0.85)}")
            made += 1
        ops.append("reset")
    return ops


def oracle(ops, outs):
    bad = []
    timer, tx = None, 0
    for i, (op, out) in enumerate(zip(ops, outs)):
        t = op.split()
        if t[0] == "reset":
            timer, tx = None, 0
            continue
        if out.startswith("panic"):
            bad.append((i, f"pto:panic:{t[0]}", f"{op} panicked: {out}"))
            timer, tx = None, 0
            continue
        o = out.split()
        if o[0] != "ok":
            continue
        if t[0] == "timeout":
            ready = o[1] == "ready"
            ntimer = None if o[2] == "none" else int(o[2])
            ntx = int(o[3])
            now = int(t[2])
            if ready:
                if timer is None or not timer < now + GRAN_US:
                    bad.append((i, "pto:fired-unarmed-or-early", f"{op}: expiry reported with timer {timer}"))
                if ntimer is not None:
                    bad.append((i, "pto:still-armed-after-expiry", f"{op}: {out}"))
                if ntx != (2 if t[1] == "1" else 1):
                    bad.append((i, "pto:probe-count", f"{op}: {out}"))
            else:
                if timer is not None and timer <= now:
                    bad.append((i, "pto:missed-expiry", f"{op}: timer {timer} <= now but no expiry reported"))
                if ntimer != timer or ntx != tx:
                    bad.append((i, "pto:pending-changed-state", f"{op}: {out}"))
            timer, tx = ntimer, ntx
        else:
            ntimer = None if o[1] == "none" else int(o[1])
            ntx = int(o[2])
            if t[0] == "transmit":
                took = t[1] == "1" and tx > 0 and (t[2] == "1" or t[3] == "1")
                if ntx != (tx - 1 if took else tx):
                    bad.append((i, "pto:probe-accounting", f"{op}: transmissions {tx} -> {ntx}"))
                if o[3] == "1" and t[2] == "1":
                    bad.append((i, "pto:ping-into-eliciting-packet", f"{op}: {out}"))
                if took and t[2] == "0" and o[3] != "1":
                    bad.append((i, "pto:probe-not-ack-eliciting", f"{op}: probe counted without an ack-eliciting frame"))
            elif t[0] == "once":
                if ntx != tx - 1:
                    bad.append((i, "pto:probe-accounting", f"{op}: transmissions {tx} -> {ntx}"))
            elif t[0] == "update":
                if ntimer != int(t[1]) + int(t[2]) // 1000:
                    bad.append((i, "pto:timer-value", f"{op}: {out}"))
            timer, tx = ntimer, ntx
    return bad[:12]


def nontrivial(op, out):
    return op + "|" + out if out.startswith("ok") else None
