"""ops for the `rtt` component (vh-core: REAL `recovery::RttEstimator`). Durations ns, timestamps µs.

  new <initial_ns> | newpath <initial_ns> | mad <ms> | pc | get
  update <ack_delay_ns> <rtt_sample_ns> <now_us> <handshake_confirmed> <space 0|1|2>
  -> ok <latest> <min> <smoothed> <rttvar> <max_ack_delay> <first|none> <loss_time_threshold> <pc_threshold>
        <pto(1,hs)> <pto(2,hs)> <pto(4,hs)> <pto(1,app)> <pto(2,app)> <pto(4,app)>

Oracle = C09 text: "RTT estimates stay within the range of the samples observed, and the probe timeout is
never below the timer granularity and doubles with each consecutive expiry"; the loss time threshold is
9/8 of the current estimate, never less than 1 ms.  A sample is what the estimator can track: max(sample, 1 µs)
(`MIN_RTT`, the clock resolution).  The window of samples restarts at new/newpath/pc (estimator reset)."""
GRANULARITY_NS = 1_000_000
MIN_RTT = 1000

US = 1000
MS = 1_000_000
WITNESS_TRUNC = ["new 1000", "update 0 1015 3 1 2", "update 0 1015 4 1 2"]


def _sample(rng, base, us_only):
    c = rng.random()
    if c < 0.10:
        v = rng.choice([0, 1, 2, 10, 100, 999]) * US          # tiny (< 1 ms), incl. zero
    elif c < 0.18:
        v = rng.choice([3600 * 10**9, 10**12, 2**40, 86400 * 10**9])  # huge
    elif c < 0.30:
        v = rng.choice([1 * MS, 333 * MS, 25 * MS, 999 * US, 1001 * US])
    else:
        v = max(0, int(base * rng.uniform(0.5, 2.0))) // US * US
    if not us_only:
        v += rng.choice([0, 1, 7, 8, 9, 15, 500, 999])
    return v


def gen(rng, n, tier):
    ops = []
    # a few fixed histories first
    ops += ["get", "update 0 0 5 1 2", "update 0 0 6 1 2", "reset"]
    ops += ["new 1000", "update 0 1000 10 1 2", "update 0 1000 11 1 2", "reset"]
    ops += ["new 0", "new 999", "new 1000", "reset"]
    ops += ["new 333000000", "mad 25", "update 0 100000000 10 1 2", "update 30000000 200000000 20 1 2",
            "update 30000000 200000000 30 0 2", "update 30000000 200000000 30 1 0", "update 250000000 200000000 40 0 2",
            "update 250000000 200000000 40 1 2", "pc", "update 0 50000000 50 1 2", "reset"]
    ops += ["new 15", "reset"]
    ops += WITNESS_TRUNC + ["update 0 1015 5 1 2", "reset"]   # witness of rtt_in_sample_range_needs_mul8 (ns-granular)
    made = 0
    while made < n:
        us_only = rng.random() < 0.75          # the real clock is µs granular
        base = rng.choice([50 * US, 1 * MS, 5 * MS, 30 * MS, 100 * MS, 333 * MS, 2000 * MS])
        init = rng.choice([333 * MS, 1000, base, 100 * MS, rng.randrange(1000, 10**9) // US * US])
        if not us_only:
            init += rng.choice([0, 1, 7, 9])
        ops.append(f"new {init}")
        made += 1
        now = rng.randrange(1, 10**6)
        if rng.random() < 0.6:
            ops.append(f"mad {rng.choice([0, 1, 25, 25, 25, 100, 16383])}")
            made += 1
        confirmed = rng.random() < 0.5
        for _ in range(rng.randrange(1, 25)):
            c = rng.random()
            now += rng.randrange(0, 10**5)
            if c < 0.04:
                ops.append("pc")
            elif c < 0.06:
                ops.append(f"newpath {max(1000, _sample(rng, base, us_only))}")
            elif c < 0.08:
                ops.append(f"mad {rng.choice([0, 5, 25, 200])}")
            elif c < 0.10:
                ops.append("get")
            else:
                s = _sample(rng, base, us_only)
                d = rng.random()
                if d < 0.35:
                    ad = 0
                elif d < 0.55:
                    ad = rng.choice([1, 25, 26, 100]) * MS           # around / above max_ack_delay
                elif d < 0.75:
                    ad = s + rng.choice([0, US, -US if s >= US else 0, MS])   # ack_delay >= sample
                else:
                    ad = rng.randrange(0, max(1, s)) // US * US
                if not us_only and rng.random() < 0.3:
                    ad += rng.choice([1, 7, 500])
                if not confirmed and rng.random() < 0.15:
                    confirmed = True
                sp = rng.choice([0, 1, 2, 2, 2])
                ops.append(f"update {ad} {s} {now} {int(confirmed)} {sp}")
            made += 1
        ops.append("reset")
    return ops


def oracle(ops, outs):
    bad = []
    per_sig = {}

    def add(i, sig, msg):
        per_sig[sig] = per_sig.get(sig, 0) + 1
        if per_sig[sig] <= 3:
            bad.append((i, sig, msg))

    window = []        # samples (clamped to 1 µs) since the estimator was last (re)initialised
    for i, (op, out) in enumerate(zip(ops, outs)):
        t = op.split()
        if t[0] == "reset":
            window = []
            continue
        if out.startswith("panic"):
            add(i, f"rtt:panic:{t[0]}", f"{op} panicked: {out}")
            window = []
            continue
        o = out.split()
        if o[0] != "ok":
            continue
        latest, mn, sm, var, mad = (int(x) for x in o[1:6])
        ltt, pct = int(o[7]), int(o[8])
        ptos = [int(x) for x in o[9:15]]
        if t[0] in ("new", "newpath", "pc"):
            window = []
        elif t[0] == "update":
            s = max(int(t[2]), MIN_RTT)
            window.append(s)
            if latest != s:
                add(i, "rtt:latest-not-sample", f"{op}: latest_rtt {latest} != sample {s}")
        if window:
            lo, hi = min(window), max(window)
            if mn != lo:
                add(i, "rtt:min-not-min", f"{op}: min_rtt {mn} but the smallest sample since the last reset is {lo}")
            if sm > hi or sm < lo:
                if all(x % 8 == 0 for x in window) or sm > hi or sm + 7 < lo:
                    add(i, "rtt:smoothed-outside-sample-range", f"{op}: smoothed_rtt {sm} outside the sample range [{lo}, {hi}]")
                # else: the truncating 7/8-1/8 average may undershoot by < 8 ns when samples are not multiples of
                # 8 ns -- impossible with the µs clock (hypothesis of theorem rtt_in_sample_range; witness
                # rtt_in_sample_range_needs_mul8); such ns-granular histories are generated for D only
        # probe timeout
        for p in ptos:
            if p < GRANULARITY_NS:
                add(i, "pto:below-granularity", f"{op}: PTO period {p} ns < 1 ms")
        for a, b in ((ptos[0], ptos[1]), (ptos[1], ptos[2]), (ptos[3], ptos[4]), (ptos[4], ptos[5])):
            if b != 2 * a:
                add(i, "pto:backoff-not-doubling", f"{op}: PTO period for doubled back-off is {b}, expected {2 * a}")
        # loss time threshold: 9/8 of max(smoothed, latest), never below 1 ms
        want = max(9 * max(sm, latest) // 8, GRANULARITY_NS)
        if ltt != want:
            add(i, "loss:time-threshold-value", f"{op}: loss time threshold {ltt} ns, expected max(9/8*max(srtt,latest), 1ms) = {want}")
    return bad


def nontrivial(op, out):
    return op if out.startswith("ok") and op.split()[0] in ("update", "new", "newpath") else None
