"""ops for the `pacer` component (vh-core: the crate-private `Pacer` inside a real `CubicCongestionController`)
/ Lean `pacer` driver.

Python oracle = statement 4 on the implementation's outputs: earliest_departure_time never decreases,
is never `none` again once set, and when the caller honoured the previous departure time (now >= previous edt)
the new one lies in [now, now + interval] with the interval bounded INDEPENDENTLY by the RFC 9002 §7.7
rate: interval <= burst * srtt / (N * cwnd) (+1 µs rounding), N = 2 in slow start and 5/4 afterwards.
"""
import struct


def f32(x):
    return struct.unpack("f", struct.pack("f", x))[0]


def gen(rng, n, tier):
    ops = []
    while len(ops) < n:
        ops.append("reset")
        mds = rng.choice([1, 2, 1200, 1200, 1350, 1500, 9000, 65535])
        cwnd = rng.choice([0, 1, 2 * mds, 10 * mds, 12000, 14720, 100000, 2**20, 2**24, rng.randrange(1, 2**24)])
        ops.append(f"pnew {mds} {cwnd}")
        cw = max(cwnd, 2 * mds)
        now = rng.choice([1, 1000, 10**6, 10**12, 2**62 - 2**40])
        srtt = rng.choice([1000, 1999999, 2000000, 2000001, 10**7, 10**8, 333333333, 10**9, 10**10, 2**40, 2**52, 2**53 + 7, 2**54, 2**62, 2**64 - 1])
        ss = True
        for _ in range(rng.randrange(5, 50)):
            c = rng.random()
            if c < 0.06 and ss:
                nc = int(max(f32(f32(cw) * f32(0.7)), f32(2.0 * mds)))
                ops.append(f"ecn {now} {nc}")
                cw, ss = nc, False
                continue
            if c < 0.10:
                ops.append("edt")
                continue
            if c < 0.2:
                srtt = rng.choice([1000, 1999999, 2000000, 2000001, 10**7, 10**8, 10**9, rng.randrange(1000, 2**40), 2**52, 2**53 + 7, 2**64 - 1])
            now = min(2**62 - 1, now + rng.choice([0, 0, 1, 100, 1000, 10**4, 10**6, srtt // 1000 % 2**40]))
            b = rng.choice([0, 1, mds, mds, mds, 10 * mds - 1, 10 * mds, 10 * mds + 1, 3 * mds, 2**24 - 1])
            ops.append(f"send {now} {min(b, 2**24 - 1)} {srtt}")
    return ops


def oracle(ops, outs):
    fails = []
    last = None
    cw, mds, ss = 12000, 1200, True
    for i, (op, out) in enumerate(zip(ops, outs)):
        t, o = op.split(" "), out.split(" ")
        if t[0] == "reset":
            last, cw, mds, ss = None, 12000, 1200, True
            continue
        if out == "panic":
            last, cw, mds, ss = None, 12000, 1200, True
            continue
        if o[0] != "ok":
            continue
        if t[0] == "pnew":
            mds, cw, ss, last = int(t[1]), int(o[1]), True, None
            if cw != max(int(t[2]), 2 * mds):
                fails.append((i, "C10-pacer-initial-window", f"initial window {cw} (op `{op}`)"))
        elif t[0] == "ecn":
            cw, ss = int(o[1]), False
        elif t[0] in ("send", "edt"):
            e = None if o[1] == "none" else int(o[1])
            if last is not None and (e is None or e < last):
                fails.append((i, "C02-pacer-edt-decreased", f"earliest_departure_time went from {last} to {e} (op `{op}`)"))
            if t[0] == "send" and e is not None and int(t[2]) > 0:
                now, srtt = int(t[1]), int(t[3])
                if last is not None and now >= last and e != last:
                    # honoured the previous departure time: at most one burst interval ahead, never behind now
                    num, den = (2, 1) if ss else (5, 4)
                    bound_ns = (10 * mds * srtt * den) // (num * cw) + 1000
                    if e < now:
                        fails.append((i, "C02-pacer-edt-behind", f"new departure time {e} < now {now} (op `{op}`)"))
                    if srtt < 2**52 and (e - now) * 1000 > bound_ns:
                        fails.append((i, "C02-pacer-edt-too-far", f"departure time {e} more than one burst interval ({bound_ns} ns) after now {now} (op `{op}`)"))
            last = e
    return fails


def nontrivial(op, out):
    if op.startswith("send") and out.startswith("ok") and out != "ok none":
        return op + "|" + out
    return None
