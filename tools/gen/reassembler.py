"""ops for the `reassembler` component (vh-core: the real s2n_quic_core::buffer::Reassembler; Lean: Data.RefBuf).

op lines (see lean/QuicModel/Drivers/Reassembler.lean):
  w <off> <len> <key> <fin> | wx <off> <hex> <fin> | read <w|inf> | popn <w|inf> <k> | skip <n> | clear
`gen` emits `popn <w> 0`; `resolve_chunks` fills in the chunk length the implementation returned
(the chunk length of a single pop is decided by the slot layout, which the reference buffer does
not model: it is a *soft* observable and only checked for legality).

The oracle is an independent plain-python reference (dict offset -> byte, a consumed pointer, the
final size, the highest offset seen) evaluated on the implementation's outputs only.
"""
import itertools

MAXOFF = 2**62 - 1
M64 = 2**64 - 1
MUL_I = 0x9E3779B97F4A7C15
MUL_K = 0xD1B54A32D192ED03

SLOT_BOUNDS = [0, 4095, 4096, 4097, 8191, 8192, 12288, 65535, 65536, 65537, 81920, 262143, 262144, 262145,
               294912, 2**20 - 1, 2**20, 2**20 + 1, 2**20 + 65536]


def payload(key, off, n):
    kc = key * MUL_K
    return bytes([((i * MUL_I + kc) & M64) >> 56 for i in range(off, off + n)])


def fnv(b):
    h = 0xcbf29ce484222325
    for x in b:
        h = ((h ^ x) * 0x100000001b3) & M64
    return h


def show_bytes(b):
    if len(b) == 0:
        return "-"
    if len(b) <= 48:
        return bytes(b).hex()
    return f"{len(b)}:{bytes(b[:8]).hex()}:{bytes(b[-8:]).hex()}:{fnv(b)}"


def tok_len(tok):
    if tok == "-":
        return 0
    if ":" in tok:
        return int(tok.split(":")[0])
    return len(tok) // 2


# ---------------------------------------------------------------------------------------
# generator
# ---------------------------------------------------------------------------------------

def slot_size(off):
    if off >= 2**20:
        return 65536
    if off >= 262144:
        return 32768
    if off >= 65536:
        return 16384
    return 4096


class SeqGen:
    """one history; a shadow reference (exact when the implementation is right) aims ops at interesting places"""

    def __init__(self, rng, big):
        self.rng = rng
        self.big = big
        self.ops = []
        self.ref = Ref()
        self.key = rng.randrange(1, 1 << 32)
        self.budget = 600000 if big else 3000   # payload bytes per history

    def emit(self, s):
        self.ops.append(s)

    def pick_len(self, off):
        r = self.rng
        c = r.random()
        if not self.big or c < 0.35:
            return r.choice([0, 1, 1, 2, 3, 4, 5, 7, 8, 16, 31, 32, 33, 48, 49, 64, 100])
        sz = slot_size(off)
        to_edge = sz - off % sz
        return max(0, r.choice([to_edge - 1, to_edge, to_edge + 1, sz - 1, sz, sz + 1, 2 * sz - 1, 2 * sz, 2 * sz + 1,
                                to_edge + sz, to_edge + sz + 1, to_edge + 2 * sz + 1, 3 * sz + 1, r.randrange(1, 3 * sz)]))

    def write(self, base):
        r = self.rng
        ref = self.ref
        c = r.random()
        if c < 0.35:
            off = base + r.randrange(-12, 70)
        elif c < 0.58:
            off = ref.ce + r.randrange(-3, 3)          # around the first gap: extends the readable prefix
        elif c < 0.68:
            off = ref.consumed + r.randrange(-6, 12)
        elif c < 0.83:
            off = ref.hi + r.randrange(-8, 8)
        elif c < 0.92 and ref.final is not None:
            off = ref.final + r.randrange(-10, 4)
        else:
            off = base + r.choice([-1, 0, 1]) * slot_size(max(base, 0)) + r.randrange(-3, 4)
        off = min(max(off, 0), MAXOFF)
        n = self.pick_len(off)
        if n > self.budget:
            n = r.randrange(0, 40)
        self.budget -= n
        key = self.key if r.random() < 0.8 else self.key + r.randrange(1, 4)
        fin = 0
        if r.random() < 0.12:
            fin = 1
            # aim some FINs exactly at / around the known final size or the highest offset
            c2 = r.random()
            tgt = None
            if ref.final is not None and c2 < 0.6:
                tgt = ref.final + r.choice([0, 0, 0, -1, 1])
            elif c2 < 0.8:
                tgt = ref.hi + r.choice([0, 0, -1, 1, 5])
            if tgt is not None and tgt >= off:
                n2 = tgt - off
                if n2 <= max(n, 64):
                    n = n2
        if ref.expect_write(off, n, bool(fin)) is None:
            lo = max(off, ref.consumed)
            _apply(ref, off, n, lo, bytes(max(off + n - lo, 0)), bool(fin))
        self.emit(f"w {off} {n} {key} {fin}")

    def pop(self):
        r = self.rng
        ref = self.ref
        avail = ref.length()
        w = r.choice(["inf", "inf", 0, 1, 2, 7, max(avail - 1, 0), avail, avail + 1, r.randrange(0, avail + 2), 4095, 4096, 4097])
        k = avail if w == "inf" else min(w, avail)
        if r.random() < 0.35:
            self.emit(f"popn {w} 0")
            k = min(k, slot_size(ref.consumed) - ref.consumed % slot_size(ref.consumed))   # a guess, the shadow may drift
        else:
            self.emit(f"read {w}")
        ref.consumed += k
        ref.fix_ce()

    def skip(self):
        r = self.rng
        ref = self.ref
        c = r.random()
        if c < 0.45:
            n = r.choice([0, 1, 1, 2, 3, 5, 8, 40])
        elif c < 0.6:
            n = ref.length() + r.randrange(-2, 3)
        elif c < 0.8:
            n = max(ref.hi - ref.consumed, 0) + r.randrange(-3, 4)
        elif ref.final is not None:
            n = ref.final - ref.consumed + r.randrange(-2, 3)
        else:
            n = r.choice([4095, 4096, 4097, 65536])
        n = min(max(n, 0), MAXOFF)
        if ref.expect_skip(n) is None:
            ref.apply_skip(n)
        self.emit(f"skip {n}")

    def history(self, nops):
        r = self.rng
        ref = self.ref
        c = r.random()
        # where the action is
        if c < 0.3:
            base = r.choice([0, 0, 0, 1, 5, 60])
        elif c < 0.8:
            base = r.choice(SLOT_BOUNDS) + r.choice([0, 0, -1, 1, -2, 3])
        else:
            base = MAXOFF - r.choice([0, 1, 2, 10, 100, 4096, 65535, 65536, 70000])
        base = max(base, 0)
        # reach a far base by skipping (the only way to make far data readable), not always exactly
        if base > 200 and r.random() < 0.75:
            n = base - r.choice([0, 0, 1, 3, 17, 40])
            self.emit(f"skip {n}")
            ref.apply_skip(n)
        for _ in range(nops):
            c = r.random()
            if c < 0.62:
                self.write(base)
            elif c < 0.86:
                self.pop()
            elif c < 0.97:
                self.skip()
            elif c < 0.985:
                self.emit("clear")
                self.ref = ref = Ref()
            else:
                # near the end of the offset space
                off = MAXOFF - r.randrange(0, 70)
                n = r.randrange(0, 80)
                fin = r.choice([0, 0, 1])
                self.emit(f"w {off} {n} {self.key} {fin}")
                if ref.expect_write(off, n, bool(fin)) is None:
                    lo = max(off, ref.consumed)
                    _apply(ref, off, n, lo, bytes(max(off + n - lo, 0)), bool(fin))
        # finish: often fill the first gap up to the highest offset and drain
        if r.random() < 0.5:
            n = min(max(ref.hi - ref.ce, 0), 200 if not self.big else 70000)
            self.emit(f"w {ref.ce} {n} {self.key} 0")
            self.emit("read inf")
        return self.ops


# small alphabet for the exhaustive part: 6 offsets x 4 lengths (+ FIN variants, reads, skips)
EX_OFFS = [0, 1, 3, 4094, 4095, 4097]
EX_LENS = [0, 1, 2, 5]
EX_FULL = ([f"w {o} {n} 7 0" for o in EX_OFFS for n in EX_LENS]
           + [f"w {o} {n} 7 1" for o in (0, 3, 4094, 4097) for n in (0, 2)]
           + ["read inf", "read 1", "popn inf 0", "skip 1", "skip 4094"])
EX_SMALL = ["w 0 2 7 0", "w 1 2 9 0", "w 3 1 7 0", "w 4094 5 7 0", "w 4095 2 9 0", "w 4097 2 7 0",
            "w 3 0 7 1", "w 4 0 7 1", "w 4097 2 7 1", "w 4096 0 7 1",
            "read inf", "read 1", "skip 1", "skip 4094"]


def exhaustive(alphabet, length):
    out = []
    for k in range(1, length + 1):
        for seq in itertools.product(alphabet, repeat=k):
            out.extend(seq)
            out.append("reset")
    return out


FIXED = [
    # documentation example + FIN bookkeeping from the crate's own tests
    ["wx 4 04050607 0", "read inf", "wx 0 00010203 0", "read inf"],
    ["wx 0 - 1", "wx 0 01 0", "wx 0 - 0", "wx 0 - 1", "read inf"],
    ["wx 16 - 1", "wx 0 - 1", "wx 32 - 1", "wx 16 - 1", "w 0 16 3 0", "read inf"],
    ["wx 32 01 0", "wx 16 - 1", "wx 33 - 1", "wx 33 - 0", "wx 34 - 0"],
    ["wx 4 04 1", "wx 0 00010203 0", "popn inf 0", "read inf"],
    # empty writes raise the highest offset seen
    ["wx 1000 - 0", "wx 500 - 1", "wx 1000 - 1", "wx 1000 - 0", "wx 1001 - 0"],
    # writes entirely below the consumed offset
    ["w 0 10 1 0", "read inf", "w 0 5 2 0", "w 2 8 2 0", "w 2 8 2 1", "w 5 5 2 1", "wx 3 - 0", "wx 3 - 1", "read inf"],
    # first writer wins (inconsistent keys), nested / overlapping / duplicate
    ["w 10 10 1 0", "w 5 20 2 0", "w 0 40 3 0", "w 12 3 4 0", "read 7", "read inf"],
    ["w 4090 4 1 0", "w 4098 4 1 0", "w 4088 20 2 0", "w 0 4088 1 0", "read 4095", "read 1", "read inf"],
    # skip into / past buffered data, past the final size, past the end of the offset space
    ["w 0 10 1 0", "w 20 10 1 0", "skip 5", "read inf", "skip 12", "read inf", "skip 100", "w 0 200 2 0", "read inf"],
    ["w 0 10 1 1", "skip 11", "skip 10", "skip 1", "read inf"],
    [f"skip {MAXOFF}", "skip 1", f"w {MAXOFF} 0 1 0", f"w {MAXOFF} 1 1 0", f"w {MAXOFF} 0 1 1", "read inf"],
    [f"skip {MAXOFF - 10}", f"w {MAXOFF - 10} 10 1 0", f"w {MAXOFF - 10} 11 1 0", f"w {MAXOFF - 5} 5 2 1", "read 3", "read inf", "skip 1"],
    [f"w {MAXOFF - 3} 3 1 1", f"w {MAXOFF - 3} 4 1 1", f"skip {MAXOFF - 3}", "read inf"],
    # three slots at the first boundary of every allocation class
    ["w 100 12300 1 0", "w 0 100 1 0", "popn inf 0", "popn 1 0", "read 4095", "read inf"],
    ["skip 65530", "w 65540 40000 1 0", "w 65530 10 1 0", "read 16384", "popn inf 0", "read inf"],
    ["skip 262140", "w 262150 70000 1 0", "w 262140 10 2 0", "popn inf 0", "read inf"],
    ["skip 1048570", "w 1048580 140000 1 1", "w 1048570 10 2 0", "popn 65536 0", "read inf"],
]


def gen(rng, n, tier):
    """n = number of random histories (each at most ~40 ops), preceded by the fixed scenarios and (quick tier) the
    small exhaustive enumeration: all sequences of length <= 2 over the full alphabet and <= 3 over the reduced
    one. The thorough tier runs the big enumeration in shards (`exhaustive_shards`)."""
    ops = []
    for f in FIXED:
        ops.extend(f)
        ops.append("reset")
    if tier != "thorough":
        ops.extend(exhaustive(EX_FULL, 2))
        ops.extend(exhaustive(EX_SMALL, 3))
    for i in range(n):
        big = rng.random() < 0.04
        g = SeqGen(rng, big)
        nops = rng.choice([3, 6, 10, 16, 25, 40]) if not big else rng.choice([4, 8, 14])
        ops.extend(g.history(nops))
        ops.append("reset")
    return ops


def exhaustive_shards():
    """thorough tier: ALL op sequences of length <= 4 over EX_FULL (6 offsets x 4 lengths, FIN variants, reads,
    single pop, skips) and of length <= 5 over EX_SMALL, cut into shards of about a million lines (memory)"""
    grouped = []
    cur_name, cur = [], []
    for first in EX_FULL:
        cur_name.append(first)
        for k in range(0, 4):
            for seq in itertools.product(EX_FULL, repeat=k):
                cur.append(first)
                cur.extend(seq)
                cur.append("reset")
        if len(cur) > 1000000:
            grouped.append((f"all sequences of length <= 4 over {len(EX_FULL)} ops starting with one of {cur_name}", cur))
            cur_name, cur = [], []
    if cur:
        grouped.append((f"all sequences of length <= 4 over {len(EX_FULL)} ops starting with one of {cur_name}", cur))
    small = []
    for k in range(1, 6):
        for seq in itertools.product(EX_SMALL, repeat=k):
            small.extend(seq)
            small.append("reset")
    half = len(small) // 2
    while small[half - 1] != "reset":
        half += 1
    grouped.append((f"all sequences of length <= 5 over {len(EX_SMALL)} ops (part 1)", small[:half]))
    grouped.append((f"all sequences of length <= 5 over {len(EX_SMALL)} ops (part 2)", small[half:]))
    return grouped


def resolve_chunks(lines, impl_outs):
    """fill the observed chunk length into `popn <w> <k>` lines"""
    out = []
    for l, o in zip(lines, impl_outs):
        if l.startswith("popn "):
            t = l.split()
            ot = o.split()
            k = tok_len(ot[1]) if len(ot) >= 2 and ot[0] == "ok" else 0
            out.append(f"popn {t[1]} {k}")
        else:
            out.append(l)
    return out


# ---------------------------------------------------------------------------------------
# oracle: plain reference
# ---------------------------------------------------------------------------------------

class Ref:
    def __init__(self):
        self.W = {}          # offset -> byte of the first accepted write (never deleted)
        self.consumed = 0
        self.final = None
        self.hi = 0          # highest offset seen (ends of accepted writes, skip targets)
        self.ce = 0          # first offset >= consumed that is not stored
        self.skipped = []    # ranges dropped by skip

    def fix_ce(self):
        if self.ce < self.consumed:
            self.ce = self.consumed
        W = self.W
        ce = self.ce
        while ce in W:
            ce += 1
        self.ce = ce

    def length(self):
        return self.ce - self.consumed

    def expect_write(self, off, n, fin):
        end = off + n
        if end > MAXOFF:
            return "out-of-range"
        if self.final is not None:
            if fin and end != self.final:
                return "invalid-fin"
            if not fin and end > self.final:
                return "invalid-fin"
        elif fin and end < self.hi:
            return "invalid-fin"
        return None

    def apply_write(self, off, data, fin):
        end = off + len(data)
        self.hi = max(self.hi, end)
        if fin:
            self.final = end
        W = self.W
        lo = max(off, self.consumed)
        for i in range(lo, end):
            if i not in W:
                W[i] = data[i - off]
        self.fix_ce()

    def expect_skip(self, n):
        if n == 0:
            return None
        if self.consumed + n > MAXOFF:
            return "out-of-range"
        if self.final is not None and self.consumed + n > self.final:
            return "invalid-fin"
        return None

    def apply_skip(self, n):
        if n == 0:
            return
        new = self.consumed + n
        # buffered bytes below the new start are dropped for good
        self.skipped.append((self.consumed, new))
        W = self.W
        if new - self.consumed <= 1 << 20:
            for i in range(self.consumed, new):
                W.pop(i, None)
        else:
            for i in [k for k in W if self.consumed <= k < new]:
                del W[i]
        self.consumed = new
        self.hi = max(self.hi, new)
        self.fix_ce()

    def bytes_at(self, a, n):
        W = self.W
        try:
            return bytes(W[i] for i in range(a, a + n))
        except KeyError:
            return None


def same(tok, b):
    """does the printed bytes token describe exactly the byte string b"""
    return b is not None and tok == show_bytes(b)


def classify(ref, tok, k):
    """the popped token is not W[consumed .. consumed+k): which kind of failure is it"""
    p = ref.consumed
    for q in range(max(0, p - 4200 - k), p):
        if k and same(tok, ref.bytes_at(q, k)):
            return "reasm:dup-bytes", f"bytes of offsets {q}..{q + k} handed out again at read position {p}"
    for q in range(p + 1, p + 4200):
        if k and same(tok, ref.bytes_at(q, k)):
            return "reasm:lost-bytes", f"read position {p} jumped to {q}: bytes {p}..{q} were never handed out"
    return "reasm:wrong-bytes", f"bytes handed out at read position {p} are not the bytes written there"


def oracle(ops, outs):
    bad = []
    ref = Ref()
    prev_state = ["0", "0", "0", "none", "0", "0", "1"]

    def fail(i, sig, msg):
        bad.append((i, sig, f"op {i} `{ops[i][:80]}` -> `{outs[i][:160]}`: {msg}"))

    for i, (op, out) in enumerate(zip(ops, outs)):
        t = op.split()
        o = out.split()
        if not t:
            continue
        if t[0] == "reset":
            ref = Ref()
            prev_state = ["0", "0", "0", "none", "0", "0", "1"]
            continue
        if not o or o[0] == "panic":
            fail(i, f"reasm:panic:{t[0]}", "implementation panicked")
            ref = Ref()      # the harness restarts the component after a panic
            prev_state = ["0", "0", "0", "none", "0", "0", "1"]
            continue
        if o[0] == "bad-op":
            fail(i, "reasm:bad-op", "generator produced an op outside the domain")
            continue
        if o[0] == "ok":
            err = None
            tok = o[1]
            state = o[2:]
        else:
            err = o[1]
            tok = o[2]
            state = o[3:]
        if len(state) != 7:
            fail(i, "reasm:malformed-output", "unexpected output shape")
            continue
        before = (ref.consumed, ref.length())
        if t[0] in ("w", "wx"):
            off = int(t[1])
            if t[0] == "w":
                n, key, fin = int(t[2]), int(t[3]), t[4] == "1"
                data = None
            else:
                data = bytes.fromhex(t[2]) if t[2] != "-" else b""
                n, fin = len(data), t[3] == "1"
            exp = ref.expect_write(off, n, fin)
            if exp is None and err is not None:
                fail(i, "reasm:bad-reject", f"a write consistent with final size {ref.final} / highest offset {ref.hi} / 2^62-1 was rejected with {err}")
            elif exp is not None and err is None:
                fail(i, "reasm:bad-accept", f"write must be rejected ({exp}): final size {ref.final}, highest offset {ref.hi}")
            elif exp is not None and err != exp:
                fail(i, "reasm:bad-reject", f"rejected with {err}, the property asks for {exp}")
            if err is None:
                # follow the implementation's decision so that later content checks stay meaningful
                if off + n <= MAXOFF:
                    if data is None:
                        lo = max(off, ref.consumed)
                        data_lo = payload(key, lo, max(off + n - lo, 0))
                        _apply(ref, off, n, lo, data_lo, fin)
                    else:
                        ref.apply_write(off, data, fin)
            else:
                if state != prev_state:
                    fail(i, "reasm:state-changed-on-error", f"rejected write changed the observable state from {prev_state} to {state}")
            if tok != "-":
                fail(i, "reasm:wrong-bytes", "a write handed out bytes")
        elif t[0] in ("read", "popn"):
            w = None if t[1] == "inf" else int(t[1])
            avail = ref.length()
            want = avail if w is None else min(w, avail)
            k = tok_len(tok)
            if err is not None:
                fail(i, "reasm:bad-reject", "a read failed")
            expb = ref.bytes_at(ref.consumed, k) if k <= avail else None
            if k and not same(tok, expb):
                sig, msg = classify(ref, tok, k)
                fail(i, sig, msg)
            elif w is not None and k > w:
                fail(i, "reasm:wrong-bytes", f"{k} bytes handed out above the watermark {w}")
            elif t[0] == "read" and k < want:
                fail(i, "reasm:lost-bytes", f"only {k} of the {want} readable contiguous bytes were handed out")
            elif t[0] == "popn" and k == 0 and want > 0:
                fail(i, "reasm:lost-bytes", f"nothing handed out although {want} contiguous bytes are readable")
            # follow the implementation
            ref.consumed += k
            ref.fix_ce()
        elif t[0] == "skip":
            n = int(t[1])
            exp = ref.expect_skip(n)
            if exp is None and err is not None:
                fail(i, "reasm:bad-reject", f"skip within final size {ref.final} / 2^62-1 was rejected with {err}")
            elif exp is not None and err is None:
                fail(i, "reasm:bad-accept", f"skip must be rejected ({exp}): final size {ref.final}")
            elif exp is not None and err != exp:
                fail(i, "reasm:bad-reject", f"rejected with {err}, the property asks for {exp}")
            if err is None:
                if ref.consumed + n <= MAXOFF:
                    ref.apply_skip(n)
            elif state != prev_state:
                fail(i, "reasm:state-changed-on-error", f"rejected skip changed the observable state from {prev_state} to {state}")
        elif t[0] == "clear":
            ref = Ref()
        else:
            fail(i, "reasm:bad-op", "unknown op")
            continue
        # sizes, after every op
        ln = ref.length()
        total = ref.consumed + ln
        fin_s = "none" if ref.final is None else str(ref.final)
        want_state = [str(ln), str(ref.consumed), str(total), fin_s,
                      "1" if ref.final is not None and total == ref.final else "0",
                      "1" if ref.final is not None and ref.final == ref.consumed else "0",
                      "1" if ln == 0 else "0"]
        if state != want_state:
            fail(i, "reasm:sizes", f"len/consumed/total/final/writing_complete/reading_complete/is_empty = {state}, reference says {want_state}")
            # resynchronise what can be resynchronised so that one fault is not reported forever
            try:
                ref.consumed = int(state[1])
                ref.final = None if state[3] == "none" else int(state[3])
                ref.fix_ce()
            except ValueError:
                pass
        prev_state = state
    return bad


def _apply(ref, off, n, lo, data_lo, fin):
    """apply an accepted keyed write whose payload was only materialised from `lo` upwards"""
    end = off + n
    ref.hi = max(ref.hi, end)
    if fin:
        ref.final = end
    W = ref.W
    for i in range(lo, end):
        if i not in W:
            W[i] = data_lo[i - lo]
    ref.fix_ce()


def nontrivial(op, out):
    """a case is non-trivial when the implementation accepted it and it changed or revealed state:
    an accepted write/skip or a read that handed out bytes"""
    o = out.split()
    if len(o) < 2 or o[0] != "ok":
        return None
    t = op.split()
    if t[0] in ("read", "popn") and o[1] == "-":
        return None
    return op + "|" + " ".join(o[2:5])


# ---------------------------------------------------------------------------------------
# tie D, shared by props/parts/C16_reassembler.py and props/parts/C01_reassembly.py
# ---------------------------------------------------------------------------------------

def diff(ctx, n, exhaustive_too=False):
    """two passes: the implementation runs the generated ops once so that the chunk length of every
    single-pop (`popn`) is known, then implementation and model run the resolved ops side by side"""
    import sys
    import vlib
    me = sys.modules[__name__]

    def resolve(lines):
        rc, outs, err = vlib.run_lines([vlib.harness_bin("vh-core"), "reassembler"], lines)
        if rc != 0 or len(outs) != len(lines):
            raise RuntimeError(f"vh-core reassembler failed rc={rc} lines={len(outs)}/{len(lines)}: {err[-1000:]}")
        return me.resolve_chunks(lines, outs)

    def module(make_lines, count_distinct=True):
        class Resolved:
            oracle = staticmethod(me.oracle)
            # the exhaustive shards are not entered into the distinct-case set (tens of millions of keys)
            nontrivial = staticmethod(me.nontrivial if count_distinct else (lambda op, out: None))

            @staticmethod
            def gen(rng, n, tier):
                return resolve(make_lines(rng, n, tier))
        return Resolved

    def account(lines, r_out):
        ctx.count("reassembler:histories", sum(1 for l in lines if l == "reset"))
        ctx.count("reassembler:payload_bytes_written",
                  sum(int(l.split()[2]) for l, o in zip(lines, r_out) if l.startswith("w ") and o.startswith("ok")))
        ctx.count("reassembler:bytes_read_back",
                  sum(tok_len(o.split()[1]) for l, o in zip(lines, r_out) if l[:4] in ("read", "popn") and o.startswith("ok")))

    lines, r_out, l_out, mism = vlib.step_diff(ctx, "vh-core", "reassembler", module(me.gen), n)
    account(lines, r_out)
    if exhaustive_too:
        for name, ops in exhaustive_shards():
            res = vlib.step_diff(ctx, "vh-core", "reassembler", module(lambda rng, n, tier, ops=ops: ops, False), 0,
                                 name="D:vh-core/reassembler exhaustive, " + name)
            account(res[0], res[1])
            del res
    return lines, r_out, l_out, mism
