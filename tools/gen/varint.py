"""ops for the `varint` component (vh-core) / Lean `varint` driver."""
STATELESS = True
BOUNDS = [0, 1, 62, 63, 64, 65, 255, 256, 16382, 16383, 16384, 16385, 65535, 65536, 2**24 - 1, 2**24,
          2**30 - 1, 2**30, 2**30 + 1, 2**32 - 1, 2**32, 2**56 - 1, 2**56, 2**62 - 2, 2**62 - 1, 2**62, 2**63, 2**64 - 1, 2**64]


def hexs(b):
    return bytes(b).hex() if b else "-"


def gen(rng, n, tier):
    ops = []
    for v in BOUNDS:
        ops.append(f"enc {v}")
    # every first byte, with 0..9 following bytes
    for h in range(256):
        k = rng.randrange(0, 10)
        ops.append("dec " + hexs([h] + [rng.randrange(256) for _ in range(k)]))
    ops.append("dec -")
    for _ in range(n):
        c = rng.random()
        if c < 0.45:
            bits = rng.choice([6, 7, 8, 14, 15, 16, 30, 31, 32, 62, 62, 62, 63])
            v = rng.getrandbits(bits)
            if rng.random() < 0.3:
                v = max(0, rng.choice(BOUNDS) + rng.randrange(-2, 3))
            ops.append(f"enc {v}")
        else:
            k = rng.choice([1, 1, 2, 2, 3, 4, 4, 5, 7, 8, 8, 9, 12])
            ops.append("dec " + hexs([rng.randrange(256) for _ in range(k)]))
    return ops


def _enc(v):
    if v <= 63:
        return [v]
    if v <= 16383:
        return [0x40 | v >> 8, v & 255]
    if v <= 2**30 - 1:
        return [0x80 | v >> 24, v >> 16 & 255, v >> 8 & 255, v & 255]
    return [0xc0 | v >> 56] + [(v >> s) & 255 for s in (48, 40, 32, 24, 16, 8, 0)]


def oracle(ops, outs):
    """property twin on the implementation: emitted bytes are the RFC shortest form, announced size
    equals bytes written, decode consumes exactly the length the 2 MSB announce."""
    bad = []
    for i, (op, out) in enumerate(zip(ops, outs)):
        t = op.split()
        o = out.split()
        if o and o[0] == "panic":
            bad.append((i, f"varint:panic:{t[0]}", f"varint {op} panicked: {out}"))
            continue
        if t[0] == "enc":
            v = int(t[1])
            if v > 2**62 - 1:
                if out != "err range":
                    bad.append((i, "varint:enc:out-of-range-accepted", f"{op} -> {out}"))
                continue
            want = bytes(_enc(v)).hex()
            if o[0] != "ok" or o[1] != want or int(o[2]) != len(want) // 2:
                bad.append((i, f"varint:enc:len{len(want)//2}", f"{op}: expected {want} size {len(want)//2}, implementation gave {out}"))
        elif t[0] == "dec":
            b = bytes.fromhex(t[1]) if t[1] != "-" else b""
            if not b:
                exp = "err eof"
            else:
                w = 1 << (b[0] >> 6)
                if len(b) < w:
                    exp = "err eof"
                else:
                    exp = f"ok {int.from_bytes(b[:w], 'big') & ((1 << (8 * w - 2)) - 1)} {w}"
            if out != exp:
                bad.append((i, f"varint:dec:tag{b[0] >> 6 if b else 'x'}", f"{op}: RFC says {exp}, implementation gave {out}"))
    return bad


def nontrivial(op, out):
    return op if out.startswith("ok") else None
