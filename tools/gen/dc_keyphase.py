"""ops + property oracle for the `dc_keyphase` component (vh-dc) / Lean `dc_keyphase` driver.

Oracle (C18, key-phase wrapper half) — an independent python reference evaluated on the implementation's
outputs only:
  * a packet that is not exactly what the peer's sealer of that key chain emitted (any header / ciphertext /
    tag / packet-number bit changed, key-phase bit flipped, sealed for another stream / direction / by a Once
    key) is rejected and leaves the ENTIRE observable opener state unchanged (expected key phase,
    needs_update, dedup cell; no update() in stream mode)               dckey:forged-accepted / dckey:forged-changed-state
  * after any number of forged packets every genuine packet of the opener's current or next key generation
    still opens, with the sealed payload                                  dckey:genuine-rejected / dckey:payload-mismatch
  * the opener's expected phase / needs_update follow ONLY authenticated packets of the other phase and the
    update() calls of the stream code                                     dckey:keyphase-desync
  * a genuine packet of a generation the opener no longer / not yet holds is rejected   dckey:stale-generation-accepted
  * one key id authenticates on at most one opener instance (Dedup), a Once opener at most once
                                                                          dckey:key-opened-twice / dckey:once-opened-twice
  * the sealer leaves a generation at the record budget (debug build: 4096 records; the stream code updates
    right after the sealing closure), phase bit = generation parity       dckey:sealer-update-missed / dckey:sealer-phase
"""
import re

MAX_RECORDS = 4096          # key.rs TEST_MAX_RECORDS (the harness is a debug build)
WINDOW = 896                # receiver.rs replay window (C19)


def hx(rng, n):
    return "-" if n == 0 else "".join(f"{rng.randrange(256):02x}" for _ in range(n))


# ---------------------------------------------------------------------------------------------------
# generator (keeps a small mirror only to place ops; the oracle does not use it)
# ---------------------------------------------------------------------------------------------------

class Mirror:
    def __init__(self, ops, rng, stream_mode):
        self.ops = ops
        self.rng = rng
        self.stream_mode = stream_mode
        self.npk = 0
        self.nstreams = 0
        self.rec = {}        # (s, e) -> records of the sealer
        self.pk = {}         # pkt id -> (hdr len, payload len)
        self.pn = 0

    def pair(self):
        self.ops.append("pair")
        s = self.nstreams
        self.nstreams += 1
        self.rec[(s, "c")] = 0
        self.rec[(s, "s")] = 0
        self.ops += [f"state {s} c", f"state {s} s"]
        return s

    def dup(self, s):
        self.ops.append(f"dup {s}")
        d = self.nstreams
        self.nstreams += 1
        self.rec[(d, "s")] = 0
        self.ops.append(f"state {d} s")
        return d

    def seal(self, s, e, hl=None, pl=None):
        rng = self.rng
        hl = rng.choice([0, 1, 2, 5, 17, 40]) if hl is None else hl
        pl = rng.choice([0, 1, 3, 16, 33, 100]) if pl is None else pl
        self.pn += rng.choice([1, 1, 1, 2, 7])
        self.ops.append(f"seal {s} {e} {self.pn} {hx(rng, hl)} {hx(rng, pl)}")
        pid = self.npk
        self.npk += 1
        self.pk[pid] = (hl, pl)
        self.rec[(s, e)] += 1
        if self.stream_mode and self.rec[(s, e)] >= MAX_RECORDS:
            self.rec[(s, e)] = 0
        return pid

    def burn_to(self, s, e, target):
        """advance the sealer's record counter to `target` (< MAX_RECORDS) within one closure"""
        n = target - self.rec[(s, e)]
        if n > 0:
            self.ops.append(f"burn {s} {e} {n}")
            self.rec[(s, e)] += n

    def open(self, s, e, pid, how=None, flip="k", muts="-"):
        how = how or self.rng.choice(["copy", "inplace"])
        self.ops.append(f"open {s} {e} {how} {pid} {flip} {muts}")

    def one_mut(self, pid, kind):
        rng = self.rng
        hl, pl = self.pk[pid]
        if kind == "h" and hl:
            return f"h{rng.randrange(hl)}:{rng.choice([1, 128, 255, rng.randrange(1, 256)])}"
        if kind == "p" and pl:
            return f"p{rng.randrange(pl)}:{rng.choice([1, 128, 255, rng.randrange(1, 256)])}"
        if kind == "t":
            return f"t{rng.randrange(16)}:{rng.choice([1, 128, 255, rng.randrange(1, 256)])}"
        if kind == "n":
            return f"n:{rng.choice([1, 2, 1 << 32, rng.randrange(1, 1 << 62)])}"
        return None

    def forged_burst(self, s, e, pid, full=True):
        """every combination (phase bit kept | flipped) x (nothing | header | ciphertext | tag | pn | several) x (copy | inplace)"""
        kinds = ["-", "h", "p", "t", "n", "multi"]
        for flip in ("k", "f"):
            for kind in kinds:
                for how in ("copy", "inplace"):
                    if not full and self.rng.random() < 0.6:
                        continue
                    if kind == "-":
                        if flip == "k":
                            continue
                        muts = "-"
                    elif kind == "multi":
                        ms = [m for m in (self.one_mut(pid, k) for k in self.rng.sample(["h", "p", "t", "n", "t"], 3)) if m]
                        muts = ",".join(ms)
                    else:
                        muts = self.one_mut(pid, kind)
                        if muts is None:
                            continue
                    self.open(s, e, pid, how, flip, muts)


OTHER = {"c": "s", "s": "c"}


def seg_long(rng, ops, suite, mode, cycles):
    """long genuine runs across several key updates on both sides, forged packets right before / after the updates"""
    stream_mode = mode == "stream"
    ops.append(f"init {suite} {mode}")
    m = Mirror(ops, rng, stream_mode)
    s = m.pair()
    for cyc in range(cycles):
        for e in ("c", "s"):
            o = OTHER[e]
            # a few packets of the current generation, reordered and duplicated
            a = [m.seal(s, e) for _ in range(3)]
            order = a + [rng.choice(a)]
            rng.shuffle(order)
            for pid in order:
                m.open(s, o, pid)
            m.forged_burst(s, o, a[0], full=(cyc == 0))
            # walk up to the record budget
            m.burn_to(s, e, MAX_RECORDS - 2)
            pa = m.seal(s, e, 5, 16)              # last but one record of the generation
            pb = m.seal(s, e, 5, 16)              # the record that reaches the budget (still the old key)
            if not stream_mode:
                ops.append(f"poll {s} {e} seal")
                m.rec[(s, e)] = 0
            pc = m.seal(s, e, 5, 16)              # first packets of the next generation
            pd = m.seal(s, e, 5, 16)
            m.open(s, o, pa)
            # forged right BEFORE the opener's update: variants of a current and of a next-generation packet
            m.forged_burst(s, o, pa, full=False)
            m.forged_burst(s, o, pc, full=(cyc == 0))
            if not stream_mode and rng.random() < 0.5:
                ops.append(f"poll {s} {o} open")   # nothing authentic of the other phase yet: no update
            m.open(s, o, pc)                       # authenticated other phase -> needs_update (-> update in stream mode)
            if not stream_mode:
                if rng.random() < 0.5:
                    # not yet polled: both generations must still open
                    m.open(s, o, pb)
                    m.open(s, o, pd)
                    m.forged_burst(s, o, pd, full=False)
                ops.append(f"poll {s} {o} open")
            # forged right AFTER the update
            m.forged_burst(s, o, pd, full=(cyc == 0))
            m.forged_burst(s, o, pb, full=False)
            m.open(s, o, pd)
            m.open(s, o, pb)                       # old generation behind the update: stale
            m.open(s, o, pc)
            ops.append(f"state {s} {o}")
            ops.append(f"state {s} {e}")
    return m


def seg_dedup(rng, ops, suite, mode):
    ops.append(f"init {suite} {mode}")
    m = Mirror(ops, rng, mode == "stream")
    s0 = m.pair()
    d1 = m.dup(s0)
    d2 = m.dup(s0)
    p = [m.seal(s0, "c") for _ in range(3)]
    # forged first packets must not consume the key id
    for d in (d1, d2, s0):
        m.forged_burst(d, "s", p[0], full=False)
        ops.append(f"state {d} s")
    winner = rng.choice([s0, d1, d2])
    m.open(winner, "s", p[0])
    for d in (s0, d1, d2):
        m.open(d, "s", p[1])
        m.forged_burst(d, "s", p[2], full=False)
        m.open(d, "s", p[2])
        ops.append(f"state {d} s")
    # server -> client direction has no dedup
    q = m.seal(winner, "s")
    m.open(s0, "c", q)
    m.open(s0, "c", q)
    # a key id that fell out of the replay window
    old = m.pair()
    po = m.seal(old, "c")
    ops.append(f"skip {rng.choice([WINDOW - 3, WINDOW + 5, 1000])}")
    new = m.pair()
    pn = m.seal(new, "c")
    m.forged_burst(new, "s", pn, full=False)
    m.open(new, "s", pn)
    m.forged_burst(old, "s", po, full=False)
    m.open(old, "s", po)
    m.open(old, "s", po)
    ops.append(f"state {old} s")
    # cross traffic: packets of another stream / the own direction reflected
    m.open(new, "s", po)
    m.open(old, "s", pn)
    m.open(new, "c", pn)
    return m


def seg_once(rng, ops, suite, mode):
    ops.append(f"init {suite} {mode}")
    m = Mirror(ops, rng, mode == "stream")
    s = m.pair()
    bidi = m.seal(s, "c", 4, 8)
    for _ in range(rng.choice([1, 2, 3])):
        ops.append("onew")
    # (indices are per segment: count them here)
    n_once = 0
    for x in reversed(ops):
        if x.startswith("init "):
            break
        if x == "onew":
            n_once += 1
    pk = {}
    for o in range(n_once):
        hl, pl = rng.choice([0, 3, 20]), rng.choice([0, 1, 16, 50])
        m.pn += 1
        ops.append(f"oseal {o} {m.pn} {hx(rng, hl)} {hx(rng, pl)}")
        pk[o] = m.npk
        m.pk[m.npk] = (hl, pl)
        m.npk += 1
        if rng.random() < 0.5:
            ops.append(f"oseal {o} {m.pn + 1} {hx(rng, 2)} {hx(rng, 2)}")     # single use
    j = 0
    for o in range(n_once):
        js = []
        for _ in range(rng.choice([1, 2])):
            ops.append(f"oopener {o}")
            js.append(j)
            j += 1
        pid = pk[o]
        for jj in js:
            # forged first
            for flip in ("k", "f"):
                for kind in ("-", "h", "p", "t", "n"):
                    if kind == "-" and flip == "k":
                        continue
                    muts = "-" if kind == "-" else m.one_mut(pid, kind)
                    if muts is None:
                        continue
                    ops.append(f"oopen {jj} {rng.choice(['copy', 'inplace'])} {pid} {flip} {muts}")
            ops.append(f"oopen {jj} copy {bidi} k -")                         # a bidi packet is foreign to a Once key
        for jj in js:
            ops.append(f"oopen {jj} {rng.choice(['copy', 'inplace'])} {pid} k -")
            ops.append(f"oopen {jj} {rng.choice(['copy', 'inplace'])} {pid} k -")
            ops.append(f"oopen {jj} inplace {pid} f -")
        # a Once packet into a bidi opener
        ops.append(f"open {s} s copy {pid} k -")
    return m


def seg_random(rng, ops, suite, mode, length):
    stream_mode = mode == "stream"
    ops.append(f"init {suite} {mode}")
    m = Mirror(ops, rng, stream_mode)
    streams = [m.pair()]
    sealed = {}          # (s, e) -> pkt ids sealed by that sealer
    for _ in range(length):
        c = rng.random()
        s = rng.choice(streams)
        e = rng.choice("cs")
        if c < 0.04 and m.nstreams < 6:
            streams.append(m.pair())
        elif c < 0.07 and m.nstreams < 6:
            m.dup(rng.choice(streams))
        elif c < 0.30:
            sealed.setdefault((s, e), []).append(m.seal(s, e))
        elif c < 0.34:
            m.burn_to(s, e, rng.choice([MAX_RECORDS - 1, MAX_RECORDS - 3, 100]))
        elif c < 0.37:
            # overshoot the budget inside ONE closure (a transmit batch)
            ops.append(f"burn {s} {e} {rng.choice([MAX_RECORDS, MAX_RECORDS + 7, 5000])}")
            m.rec[(s, e)] = 0 if stream_mode else m.rec[(s, e)] + 5000
        elif c < 0.62:
            src = sealed.get((s, OTHER[e]))
            if src:
                pid = rng.choice(src[-6:] if rng.random() < 0.8 else src)
                m.open(s, e, pid)
        elif c < 0.85:
            if m.npk:
                pid = rng.randrange(max(0, m.npk - 8), m.npk)
                tgt = rng.randrange(m.nstreams)
                te = "s" if tgt not in streams else rng.choice("cs")
                kind = rng.choice(["-", "h", "p", "t", "n", "multi"])
                flip = rng.choice("kf")
                if kind == "-":
                    muts = "-"
                elif kind == "multi":
                    muts = ",".join(x for x in (m.one_mut(pid, k) for k in "hptn") if x)
                else:
                    muts = m.one_mut(pid, kind) or "-"
                m.open(tgt, te, pid, None, flip, muts)
        elif c < 0.93:
            ops.append(f"poll {s} {e} {rng.choice(['seal', 'open'])}")
            if not stream_mode:
                m.rec[(s, e)] = m.rec[(s, e)] if m.rec[(s, e)] < MAX_RECORDS else 0
        elif c < 0.96 and not stream_mode:
            which = rng.choice(["seal", "open"])
            ops.append(f"update {s} {e} {which}")
            if which == "seal":
                m.rec[(s, e)] = 0
        elif c < 0.98:
            ops.append(f"state {rng.randrange(m.nstreams)} {rng.choice('cs')}")
        else:
            ops.append(rng.choice(["open 0 s copy 99999 k -", "open 0 s both 0 k -", "seal 0 x 1 00 00", "open 0 s copy 0 k h0:0",
                                   "open 0 s copy 0 q -", "update 0 s both", "dup 77", "skip 99999", "oopen 0 copy 0 k -", "nonsense"]))
    return m


def gen(rng, n, tier):
    ops = []
    first = True

    def sep():
        nonlocal first
        if not first:
            ops.append("reset")
        first = False

    for suite in ("128", "256"):
        for mode in ("stream", "raw"):
            sep()
            seg_long(rng, ops, suite, mode, 3 if tier == "thorough" else 2)
    for suite, mode in (("128", "stream"), ("256", "raw")):
        sep()
        seg_dedup(rng, ops, suite, mode)
        sep()
        seg_once(rng, ops, suite, mode)
    while len(ops) < n:
        sep()
        c = rng.random()
        suite, mode = rng.choice(["128", "256"]), rng.choice(["stream", "raw"])
        if c < 0.6:
            seg_random(rng, ops, suite, mode, rng.choice([40, 120, 300]))
        elif c < 0.75:
            seg_dedup(rng, ops, suite, mode)
        elif c < 0.9:
            seg_once(rng, ops, suite, mode)
        else:
            seg_long(rng, ops, suite, mode, 1)
    return ops


# ---------------------------------------------------------------------------------------------------
# oracle: independent reference of what the property demands, run against the implementation's outputs
# ---------------------------------------------------------------------------------------------------

OPEN_STATE = re.compile(r"ph=(\d) nu=(\d) dd=(\S+)")
SEAL_STATE = re.compile(r"ph=(\d) rec=(\d+) nu=(\d)")


class RefOpener:
    def __init__(self, chain, key, dedup):
        self.chain = chain
        self.key = key
        self.dedup = dedup        # consults the replay window on the first authentic packet
        self.gen = 0
        self.nu = False
        self.state = None         # last observable state string printed by the implementation
        self.dd = "uninit" if dedup else "ok"


class RefSealer:
    def __init__(self, chain):
        self.chain = chain
        self.gen = 0
        self.rec = 0


class RefWorld:
    def __init__(self, stream_mode):
        self.stream_mode = stream_mode
        self.next_key = 0
        self.seen = set()         # key ids the server's replay window accepted
        self.max_seen = None
        self.streams = []         # {"key", "c": (sealer, opener)|None, "s": (sealer, opener)}
        self.pkts = []            # {"chain", "gen", "hl", "pl", "payload", "phase"}
        self.once_sealers = []    # [key, sealed?]
        self.once_openers = []    # {"key", "opened", "dd", "state"}

    def window(self, key):
        """what the replay window (C19) answers for this key id: ok | definitely | potentially"""
        if self.max_seen is not None and key < self.max_seen and self.max_seen - key >= WINDOW:
            return "potentially"
        if key in self.seen:
            return "definitely"
        self.seen.add(key)
        self.max_seen = key if self.max_seen is None else max(self.max_seen, key)
        return "ok"


def net_altered(muts, hl, pl):
    """(valid?, altered?)"""
    if muts == "-":
        return True, False
    acc = {}
    parts = muts.split(",")
    if len(parts) > 8:
        return False, False
    for m in parts:
        mm = re.fullmatch(r"n:(\d+)", m)
        if mm:
            x = int(mm.group(1))
            if not 0 < x < 2**64:
                return False, False
            acc["n"] = acc.get("n", 0) ^ x
            continue
        mm = re.fullmatch(r"([hpt])(\d+):(\d+)", m)
        if not mm:
            return False, False
        f, i, x = mm.group(1), int(mm.group(2)), int(mm.group(3))
        if not 0 < x < 256 or i >= {"h": hl, "p": pl, "t": 16}[f]:
            return False, False
        acc[(f, i)] = acc.get((f, i), 0) ^ x
    return True, any(v != 0 for v in acc.values())


def oracle(ops, outs):
    fails = []
    w = RefWorld(False)

    diverged = False      # after the first failure of a history the reference no longer describes the implementation's state

    def fail(i, sig, msg):
        nonlocal diverged
        diverged = True
        fails.append((i, sig, f"{msg}: op `{ops[i][:160]}` -> `{outs[i][:160]}`"))

    for i, (op, out) in enumerate(zip(ops, outs)):
        t = op.split(" ")
        if t[0] in ("reset", "init"):
            diverged = False
        if diverged:
            continue
        if out.startswith("panic"):
            fail(i, "dckey:panic", "the implementation panicked")
            w = RefWorld(False)
            continue
        if t == ["reset"]:
            w = RefWorld(False)
            continue
        if out == "bad-op":
            continue
        try:
            if t[0] == "init":
                w = RefWorld(t[2] == "stream")
            elif t[0] == "pair":
                k = w.next_key
                w.next_key += 1
                w.streams.append({"key": k,
                                  "c": (RefSealer(3 * k), RefOpener(3 * k + 1, k, False)),
                                  "s": (RefSealer(3 * k + 1), RefOpener(3 * k, k, True))})
                if out != f"ok s={len(w.streams) - 1} key={k}":
                    fail(i, "dckey:key-id", "unexpected stream / key id")
            elif t[0] == "dup":
                k = w.streams[int(t[1])]["key"]
                w.streams.append({"key": k, "c": None, "s": (RefSealer(3 * k + 1), RefOpener(3 * k, k, True))})
            elif t[0] == "skip":
                w.next_key += int(t[1])
            elif t[0] in ("seal", "burn"):
                sealer = w.streams[int(t[1])][t[2]][0]
                mo = re.fullmatch(r"ok (?:pkt=(\d+) )?phase=(\d) upd=(\d) \| (.*)", out)
                st = SEAL_STATE.fullmatch(mo.group(4))
                phase, upd = int(mo.group(2)), int(mo.group(3))
                if phase != sealer.gen % 2:
                    fail(i, "dckey:sealer-phase", f"packet phase bit {phase} but the sealer is in generation {sealer.gen}")
                if t[0] == "seal":
                    if int(mo.group(1)) != len(w.pkts):
                        fail(i, "dckey:pkt-id", "unexpected packet id")
                    hdr = "" if t[4] == "-" else t[4]
                    pay = "" if t[5] == "-" else t[5]
                    w.pkts.append({"chain": sealer.chain, "gen": sealer.gen, "hl": len(hdr) // 2, "pl": len(pay) // 2,
                                   "payload": t[5].lower(), "phase": sealer.gen % 2})
                    sealer.rec += 1
                else:
                    sealer.rec += int(t[3])
                want_upd = 0
                if w.stream_mode and sealer.rec >= MAX_RECORDS:
                    sealer.gen += 1
                    sealer.rec = 0
                    want_upd = 1
                if upd != want_upd or int(st.group(2)) != sealer.rec or int(st.group(3)) != int(sealer.rec >= MAX_RECORDS):
                    fail(i, "dckey:sealer-update-missed",
                         f"sealer should be at generation {sealer.gen} with {sealer.rec} records (update expected: {want_upd})")
                elif int(st.group(1)) != sealer.gen % 2:
                    fail(i, "dckey:sealer-phase", f"sealer key phase {st.group(1)} in generation {sealer.gen}")
            elif t[0] in ("update", "poll"):
                sealer, opener = w.streams[int(t[1])][t[2]]
                mo = re.fullmatch(r"ok (?:upd=(\d) )?\| (.*)", out)
                if t[3] == "seal":
                    do = t[0] == "update" or sealer.rec >= MAX_RECORDS
                    if do:
                        sealer.gen += 1
                        sealer.rec = 0
                    st = SEAL_STATE.fullmatch(mo.group(2))
                    if (t[0] == "poll" and int(mo.group(1)) != int(do)) or int(st.group(2)) != sealer.rec:
                        fail(i, "dckey:sealer-update-missed", f"sealer should be at generation {sealer.gen} with {sealer.rec} records")
                    elif int(st.group(1)) != sealer.gen % 2:
                        fail(i, "dckey:sealer-phase", f"sealer key phase {st.group(1)} in generation {sealer.gen}")
                else:
                    do = t[0] == "update" or opener.nu
                    if do:
                        opener.gen += 1
                        opener.nu = False
                    st = OPEN_STATE.fullmatch(mo.group(2))
                    if (t[0] == "poll" and int(mo.group(1)) != int(do)) or int(st.group(1)) != opener.gen % 2 or int(st.group(2)) != 0:
                        fail(i, "dckey:keyphase-desync",
                             f"opener should now expect generation {opener.gen} (update expected: {int(do)})")
                    opener.state = mo.group(2)
            elif t[0] == "state":
                sealer, opener = w.streams[int(t[1])][t[2]]
                mo = re.fullmatch(r"ok seal: (.*) \| open: (.*)", out)
                st = OPEN_STATE.fullmatch(mo.group(2))
                if opener.state is not None and opener.state != mo.group(2):
                    fail(i, "dckey:keyphase-desync", f"opener state changed without an op on it ({opener.state} before)")
                if int(st.group(1)) != opener.gen % 2 or int(st.group(2)) != int(opener.nu) or st.group(3) != opener.dd:
                    fail(i, "dckey:keyphase-desync",
                         f"opener should expect generation {opener.gen}, needs_update={int(opener.nu)}, dedup={opener.dd}")
                opener.state = mo.group(2)
            elif t[0] == "open":
                opener = w.streams[int(t[1])][t[2]][1]
                p = w.pkts[int(t[4])]
                valid, altered = net_altered(t[6], p["hl"], p["pl"])
                mo = re.fullmatch(r"(ok|err) (\S+) upd=(\d) \| (.*)", out)
                res, val, upd, state = mo.group(1), mo.group(2), int(mo.group(3)), mo.group(4)
                genuine = (not altered) and t[5] == "k" and p["chain"] == opener.chain
                before = opener.state
                opener.state = state
                if not genuine:
                    if res == "ok":
                        fail(i, "dckey:forged-accepted", "a packet the peer's sealer never produced was accepted")
                    if upd or (before is not None and before != state):
                        fail(i, "dckey:forged-changed-state",
                             f"a rejected forged packet changed the opener (before: {before}; update={upd})")
                    continue
                if p["gen"] not in (opener.gen, opener.gen + 1):
                    if res == "ok":
                        fail(i, "dckey:stale-generation-accepted",
                             f"packet of generation {p['gen']} accepted by an opener at generation {opener.gen}")
                    elif upd or (before is not None and before != state):
                        fail(i, "dckey:forged-changed-state",
                             f"a rejected out-of-generation packet changed the opener (before: {before}; update={upd})")
                    continue
                # authentic: the dedup cell is consulted now if it never was
                if opener.dedup and opener.dd == "uninit":
                    opener.dd = w.window(opener.key)
                if opener.dd != "ok":
                    if res == "ok":
                        fail(i, "dckey:key-opened-twice", f"key id {opener.key} authenticated on a second opener instance")
                    elif val != "replay-" + opener.dd or upd or not state.endswith("dd=" + opener.dd) \
                            or (before is not None and before.rsplit(" ", 1)[0] != state.rsplit(" ", 1)[0]):
                        fail(i, "dckey:keyphase-desync", f"replayed key id should answer replay-{opener.dd} and keep the key phase state")
                    continue
                if res != "ok":
                    fail(i, "dckey:genuine-rejected",
                         f"genuine packet of generation {p['gen']} rejected by an opener that should be at generation {opener.gen}")
                    continue
                if val != (p["payload"] if p["pl"] else "-"):
                    fail(i, "dckey:payload-mismatch", "decrypted payload differs from the sealed one")
                if p["gen"] == opener.gen + 1:
                    opener.nu = True
                want_upd = 0
                if w.stream_mode and opener.nu:
                    opener.gen += 1
                    opener.nu = False
                    want_upd = 1
                st = OPEN_STATE.fullmatch(state)
                if upd != want_upd or int(st.group(1)) != opener.gen % 2 or int(st.group(2)) != int(opener.nu) or st.group(3) != "ok":
                    fail(i, "dckey:keyphase-desync",
                         f"opener should expect generation {opener.gen}, needs_update={int(opener.nu)} (update expected: {want_upd})")
            elif t[0] == "onew":
                k = w.next_key
                w.next_key += 1
                w.once_sealers.append([k, False])
                if out != f"ok o={len(w.once_sealers) - 1} key={k}":
                    fail(i, "dckey:key-id", "unexpected once sealer / key id")
            elif t[0] == "oseal":
                osl = w.once_sealers[int(t[1])]
                if osl[1]:
                    if out != "err sealed-twice":
                        fail(i, "dckey:once-sealed-twice", "a Once sealer sealed a second packet")
                else:
                    osl[1] = True
                    hdr = "" if t[3] == "-" else t[3]
                    pay = "" if t[4] == "-" else t[4]
                    if out != f"ok pkt={len(w.pkts)} phase=0":
                        fail(i, "dckey:pkt-id", "unexpected packet id / phase")
                    w.pkts.append({"chain": 3 * osl[0] + 2, "gen": 0, "hl": len(hdr) // 2, "pl": len(pay) // 2,
                                   "payload": t[4].lower(), "phase": 0})
            elif t[0] == "oopener":
                k = w.once_sealers[int(t[1])][0]
                w.once_openers.append({"key": k, "opened": False, "dd": "uninit", "state": "opened=0 dd=uninit"})
            elif t[0] == "oopen":
                oo = w.once_openers[int(t[1])]
                p = w.pkts[int(t[3])]
                valid, altered = net_altered(t[5], p["hl"], p["pl"])
                mo = re.fullmatch(r"(ok|err) (\S+) \| (.*)", out)
                res, val, state = mo.group(1), mo.group(2), mo.group(3)
                genuine = (not altered) and t[4] == "k" and p["chain"] == 3 * oo["key"] + 2
                before = oo["state"]
                oo["state"] = state
                if not genuine:
                    if res == "ok":
                        fail(i, "dckey:forged-accepted", "a packet the peer's Once sealer never produced was accepted")
                    if before != state:
                        fail(i, "dckey:forged-changed-state", f"a rejected forged packet changed the Once opener (before: {before})")
                    continue
                if oo["dd"] == "uninit":
                    oo["dd"] = w.window(oo["key"])
                if oo["dd"] != "ok":
                    if res == "ok":
                        fail(i, "dckey:key-opened-twice", f"key id {oo['key']} authenticated on a second Once opener")
                    continue
                if oo["opened"]:
                    if res == "ok":
                        fail(i, "dckey:once-opened-twice", "a Once opener opened a second packet")
                    continue
                oo["opened"] = True
                if res != "ok":
                    fail(i, "dckey:genuine-rejected", "the genuine packet of a Once key was rejected by its first opener")
                elif val != (p["payload"] if p["pl"] else "-"):
                    fail(i, "dckey:payload-mismatch", "decrypted payload differs from the sealed one")
        except (AttributeError, IndexError, KeyError, TypeError, ValueError) as ex:
            fail(i, "dckey:malformed-output", f"the harness answered something the protocol does not allow ({type(ex).__name__})")
    return fails


def nontrivial(op, out):
    k = op.split(" ")[0]
    if k in ("open", "oopen") and (out.startswith("ok") or out.startswith("err")):
        t = op.split(" ")
        return op if out.startswith("ok") else f"{k} {t[1:3]} {t[-2]} {t[-1][:1]} {out.split(' ')[1]}"
    if k in ("seal", "burn", "poll", "update") and "upd=1" in out:
        return op
    return None
