"""ops for the `loss` component (vh-core: REAL `recovery::loss::detect`, `Timestamp::has_elapsed`).

  detect <time_threshold_ns> <time_sent_us> <pn_threshold|K> <pn> <largest_acked> <now_us>
  elapsed <self_us> <now_us>

The oracle is the STRICT text of C09: a packet may be declared lost only if a later packet was
acknowledged (largest_acked > pn) and it is >= 3 packet numbers older than the largest acknowledged
or was sent MORE than the time threshold earlier.  The implementation compares with the 1 ms timer
granularity added (`Timestamp::has_elapsed`), so it declares loss up to 1 ms early: reported with the
stable signature `loss:time-threshold-early-within-granularity` (known finding F2); anything earlier
than that is `loss:time-threshold-early`."""
STATELESS = True
K_PACKET_THRESHOLD = 3          # "at least three packet numbers older"
GRANULARITY_NS = 1_000_000

THRESHOLDS = [1_000_000, 1_000_001, 1_000_999, 1_125_000, 1_125_001, 2_000_000, 9_000_000, 9_000_500,
              37_462_500, 374_625_000, 1_125_000_000, 5_000_000_000, 3_600_000_000_000]
WITNESS_F2 = "detect 9000000 1000 K 10 11 9001"
DELTAS = [0, 1, -1, 2, -2, 998, -998, 999, -999, 1000, -1000, 1001, -1001, 1999, -1999, 2000, -2000, 5000, -5000]


def gen(rng, n, tier):
    # witness of theorem lost_sound_strict_counterexample (F2), replayed on the real code first
    ops = [WITNESS_F2]

    def one(thr, sent, k, pn, d, delta):
        la = pn + d
        now = sent + thr // 1000 + delta
        if la < 0 or now < 1:
            return
        ops.append(f"detect {thr} {sent} {k} {pn} {la} {now}")

    # systematic grid: every threshold x every delta x distances 0..5
    for thr in THRESHOLDS:
        for delta in DELTAS:
            for d in range(0, 6):
                one(thr, 1 + (thr * 7 + delta * 13 + d) % 100000, "K", 10 + d, d, delta)
    for s, nw in [(1, 1), (1, 2), (1000, 1), (1000, 1999), (1000, 2000), (1000, 2001), (2000, 1000), (2000, 1001), (2000, 999)]:
        ops.append(f"elapsed {s} {nw}")
    for _ in range(n):
        c = rng.random()
        if c < 0.08:
            s = rng.randrange(1, 10**7)
            ops.append(f"elapsed {s} {max(1, s + rng.choice(DELTAS))}")
            continue
        if rng.random() < 0.5:
            thr = rng.choice(THRESHOLDS)
        else:
            thr = rng.choice([rng.randrange(1_000_000, 2_000_000), rng.randrange(1_000_000, 10**9), rng.randrange(1, 10**6),
                              rng.randrange(10**9, 10**13)])
        sent = rng.choice([1, 2, 999, 1000, rng.randrange(1, 10**6), rng.randrange(1, 10**12)])
        pn = rng.choice([0, 1, 2, 3, rng.randrange(0, 1000), rng.randrange(0, 2**40), 2**62 - 8])
        d = rng.choice([0, 1, 1, 2, 2, 2, 3, 3, 4, 5, 6, 100, -1, -3])
        k = "K" if rng.random() < 0.85 else str(rng.choice([0, 1, 2, 3, 4, 5]))
        if rng.random() < 0.8:
            delta = rng.choice(DELTAS)
        else:
            delta = rng.randrange(-thr // 1000 - 10, thr // 1000 + 10)
        one(thr, sent, k, pn, d, delta)
    return ops


def oracle(ops, outs):
    bad = []
    per_sig = {}

    def add(i, sig, msg):
        per_sig[sig] = per_sig.get(sig, 0) + 1
        if per_sig[sig] <= 3:
            bad.append((i, sig, msg))

    for i, (op, out) in enumerate(zip(ops, outs)):
        t = op.split()
        if out.startswith("panic"):
            add(i, f"loss:panic:{t[0]}", f"{op} panicked: {out}")
            continue
        if t[0] == "elapsed":
            continue
        if t[0] != "detect" or out == "bad-op":
            continue
        thr, sent = int(t[1]), int(t[2])
        k = K_PACKET_THRESHOLD if t[3] == "K" else int(t[3])
        pn, la, now = int(t[4]), int(t[5]), int(t[6])
        if out != "ok lost":
            continue
        if not la > pn:
            add(i, "loss:not-acked-later", f"{op}: declared lost although no later packet was acknowledged (largest_acked={la} <= pn={pn})")
            continue
        if la - pn >= k:
            continue
        # packet threshold not met: must have been sent MORE than the time threshold earlier
        elapsed_ns = (now - sent) * 1000
        if elapsed_ns > thr:
            continue
        margin = thr - elapsed_ns
        if margin < GRANULARITY_NS:
            add(i, "loss:time-threshold-early-within-granularity",
                f"{op}: declared lost {margin} ns before the time threshold elapsed (sent {elapsed_ns} ns ago, threshold {thr} ns, distance {la - pn} < {k})")
        elif margin >= max(thr // 2, 2 * GRANULARITY_NS):
            # far too early for any reading of the time threshold: the packet-number condition is what fired
            add(i, "loss:packet-threshold",
                f"{op}: declared lost only {la - pn} (< {k}) packet numbers behind the largest acknowledged and {margin} ns before the time threshold")
        else:
            add(i, "loss:time-threshold-early",
                f"{op}: declared lost {margin} ns (>= 1 ms) before the time threshold elapsed (sent {elapsed_ns} ns ago, threshold {thr} ns, distance {la - pn} < {k})")
    return bad


def nontrivial(op, out):
    return op if out.startswith("ok") else None
