"""ops + property oracle for the `dc_map` component (vh-dc) / Lean `dc_map` driver.

Oracle (C18, map half), on the implementation's outputs only: a datagram that is not exactly a packet
sealed by the named entry's peer never changes the digest (ids / peers / sender key ids / receiver
windows / requested handshakes) and is never reported as accepted; a genuine packet for a live entry
is accepted and has exactly its specified effect (StaleKey = fetch_max, ReplayDetected = handshake
request, UnknownPathSecret = handshake request + eviction iff configured and older than 10 s).
"""
import re

V = [0, 1, 63, 64, 16383, 16384, 2**30 - 1, 2**30, 2**62 - 1]
KINDS = ["ups", "stale", "replay"]
SIGK = {"ups": "unknown_path_secret", "stale": "stale_key", "replay": "replay_detected"}


def vlen(v):
    return 1 if v <= 63 else 2 if v <= 16383 else 4 if v <= 2**30 - 1 else 8


def fields(kind, qid, v):
    """field -> (start, end) of the secret-control packet layout"""
    pos = {"tag": (0, 1), "cid": (1, 17), "wv": (17, 18)}
    at = 18
    if qid is not None:
        pos["qid"] = (at, at + vlen(qid))
        at += vlen(qid)
    if kind != "ups":
        pos["v"] = (at, at + vlen(v))
        at += vlen(v)
    pos["auth-tag"] = (at, at + 16)
    return pos, at + 16


def rvar(rng):
    c = rng.random()
    if c < 0.5:
        return rng.choice(V)
    if c < 0.7:
        return max(0, min(2**62 - 1, rng.choice(V) + rng.randrange(-2, 3)))
    return rng.getrandbits(rng.choice([3, 6, 8, 14, 16, 30, 32, 48, 62]))


SCENARIOS = ["-", "0:128", "0:256", "0:128,1:256,2:128", "0:128,0:256", "0:128,1:128,0:256,2:256,1:128", "3:256,3:256,3:128"]


def packet_args(rng, kind):
    qid = "-" if rng.random() < 0.5 else str(rvar(rng))
    v = str(rvar(rng) if rng.random() < 0.6 else rng.randrange(0, 40))
    return qid, v


def segment(rng, ops, scenario, evict, length, age=False, exhaustive=False, aged_forgeries=False):
    ops.append(f"init {evict} {scenario}")
    n = 0 if scenario == "-" else len(scenario.split(","))
    if age:
        ops.append("age")
    ops.append("state")
    if aged_forgeries and n:
        # every byte of an UnknownPathSecret for an entry that could now be evicted
        _, total = fields("ups", 5, 0)
        for idx in range(total):
            ops.append(f"forge ctl ups {n - 1} 5 0 x{idx}:1")
        _, total = fields("ups", None, 0)
        for idx in range(total):
            ops.append(f"forge unexp ups 0 - 0 x{idx}:128")
    if exhaustive and n:
        # every byte position x {low bit, high bit, 0x00, 0xff} of a genuine packet of every kind
        for kind in KINDS:
            for qid in ("-", "5", "16384"):
                v = "300"
                pos, total = fields(kind, None if qid == "-" else int(qid), int(v))
                k = rng.randrange(n)
                for via in ("ctl", "unexp"):
                    for idx in range(total):
                        for m in (f"x{idx}:1", f"x{idx}:128", f"s{idx}:0", f"s{idx}:255"):
                            if via == "unexp" and not m.startswith("x") :
                                continue
                            ops.append(f"forge {via} {kind} {k} {qid} {v} {m}")
        return
    for _ in range(length):
        c = rng.random()
        via = rng.choice(["ctl", "ctl", "unexp"])
        kind = rng.choice(KINDS)
        qid, v = packet_args(rng, kind)
        if n and c < 0.40:
            k = rng.randrange(n)
            nm = rng.choice([1, 1, 1, 2, 3, 8])
            ms = []
            # distinct positions (the model's credential ids / tags are placeholders: two mutations of one
            # such byte could cancel in the model and not in the implementation)
            _, total = fields(kind, None if qid == "-" else int(qid), int(v))
            for idx in rng.sample(range(total), nm):
                idx += total * rng.randrange(2)
                if rng.random() < 0.7:
                    ms.append(f"x{idx}:{rng.choice([1, 128, 255, rng.randrange(1, 256)])}")
                else:
                    ms.append(f"s{idx}:{rng.choice([0, 255, rng.randrange(256)])}")
            ops.append(f"forge {via} {kind} {k} {qid} {v} {','.join(ms)}")
        elif n and c < 0.58:
            ops.append(f"genuine {via} {kind} {rng.randrange(n)} {qid} {v}")
        elif n > 1 and c < 0.66:
            k = rng.randrange(n)
            j = rng.choice([x for x in range(n) if x != k])
            ops.append(f"cross {via} {kind} {k} {j} {qid} {v}")
        elif c < 0.74:
            ops.append(f"alien {via} {kind} {qid} {v}")
        elif c < 0.86:
            ln = rng.choice([0, 1, 17, 18, 33, 34, 35, 42, 50, 64])
            first = rng.choice([0x60, 0x61, 0x62, 0x64, 0x65, 0x66, 0x63, 0x00, 0x40, 0x50, rng.getrandbits(8)])
            b = bytes([first] + [rng.choice([0, rng.getrandbits(8)]) for _ in range(ln)])
            # keep the credential id away from the all-equal ids the model uses for its entries
            if len(b) > 3:
                b = b[:1] + bytes([0x11, 0x22]) + b[3:]
            ops.append(f"raw {via} {b.hex()}")
        elif n and c < 0.92:
            ops.append(f"next {rng.randrange(n)}")
        elif n and c < 0.96:
            ops.append(f"seen {rng.randrange(n)} {rng.choice([0, 1, 2, 5, 900, rvar(rng)])}")
        else:
            ops.append("state")
    ops.append("state")


def gen(rng, n, tier):
    ops = []
    thorough = tier == "thorough"
    first = True
    # exhaustive single-byte forgeries against a small map (eviction off: the 10 s age guard is real
    # time, a long segment on a loaded machine must not depend on it)
    segment(rng, ops, "0:128,1:256", 0, 0, exhaustive=True)
    ops.append("reset")
    # one aged segment: eviction by UnknownPathSecret becomes possible (10 s of real time)
    segment(rng, ops, "0:128,1:256,0:256,2:128", 1, 60 if not thorough else 400, age=True, aged_forgeries=True)
    ops.append("reset")
    segs = max(4, n // 40)
    for _ in range(segs):
        segment(rng, ops, rng.choice(SCENARIOS), rng.choice([0, 1]), 40)
        ops.append("reset")
    if thorough:
        segment(rng, ops, "0:256", 1, 0, exhaustive=True)
        ops.append("reset")
    return ops


# ------------------------------------------------------------------------------------------------
# oracle
# ------------------------------------------------------------------------------------------------

def parse_digest(s):
    d = {"entries": {}}
    for tok in s.strip().split(" "):
        if "=" not in tok:
            continue
        a, b = tok.split("=", 1)
        if re.fullmatch(r"e\d+", a):
            live, cur, cid, rx = b.split(":")
            d["entries"][int(a[1:])] = (int(live), int(cur), int(cid), int(rx))
        else:
            d[a] = b
    return d


def classify(before, after, kind, suffix=""):
    """which part of the digest moved -> signature"""
    out = []
    be, ae = before["entries"], after["entries"]
    if before.get("secrets") != after.get("secrets") or before.get("peers") != after.get("peers") or \
            any(be[k][0] != ae[k][0] or be[k][1] != ae[k][1] for k in be if k in ae):
        out.append("dcmap:forged-evicted" + suffix)
    if any(be[k][2] != ae[k][2] for k in be if k in ae):
        out.append("dcmap:forged-advanced-key-id" + suffix)
    if before.get("hs") != after.get("hs"):
        out.append("dcmap:forged-triggered-handshake" + suffix)
    if not out:
        out.append(f"dcmap:forged-changed-state:{SIGK.get(kind, kind)}" + suffix)
    return out


def oracle(ops, outs):
    bad = []
    cur = None          # last digest
    peers = []          # entry -> peer index
    evict = 0
    aged = False
    for i, (op, out) in enumerate(zip(ops, outs)):
        t = op.split(" ")
        if out.startswith("panic"):
            bad.append((i, f"dcmap:panic:{t[0]}", f"{op[:160]} panicked: {out}"))
            cur = None
            continue
        if t[0] == "reset":
            cur, peers, aged = None, [], False
            continue
        if not out.startswith("ok"):
            continue
        if t[0] == "init":
            evict = int(t[1])
            peers = [] if t[2] == "-" else [int(x.split(":")[0]) for x in t[2].split(",")]
            aged = False
            cur = parse_digest(out[3:])
            # handshakes: every entry in ids, the last entry per peer is the current one
            for k, p in enumerate(peers):
                last = max(j for j, q in enumerate(peers) if q == p)
                want = (1, 1 if last == k else 0, 0, 0)
                if cur["entries"].get(k) != want:
                    bad.append((i, "dcmap:handshake-state", f"{op}: entry {k} expected {want}, got {cur['entries'].get(k)}"))
            continue
        if t[0] == "age":
            aged = True
            continue
        if t[0] == "state":
            d = parse_digest(out[3:])
            if cur is not None and d != cur:
                bad.append((i, "dcmap:state-moved-without-packet", f"digest changed between ops: {cur} -> {d}"))
            cur = d
            continue
        if t[0] in ("next", "seen"):
            cur = None       # local operations legitimately move the digest; resync at the next digest
            continue
        if "|" not in out:
            continue
        head, dig = out.split("|", 1)
        after = parse_digest(dig)
        before = cur
        cur = after
        if before is None:
            continue
        ev = ""
        m = re.search(r"ev=(\S+)", head)
        if m:
            ev = m.group(1)
        accepted = "-accepted" in ev
        if t[0] == "forge" and " same " in out + " ":
            if after != before:
                bad.append((i, "dcmap:state-moved-without-packet", f"{op}: {before} -> {after}"))
            continue
        if t[0] in ("forge", "cross", "alien", "raw"):
            kind = t[2] if t[0] != "raw" else "raw"
            suffix = ""
            if t[0] == "forge" and kind == "ups":
                qid = None if t[4] == "-" else int(t[4])
                pos, total = fields("ups", qid, 0)
                idxs = [int(mm[1:].split(":")[0]) % total for mm in t[6].split(",")]
                if qid is not None and all(pos["qid"][0] <= j < pos["qid"][1] for j in idxs):
                    suffix = ":ups-queue-id"
            if after != before:
                for sig in classify(before, after, kind, suffix):
                    bad.append((i, sig, f"{op[:200]}: a datagram nobody sealed changed the map: {before} -> {after} (events {ev})"))
            elif accepted:
                bad.append((i, f"dcmap:forged-accepted:{SIGK.get(kind, kind)}{suffix}", f"{op[:200]}: reported accepted: {ev}"))
            continue
        if t[0] == "genuine":
            kind, k, v = t[2], int(t[3]), int(t[5])
            b = before["entries"].get(k)
            if b is None:
                continue
            if not b[0]:
                # the entry was evicted earlier: the packet must be dropped without effect
                if after != before or accepted:
                    bad.append((i, f"dcmap:forged-changed-state:{SIGK[kind]}", f"{op}: packet for an evicted entry had an effect: {before} -> {after}"))
                continue
            if f"{kind}-accepted:e{k}" not in ev:
                bad.append((i, f"dcmap:genuine-rejected:{SIGK[kind]}", f"{op}: genuine packet for live entry {k} not accepted: {out[:200]}"))
                continue
            exp = {"entries": dict(before["entries"]), "secrets": before["secrets"], "peers": before["peers"], "hs": before["hs"]}
            peer = f"p{peers[k]}" if k < len(peers) else "p?"
            if kind == "stale":
                exp["entries"][k] = (b[0], b[1], max(b[2], v), b[3])
            else:
                exp["hs"] = peer if before["hs"] == "-" else before["hs"] + "," + peer
                if kind == "ups" and evict and aged:
                    exp["entries"][k] = (0, 0, b[2], b[3])
                    exp["secrets"] = str(int(before["secrets"]) - 1)
                    exp["peers"] = str(int(before["peers"]) - (1 if b[1] else 0))
            if after != exp:
                sig = {"stale": "dcmap:stale-not-fetch-max", "replay": "dcmap:replay-effect", "ups": "dcmap:ups-evict-policy"}[kind]
                bad.append((i, sig, f"{op}: expected {exp}, implementation gave {after} (evict={evict} aged={aged})"))
    return bad


def nontrivial(op, out):
    t = op.split(" ")
    if t[0] in ("forge", "genuine", "cross", "alien", "raw") and out.startswith("ok handled"):
        return op[:200]
    return None
