"""ops + python oracle for the `ivset` component (vh-core `IntervalSet<u64>` / Lean `ivset` driver).

The oracle is a plain python `set` of elements per interval set (A = current, B = operand) plus
the limit. It never looks at interval lists to decide membership; "number of intervals" is the
number of maximal runs of consecutive elements. Rules stated independently of the Rust code:

  * after every op the printed interval list is NORMALIZED (lo<=hi, ascending, disjoint, and not
    adjacent: prev.hi + 1 < next.lo) and denotes exactly the reference set;
  * `ins` fails with `limit` iff the set is non-empty, the insertion would create an additional run
    and the set already holds >= limit runs; a failed op leaves the set unchanged;
  * `rm` fails with `limit` iff the removal would split a run and limit <= runs + 1
    (NOTE: the code refuses a split that would end at exactly `limit` intervals, while `ins` may
    reach `limit`; this conservative asymmetry is accepted here and counted as `rm-split-at-limit`);
  * `union`/`diff` apply B's runs in ascending order and stop at the first failing run;
  * `inter` never fails and ignores the limit.

All generated values are small offsets from a base (0, 1000, 2^62-ish, u64::MAX-15) so overlaps,
adjacency (end+1 == start), nesting, splits and limit hits are the norm.
"""
import itertools

U64 = 2**64 - 1
LIMITS = [1, 2, 3, 5, 10, None]


# ------------------------------------------------------------------------------------------
# reference

def runs_of(s):
    """maximal runs of consecutive elements of a python set, ascending [(lo,hi)]"""
    out = []
    for x in sorted(s):
        if out and out[-1][1] + 1 == x:
            out[-1][1] = x
        else:
            out.append([x, x])
    return [tuple(r) for r in out]


def nruns(s):
    return sum(1 for x in s if x - 1 not in s)


def fmt_ivs(rs):
    return ",".join(f"{a}-{b}" for a, b in rs) if rs else "-"


def parse_ivs(tok):
    if tok == "-":
        return []
    out = []
    for p in tok.split(","):
        a, b = p.split("-")
        out.append((int(a), int(b)))
    return out


def normalized(ivs):
    prev = None
    for a, b in ivs:
        if a > b:
            return False
        if prev is not None and not (prev + 1 < a):
            return False
        prev = b
    return True


def elems(ivs):
    s = set()
    for a, b in ivs:
        if b - a > 100000:
            raise ValueError("interval too large for the element oracle")
        s.update(range(a, b + 1))
    return s


class Ref:
    """the two reference sets"""

    def __init__(self):
        self.a = set()
        self.la = None
        self.b = set()
        self.lb = None

    def _ins(self, lo, hi):
        if lo > hi:
            return "invalid"
        s = self.a
        if hi - lo > 100000:
            raise ValueError('interval too large for the element oracle')
        new = s | set(range(lo, hi + 1))
        if s and nruns(new) > nruns(s) and self.la is not None and nruns(s) >= self.la:
            return "limit"
        self.a = new
        return "ok"

    def _rm(self, lo, hi):
        if lo > hi:
            return "invalid"
        s = self.a
        if not s:
            return "ok"
        new = {x for x in s if not lo <= x <= hi}
        if nruns(new) > nruns(s) and self.la is not None and not (self.la > nruns(s) + 1):
            return "limit"
        self.a = new
        return "ok"

    def step(self, t):
        """returns the expected result token (None = op outside the domain)"""
        op = t[0]
        if op == "new":
            self.a = set()
            self.la = None if t[1] == "none" else int(t[1])
            return "-"
        if op == "limit":
            self.la = int(t[1])
            return "-"
        if op == "nolimit":
            self.la = None
            return "-"
        if op in ("ins", "insf"):
            return self._ins(int(t[1]), int(t[2]))
        if op == "insr":
            lo, hx = int(t[1]), int(t[2])
            return "invalid" if hx == 0 else self._ins(lo, hx - 1)
        if op == "insv":
            return self._ins(int(t[1]), int(t[1]))
        if op == "rm":
            return self._rm(int(t[1]), int(t[2]))
        if op == "rmr":
            lo, hx = int(t[1]), int(t[2])
            return "invalid" if hx == 0 else self._rm(lo, hx - 1)
        if op == "rmv":
            return self._rm(int(t[1]), int(t[1]))
        if op == "has":
            return "1" if int(t[1]) in self.a else "0"
        if op == "pop":
            r = runs_of(self.a)
            if not r:
                return "none"
            self.a -= set(range(r[0][0], r[0][1] + 1))
            return f"{r[0][0]}-{r[0][1]}"
        if op == "min":
            return str(min(self.a)) if self.a else "none"
        if op == "max":
            return str(max(self.a)) if self.a else "none"
        if op == "count":
            return str(len(self.a))
        if op == "len":
            return str(nruns(self.a))
        if op == "empty":
            return "1" if not self.a else "0"
        if op == "clear":
            self.a = set()
            return "-"
        if op == "iter":
            v = sorted(self.a)[:64]
            return ",".join(map(str, v)) if v else "-"
        if op == "riter":
            v = sorted(self.a, reverse=True)[:64]
            return ",".join(map(str, v)) if v else "-"
        if op == "swap":
            self.a, self.b = self.b, self.a
            self.la, self.lb = self.lb, self.la
            return "-"
        if op == "union":
            if not self.a:
                self.a = set(self.b)
                return "ok"
            for lo, hi in runs_of(self.b):
                if self._ins(lo, hi) != "ok":
                    return "limit"
            return "ok"
        if op == "diff":
            if not self.a:
                return "ok"
            for lo, hi in runs_of(self.b):
                if self._rm(lo, hi) != "ok":
                    return "limit"
            return "ok"
        if op == "inter":
            self.a = self.a & self.b
            return "ok"
        if op == "interiter":
            return fmt_ivs(runs_of(self.a & self.b))
        return None


# ------------------------------------------------------------------------------------------
# oracle on the implementation's outputs

def oracle(ops, outs):
    bad = []
    ref = Ref()
    dead = False     # after a panic the harness restarts the component: resync at the next reset
    for i, (op, out) in enumerate(zip(ops, outs)):
        t = op.split()
        if t == ["reset"]:
            ref = Ref()
            dead = False
            continue
        o = out.split()
        if o and o[0] == "panic":
            bad.append((i, f"ivset:panic:{t[0]}", f"ivset `{op}` panicked: {out}"))
            dead = True
            continue
        if dead:
            continue
        before = set(ref.a)
        try:
            exp = ref.step(t)
        except (ValueError, IndexError):
            exp = None
        if exp is None:
            if out != "bad-op":
                bad.append((i, "ivset:bad-op-accepted", f"`{op}` is outside the domain but gave {out}"))
            continue
        if len(o) != 3 or o[0] != "ok":
            bad.append((i, f"ivset:malformed:{t[0]}", f"`{op}` -> {out}"))
            dead = True
            continue
        try:
            ivs = parse_ivs(o[2])
            got = elems(ivs)
        except ValueError:
            bad.append((i, f"ivset:malformed:{t[0]}", f"`{op}` -> {out}"))
            dead = True
            continue
        if not normalized(ivs):
            bad.append((i, f"ivset:not-normalized:{t[0]}", f"after `{op}` the interval list {o[2]} is not sorted/disjoint/non-adjacent"))
        if o[1] != exp:
            kind = "limit-rule" if "limit" in (o[1], exp) else "result-mismatch"
            bad.append((i, f"ivset:{kind}:{t[0]}", f"`{op}` on {fmt_ivs(runs_of(before))} (limit {ref.la}): reference says {exp}, implementation {o[1]}"))
        if got != ref.a:
            extra = sorted(got - ref.a)[:5]
            missing = sorted(ref.a - got)[:5]
            bad.append((i, f"ivset:content-mismatch:{t[0]}", f"after `{op}` on {fmt_ivs(runs_of(before))}: implementation holds {o[2]}, "
                        f"reference {fmt_ivs(runs_of(ref.a))} (spurious {extra}, missing {missing})"))
            ref.a = got      # resync: report each divergence once
    return bad


def nontrivial(op, out):
    o = out.split()
    if len(o) == 3 and o[0] == "ok" and o[1] not in ("limit", "invalid") and op.split()[0] not in ("new", "limit", "nolimit", "swap"):
        return op + "|" + o[2]
    return None


# ------------------------------------------------------------------------------------------
# generators

def _iv(rng, base, span):
    a = rng.randrange(span)
    c = rng.random()
    if c < 0.35:
        b = a
    elif c < 0.8:
        b = min(span - 1, a + rng.randrange(1, 4))
    else:
        b = rng.randrange(a, span)
    return base + a, base + b


def _history(rng, base, span, limit, k, binary=True):
    ops = [f"new {'none' if limit is None else limit}"]
    for _ in range(k):
        c = rng.random()
        lo, hi = _iv(rng, base, span)
        if c < 0.30:
            ops.append(f"ins {lo} {hi}")
        elif c < 0.36:
            ops.append(f"insv {lo}")
        elif c < 0.40:
            ops.append(f"insr {lo} {hi + 1}" if rng.random() < 0.85 and hi < U64 else f"insr {lo} {rng.choice([0, lo, base])}")
        elif c < 0.44:
            ops.append(f"insf {lo} {hi}")
        elif c < 0.64:
            ops.append(f"rm {lo} {hi}")
        elif c < 0.68:
            ops.append(f"rmv {lo}")
        elif c < 0.71:
            ops.append(f"rmr {lo} {hi + 1}" if rng.random() < 0.85 and hi < U64 else f"rmr {lo} {rng.choice([0, lo])}")
        elif c < 0.74:
            ops.append("pop")
        elif c < 0.80:
            ops.append(f"has {base + rng.randrange(span)}")
        elif c < 0.86:
            ops.append(rng.choice(["min", "max", "count", "len", "empty", "iter", "riter"]))
        elif c < 0.88:
            ops.append(f"ins {hi} {lo}" if lo != hi else (f"rm {hi + 1} {lo}" if hi < U64 else f"rm {hi} {lo - 1}"))       # invalid interval
        elif c < 0.90:
            ops.append(rng.choice(["nolimit", f"limit {rng.choice([1, 2, 3, 5])}", "clear"]))
        elif binary and c < 0.94:
            ops.append("swap")
            if rng.random() < 0.5:
                ops.append(f"new {'none' if rng.random() < 0.5 else rng.choice([1, 2, 3, 5])}")
        elif binary:
            ops.append(rng.choice(["union", "diff", "inter", "interiter", "interiter"]))
        else:
            ops.append(f"ins {lo} {hi}")
    ops.append("reset")
    return ops


def _big_history(rng, base, k):
    """>= 16 intervals so that `index_for` takes the binary-search path"""
    ops = [f"new {rng.choice(['none', 'none', 24, 20, 17])}"]
    n = rng.randrange(17, 26)
    pts = list(range(n))
    rng.shuffle(pts)
    for p in pts:
        ops.append(f"ins {base + 4 * p} {base + 4 * p + rng.randrange(0, 2)}")
    span = 4 * n + 3
    for _ in range(k):
        c = rng.random()
        lo = base + rng.randrange(span)
        hi = lo + rng.choice([0, 0, 1, 2, 3, 5, 9, 17])
        if c < 0.35:
            ops.append(f"ins {lo} {hi}")
        elif c < 0.65:
            ops.append(f"rm {lo} {hi}")
        elif c < 0.85:
            ops.append(f"has {lo}")
        elif c < 0.9:
            ops.append("len")
        else:
            # refill so the set stays large
            p = rng.randrange(n)
            ops.append(f"ins {base + 4 * p} {base + 4 * p}")
    ops.append("reset")
    return ops


def _build(s):
    return [f"ins {a} {b}" for a, b in runs_of(s)]


def _subsets(universe):
    for m in range(1 << len(universe)):
        yield frozenset(universe[i] for i in range(len(universe)) if m >> i & 1)


def binary_pairs(rng, universe, n_pairs, limits=(None, 1, 2, 3)):
    """(A, B) pairs of subsets: build both through the API, then every binary operation"""
    subs = list(_subsets(universe))
    ops = []
    pairs = list(itertools.product(subs, subs))
    if n_pairs < len(pairs):
        pairs = rng.sample(pairs, n_pairs)
    for a, b in pairs:
        for bop in ("union", "diff", "inter", "interiter"):
            lim = rng.choice(limits) if bop in ("union", "diff") else None
            ops += ["new none"] + _build(b) + ["swap", "new none"] + _build(a)
            if lim is not None:
                ops.append(f"limit {lim}")
            ops += [bop, "reset"]
    return ops


def closure(limit, universe, extra_ops=()):
    """every (reachable state, op) pair over the op alphabet = all `ins`/`rm`/`insf` of sub-intervals of
    the universe + pop: breadth-first over the reference's states from the empty set until no new
    state appears. The implementation's complete state (limit + interval list) is printed and compared
    with the reference after every op, so (absent a reported violation) the explored graph IS the
    implementation's state graph: every op sequence of ANY length over this alphabet is covered."""
    alphabet = []
    for a in universe:
        for b in universe:
            if a <= b:
                alphabet += [f"ins {a} {b}", f"rm {a} {b}", f"insf {a} {b}"]
    alphabet += ["pop"] + list(extra_ops)
    start = frozenset()
    path = {start: []}
    queue = [start]
    ops = []
    head = f"new {'none' if limit is None else limit}"
    while queue:
        nxt = []
        for s in queue:
            for op in alphabet:
                r = Ref()
                r.la = limit
                r.a = set(s)
                r.step(op.split())
                ops += [head] + path[s] + [op, "reset"]
                ns = frozenset(r.a)
                if ns not in path:
                    path[ns] = path[s] + [op]
                    nxt.append(ns)
        queue = nxt
    return ops, len(path)


def gen(rng, n, tier):
    ops = []
    # corpus: documented examples + the asymmetry + boundary values
    ops += ["new 1", "ins 0 3", "ins 12 15", "ins 4 11", "ins 12 15", "reset",
            "new 2", "ins 1 9", "rm 5 5", "limit 3", "rm 5 5", "reset",
            "new none", f"ins {U64 - 3} {U64}", f"ins {U64 - 7} {U64 - 5}", f"rm {U64 - 1} {U64 - 1}", f"insr {U64 - 4} {U64}",
            f"rm {U64} {U64}", "count", "riter", "swap", f"ins {U64 - 6} {U64 - 1}", "swap", "inter", "interiter", "reset",
            "new none", "ins 0 0", "rm 0 0", "insr 0 0", "rmr 5 0", "ins 0 5", "rm 0 2", "min", "reset"]
    # small exhaustive closure (all states over a 5-value universe) even in the quick tier
    for lim in (None, 1, 2, 3):
        o, _ = closure(lim, list(range(5)))
        ops += o
    if tier == "thorough":
        for lim in (None, 1, 2, 3, 5):
            o, _ = closure(lim, list(range(10)))
            ops += o
        ops += binary_pairs(rng, list(range(7)), 1 << 14)
    else:
        ops += binary_pairs(rng, list(range(6)), 1500)
    bases = [0, 0, 0, 1000, 2**62 - 6, U64 - 13]
    target = len(ops) + n
    while len(ops) < target:
        c = rng.random()
        if c < 0.12:
            ops += _big_history(rng, rng.choice([0, 1000]), rng.randrange(10, 40))
        else:
            base = rng.choice(bases)
            span = rng.choice([6, 8, 10, 12, 14])
            ops += _history(rng, base, span, rng.choice(LIMITS), rng.randrange(3, 40))
    return ops
