"""ops for the `mtu` component (vh-core: real s2n_quic_core::path::mtu::Controller) / Lean `mtu` driver.
Stateful: histories are separated by `reset`. The generator keeps a rough private guess of plpmtu/probed size only
to aim sizes at the boundaries; verdicts never depend on it."""
import math

S60 = 60 * 10**6
S600 = 600 * 10**6
MIN = 1228


def _cfg(rng):
    c = rng.random()
    if c < 0.12:
        return ("-", "-", "-")
    if c < 0.22:   # boundary / invalid
        v = lambda: rng.choice([0, 1, 1199, 1200, 1227, 1228, 1229, 1480, 1481, 1500, 1501, 9000, 65535])
        return tuple(rng.choice(["-", str(v())]) for _ in range(3))
    base = rng.choice([1228, 1228, 1228, 1229, 1248, 1268, 1300, 1400, 1480, 1500, rng.randrange(1228, 2000)])
    mx = rng.choice([1500, 1500, 1520, 1540, 1600, 9000, 9001, 9216, 65535, rng.randrange(1228, 65536), base, base + 19 + 28, base + 40])
    mx = min(max(mx, 0), 65535)
    ini = rng.choice([base, base, base + 1, 1480, 1481, 1500, mx, rng.randrange(1228, 3000)])
    if rng.random() < 0.85:
        ini = min(max(ini, base), max(mx, base))
    return (rng.choice([str(base)] * 6 + ["-"]), rng.choice([str(ini)] * 6 + ["-"]), rng.choice([str(mx)] * 8 + ["-"]))


def _history(rng, ops, length):
    b, i, m = _cfg(rng)
    v6 = rng.randrange(2)
    ops.append(f"new {b} {i} {m} {v6}")
    hdr = 8 + (40 if v6 else 20)
    bb = int(b) if b != "-" else MIN
    mm = int(m) if m != "-" else 1500
    ii = int(i) if i != "-" else min(max(MIN, bb), mm)
    base = max(bb - hdr, 1200)
    maxudp = max(mm - hdr, 1200)
    pl = max(ii - hdr, 1200)           # guess
    probed = min(1500 - hdr, maxudp)   # guess
    mp = maxudp
    now = rng.randrange(1, 10**7)
    pn = rng.randrange(0, 50)
    probe = None
    txt = now
    losses = 0
    if rng.random() < 0.8:
        ops.append("enable")
    for _ in range(length):
        now += rng.choice([1, 1, 1000, 25000, 10**6, 10**6, 5 * 10**6])
        c = rng.random()
        sizes = [base, base + 1, base - 1, pl, pl + 1, pl - 1, probed, 1200, 1201, maxudp, 65535, 0,
                 rng.randrange(0, 65536), rng.randrange(base, max(pl, base) + 1)]
        if c < 0.22:
            pn += rng.randrange(1, 4)
            cap = rng.choice([10**6] * 8 + [probed, max(probed - 1, 0), probed + 1, 1200, 0])
            fail = 1 if rng.random() < 0.06 else 0
            ops.append(f"tx {pn} {now} {cap} {fail}")
            if not fail and cap >= probed:
                probe, txt = pn, now
        elif c < 0.40 and probe is not None:
            # resolve the outstanding probe
            if rng.random() < 0.5:
                ops.append(f"ack {probe} {rng.choice([probed, probed, 1, pl])} 2")
                pl = probed
                probed = pl + (mp - pl) // 2
                losses = 0
            else:
                ops.append(f"loss {probe} {rng.choice([probed, probed, 1])} {rng.randrange(2)} {now} 2")
                losses += 1
                if losses >= 3:
                    mp, losses = probed, 0
                    probed = pl + (mp - pl) // 2
            if rng.random() < 0.7:
                probe = None
        elif c < 0.62:
            pn += rng.randrange(0, 3)
            q = rng.choice([pn, pn, pn, rng.randrange(0, pn + 2), probe if probe is not None else pn])
            sp = rng.choice([2] * 8 + [0, 1])
            by = rng.choice([base + 1, pl, pl, rng.choice(sizes), rng.randrange(base, max(pl, base) + 1)])
            ops.append(f"loss {q} {min(max(by, 0), 65535)} {rng.choice([1, 1, 1, 0])} {now} {sp}")
        elif c < 0.80:
            q = rng.choice([pn, rng.randrange(0, pn + 2), pn + 1])
            sp = rng.choice([2] * 8 + [0, 1])
            by = rng.choice(sizes)
            ops.append(f"ack {q} {min(max(by, 0), 65535)} {sp}")
        elif c < 0.93:
            t = rng.choice([now, txt + S600, txt + S600 - 1000, txt + S600 - 999, txt + S600 - 1001, now + S60, now + S60 - 1000,
                            now + S600, now - S60 if now > S60 else now])
            ops.append(f"timeout {t}")
            if t > now:
                now = t
        else:
            ops.append("enable")


def _blackhole(rng, ops):
    """directed: confirm a larger MTU, then lose BLACK_HOLE_THRESHOLD+1 bursts of big packets"""
    v6 = rng.randrange(2)
    mx = rng.choice([1500, 9000, 4000])
    ops.append(f"new 1228 {rng.choice([1228, 1400])} {mx} {v6}")
    ops.append("enable")
    now = 1000
    pn = 10
    hdr = 8 + (40 if v6 else 20)
    probed = min(1500 - hdr, mx - hdr)
    for _ in range(rng.randrange(1, 3)):
        pn += 1
        now += 1000
        ops.append(f"tx {pn} {now} 100000 0")
        ops.append(f"ack {pn} {probed} 2")
    k = rng.randrange(2, 7)
    for j in range(k):
        pn += 1
        now += 1000
        by = rng.choice([1201, 1300, probed, probed + 1, 1200])
        ops.append(f"loss {pn} {by} {rng.choice([1, 1, 1, 1, 0])} {now} 2")
        if rng.random() < 0.15:
            ops.append(f"ack {pn + 1} {rng.choice([probed, 1200])} 2")
    ops.append(f"timeout {now + S60}")
    ops.append(f"tx {pn + 5} {now + S60} 100000 0")
    ops.append(f"ack {pn + 5} 1200 2")


def gen(rng, n, tier):
    ops = []
    first = True
    while len(ops) < n:
        if not first:
            ops.append("reset")
        first = False
        if rng.random() < 0.2:
            _blackhole(rng, ops)
        else:
            _history(rng, ops, rng.choice([8, 20, 40, 80]))
    return ops


# ------------------------------------------------------------------ oracle (implementation outputs only)
class _S:
    __slots__ = ("res", "state", "base", "pl", "probed", "mp", "maxudp", "pc", "bh", "la", "timer", "need", "mtu")


def _parse(out):
    o = out.split()
    if len(o) != 14 or o[0] != "ok":
        return None
    s = _S()
    s.res, s.state = o[1], o[2]
    s.base, s.pl, s.probed, s.mp, s.maxudp, s.pc, s.bh = (int(x) for x in o[3:10])
    s.la = None if o[10] == "-" else int(o[10])
    s.timer = None if o[11] == "-" else int(o[11])
    s.need, s.mtu = int(o[12]), int(o[13])
    return s


def _new_expect(t):
    """Config validation spec: every configured value >= 1228, base <= initial <= max after defaults."""
    vals = [None if x == "-" else int(x) for x in t[1:4]]
    if any(v is not None and v < MIN for v in vals):
        return None
    b = vals[0] if vals[0] is not None else MIN
    m = vals[2] if vals[2] is not None else 1500
    i = vals[1] if vals[1] is not None else min(max(MIN, b), m)
    if not (b <= i <= m):
        return None
    return (b, i, m)


def oracle(ops, outs):
    bad = []
    prev = None          # parsed previous state of this history
    cfg = None
    probes = 0           # probes sent in the current search round
    for idx, (op, out) in enumerate(zip(ops, outs)):
        t = op.split()
        if out.startswith("panic"):
            bad.append((idx, f"mtu:panic:{t[0]}", f"{op} panicked: {out}"))
            prev = None
            continue
        if t[0] == "reset":
            prev, cfg = None, None
            continue
        if out == "bad-op":
            continue
        if t[0] == "new":
            exp = _new_expect(t)
            prev = None
            probes = 0
            if exp is None:
                if not out.startswith("err"):
                    bad.append((idx, "mtu:config:invalid-accepted", f"{op} -> {out}"))
                continue
            if out.startswith("err"):
                bad.append((idx, "mtu:config:valid-rejected", f"{op} -> {out}"))
                continue
            cfg = (exp, int(t[4]))
        s = _parse(out)
        if s is None:
            bad.append((idx, "mtu:output-shape", f"{op} -> {out}"))
            prev = None
            continue
        (b, i, m), v6 = cfg
        hdr = 8 + (40 if v6 else 20)
        # ---- invariant 1
        if not (1200 <= s.base <= s.pl <= s.probed <= s.mp <= s.maxudp):
            bad.append((idx, "mtu:inv:ordering", f"{op}: base<=plpmtu<=probed<=max_probe<=max_udp violated: {out}"))
        if s.maxudp != max(m - hdr, 1200) or s.base != max(b - hdr, 1200):
            bad.append((idx, "mtu:inv:bounds-from-config", f"{op}: base/max payload not derived from config {cfg}: {out}"))
        if s.mtu != s.pl:
            bad.append((idx, "mtu:inv:mtu-accessor", f"{op}: {out}"))
        searching = s.state.startswith("Searching:")
        if (searching or s.state == "SearchRequested") and not (s.probed - s.pl >= 20):
            bad.append((idx, "mtu:inv:probe-not-above-threshold", f"{op}: {out}"))
        if s.pc > 3 or s.bh > 3:
            bad.append((idx, "mtu:inv:counter-range", f"{op}: {out}"))
        if s.need != (1 if s.state == "SearchRequested" else 0):
            bad.append((idx, "mtu:inv:probe-needed", f"{op}: {out}"))
        if s.timer is not None and s.state != "SearchComplete":
            bad.append((idx, "mtu:inv:timer-outside-complete", f"{op}: {out}"))
        if t[0] == "new":
            if s.pl != max(i - hdr, 1200):
                bad.append((idx, "mtu:new:initial", f"{op}: {out}"))
            prev = s
            continue
        p = prev
        prev = s
        if p is None:
            continue
        # ---- search terminates: bounded number of probes per round
        if t[0] in ("enable", "timeout") and p.state != s.state and s.state == "SearchRequested":
            probes = 0
        if t[0] == "tx" and searching and not p.state.startswith("Searching:"):
            probes += 1
            bound = 3 * (math.ceil(math.log2(max(s.maxudp - 1200, 2))) + 2)
            if probes > bound:
                bad.append((idx, "mtu:search:too-many-probes", f"{op}: {probes} probes in one round (> {bound})"))
            if not (p.pl + 20 <= s.probed <= p.mp <= s.maxudp):
                bad.append((idx, "mtu:search:probe-size", f"{op}: {out}"))
        # ---- plpmtu changes only by a probe ack (to the probed size) or a fall back to base
        p_probe = int(p.state.split(":")[1]) if p.state.startswith("Searching:") else None
        if s.pl != p.pl:
            ok = False
            if t[0] == "ack" and t[3] == "2" and p_probe is not None and int(t[1]) == p_probe and s.pl == p.probed:
                ok = True
            if t[0] == "loss" and s.pl == s.base and s.res.startswith(f"upd:{s.base}/"):
                ok = True
            if not ok:
                bad.append((idx, f"mtu:change:unexpected:{t[0]}", f"{op}: plpmtu {p.pl} -> {s.pl}: {out}"))
        if s.res.startswith("upd:") and s.res != f"upd:{s.pl}/1":
            bad.append((idx, "mtu:result:mismatch", f"{op}: {out}"))
        if s.res.startswith("nc") and (s.res != "nc/0" or s.pl != p.pl):
            bad.append((idx, "mtu:result:nochange-but-changed", f"{op}: {out}"))
        if t[0] == "ack" and p_probe is not None and t[3] == "2" and int(t[1]) == p_probe:
            if s.pl != p.probed or not s.res.startswith("upd:"):
                bad.append((idx, "mtu:ack:probe-not-confirmed", f"{op}: {out}"))
            if s.state == "SearchComplete" and s.timer is not None:
                txt = int(p.state.split(":")[2])
                if s.timer != txt + S600:
                    bad.append((idx, "mtu:timer:raise-duration", f"{op}: timer {s.timer} expected {txt + S600}"))
        if t[0] == "loss":
            pn, by, burst, now, sp = int(t[1]), int(t[2]), t[3] == "1", int(t[4]), t[5]
            if p.state == "EarlySearchRequested":
                pass
            elif sp != "2" or p.state == "Disabled":
                if (s.state, s.pl, s.mp, s.bh, s.pc) != (p.state, p.pl, p.mp, p.bh, p.pc):
                    bad.append((idx, "mtu:loss:ignored-space-changed-state", f"{op}: {out}"))
            elif p_probe is not None and pn == p_probe:
                # ---- 4: a lost probe never changes plpmtu, may only lower max_probe_size
                if s.pl != p.pl or s.mp > p.mp or s.bh != p.bh:
                    bad.append((idx, "mtu:probe-loss:changed-mtu", f"{op}: {out}"))
                if p.pc < 3 and (s.state != "SearchRequested" or s.mp != p.mp or s.probed != p.probed or s.pc != p.pc):
                    bad.append((idx, "mtu:probe-loss:retry", f"{op}: {out}"))
                if p.pc == 3 and (s.mp != p.probed or s.state not in ("SearchRequested", "SearchComplete")):
                    bad.append((idx, "mtu:probe-loss:max-probes", f"{op}: {out}"))
            else:
                # ---- 3: black hole detector
                counts = (p.base < by <= p.pl) and burst and (p.la is None or pn > p.la)
                if not counts:
                    if (s.state, s.pl, s.bh, s.mp) != (p.state, p.pl, p.bh, p.mp):
                        bad.append((idx, "mtu:blackhole:non-qualifying-loss-changed-state",
                                    f"{op}: before bh={p.bh} plpmtu={p.pl}: {out}"))
                elif p.bh < 3:
                    if s.bh != p.bh + 1 or s.pl != p.pl or s.state != p.state:
                        bad.append((idx, "mtu:blackhole:count", f"{op}: before bh={p.bh}: {out}"))
                else:
                    if not (s.pl == s.base and s.state == "SearchComplete" and s.bh == 0 and s.la is None
                            and s.res == f"upd:{s.base}/1" and s.mp == s.maxudp):
                        bad.append((idx, "mtu:blackhole:no-fallback", f"{op}: before bh={p.bh}: {out}"))
                    if s.timer is not None and s.timer != now + S60:
                        bad.append((idx, "mtu:timer:cool-off-duration", f"{op}: timer {s.timer} expected {now + S60}"))
                    if (s.timer is not None) != (s.probed - s.pl >= 20):
                        bad.append((idx, "mtu:timer:cool-off-armed", f"{op}: {out}"))
        if t[0] == "ack" and t[3] == "2" and p.state not in ("Disabled",):
            pn, by = int(t[1]), int(t[2])
            early_exit = p.state == "EarlySearchRequested" and by > p.base
            if not early_exit and by >= p.pl and (p.la is None or pn > p.la):
                if s.bh != 0 or s.la != pn:
                    bad.append((idx, "mtu:ack:black-hole-counter-not-reset", f"{op}: {out}"))
        if t[0] == "timeout" and p.timer is not None:
            now = int(t[1])
            fired = p.timer < now + 1000
            if fired != (s.timer is None):
                bad.append((idx, "mtu:timer:expiry", f"{op}: timer {p.timer}: {out}"))
    return bad


def nontrivial(op, out):
    o = out.split()
    if not o or o[0] != "ok" or len(o) < 3:
        return None
    st = o[2].split(":")[0]
    return f"{op.split()[0]}|{st}|{o[1].split(':')[0].split('/')[0]}|bh{o[9]}|pc{o[8]}"
