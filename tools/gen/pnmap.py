"""ops for the `pnmap` component (vh-core) / Lean `pnmap` driver (packet::number::Map ring buffer).

Histories are separated by `reset`. Inserts follow the precondition the callers satisfy (strictly
increasing packet numbers; `insert_or_update` never below the current start) with gaps at the
capacity edges (7, 8, 9, 15, 16, 17 …) so that the ring wraps and resizes; removals and ranges sit
at the edges of the contained range (start, end, start±1, end±1, holes, covering, outside).
A small share of inserts violates the precondition on purpose: the debug assertion must fire
(`panic`, which restarts the component on both sides).

The python oracle is a plain dict evaluated on the *implementation's* outputs: after every
operation the full printed content (iter, is_empty, get_range) and every returned value must be
what the dict says.
"""
import itertools

MAXPN = 2**62 - 1
BASES = [0, 0, 0, 1, 5, 7, 8, 1000, 2**32 - 3, MAXPN - 400]
STEPS = [1] * 12 + [2, 2, 3, 4, 6, 7, 8, 9, 15, 16, 17, 31, 32, 33, 100]
EXH_LEN = {"quick": 3, "thorough": 5}
# alphabet of the exhaustive part: I = insert current pn (value = pn+1) and advance, S = skip one pn,
# J6/J8 = skip 6/8 pns (ring wrap / resize), U = insert_or_update of the last inserted pn,
# V = insert_or_update of current pn (and advance), R<k> = remove k, X<a>-<b> = remove_range, C = clear
EXH_ALPHABET = ["I", "S", "J6", "J8", "U", "V", "R0", "R1", "R2", "X0-1", "X1-2", "X2-20", "C"]


def clamp(v):
    return max(0, min(MAXPN, v))


class Ref:
    """generator-side bookkeeping only (to aim at the edges)"""

    def __init__(self):
        self.d = {}

    def lo(self):
        return min(self.d) if self.d else None

    def hi(self):
        return max(self.d) if self.d else None


def edge_point(rng, ref, cur):
    if not ref.d:
        return clamp(cur + rng.choice([-1, 0, 1]))
    lo, hi = ref.lo(), ref.hi()
    c = rng.random()
    if c < 0.22:
        return lo
    if c < 0.44:
        return hi
    if c < 0.52:
        return clamp(lo - rng.choice([1, 1, 2, 9]))
    if c < 0.60:
        return clamp(hi + rng.choice([1, 1, 2, 9]))
    if c < 0.70:
        return clamp(lo + 1)
    if c < 0.80:
        return clamp(hi - 1)
    if c < 0.92:
        return rng.choice(sorted(ref.d))
    return rng.randrange(lo, hi + 1)


def history(rng, length):
    ops = []
    ref = Ref()
    cur = clamp(rng.choice(BASES))
    style = rng.random()   # < 0.3: sliding (insert at the back, remove at the front), else mixed
    for _ in range(length):
        c = rng.random()
        if cur >= MAXPN - 200:
            break
        if c < (0.50 if style >= 0.3 else 0.55):
            if rng.random() < 0.04 and ref.d:
                # precondition violation: not above the current end
                pn = clamp(ref.hi() - rng.choice([0, 0, 1, 3]))
                ops.append(f"insert {pn} {rng.randrange(1000)}")
                ref = Ref()
                continue
            if ref.d:
                cur = max(cur, ref.hi() + 1)
            cur += rng.choice(STEPS) - 1
            v = rng.randrange(1000)
            if rng.random() < 0.2:
                ops.append(f"upd {cur} {v}")
            else:
                ops.append(f"insert {cur} {v}")
            ref.d[cur] = v
            cur += 1
        elif c < 0.58:
            # insert_or_update inside the range: existing entry, hole, or (rarely) below start
            if ref.d and rng.random() < 0.05 and ref.lo() > 0:
                ops.append(f"upd {ref.lo() - 1} 7")
                ref = Ref()
                continue
            pn = edge_point(rng, ref, cur)
            if ref.d and pn < ref.lo():
                pn = ref.lo()
            v = rng.randrange(1000)
            if ref.d and pn > ref.lo() + 60000:
                continue
            ops.append(f"upd {pn} {v}")
            ref.d[pn] = v
            cur = max(cur, pn + 1)
        elif c < (0.78 if style >= 0.3 else 0.85):
            if style < 0.3 and ref.d and rng.random() < 0.8:
                pn = ref.lo()
            else:
                pn = edge_point(rng, ref, cur)
            ops.append(f"remove {pn}")
            ref.d.pop(pn, None)
        elif c < 0.92:
            a = edge_point(rng, ref, cur)
            b = edge_point(rng, ref, cur)
            if rng.random() < 0.15:
                b = clamp(a + rng.choice([0, 1, 2**20, MAXPN]))
            if rng.random() < 0.1:
                a = 0
            lo, hi = min(a, b), max(a, b)
            ops.append(f"rmrange {lo} {hi}")
            for k in [k for k in ref.d if lo <= k <= hi]:
                del ref.d[k]
        elif c < 0.96:
            p = edge_point(rng, ref, cur)
            ops.append(f"get {p}")
        elif c < 0.98:
            ops.append(f"mut {rng.randrange(1, 50)}")
            for k in ref.d:
                ref.d[k] += 1   # exact value irrelevant for aiming
        elif c < 0.99:
            ops.append("clear")
            ref = Ref()
        else:
            lo = clamp((ref.lo() if ref.d else cur) - 2)
            ops.append(f"probe {lo} {rng.choice([4, 12, 40])}")
    lo = clamp((ref.lo() if ref.d else cur) - 2)
    span = (ref.hi() - ref.lo() + 5) if ref.d else 4
    ops.append(f"probe {lo} {min(span, 300)}")
    return ops


def exh_ops(seq):
    ops = []
    cur = 0
    last = 0
    for a in seq:
        if a == "I":
            ops.append(f"insert {cur} {cur + 1}")
            last = cur
            cur += 1
        elif a == "S":
            cur += 1
        elif a[0] == "J":
            cur += int(a[1:])
        elif a == "U":
            ops.append(f"upd {last} 5")
        elif a == "V":
            ops.append(f"upd {cur} {cur + 1}")
            last = cur
            cur += 1
        elif a[0] == "R":
            ops.append(f"remove {a[1:]}")
        elif a[0] == "X":
            lo, hi = a[1:].split("-")
            ops.append(f"rmrange {lo} {hi}")
        elif a == "C":
            ops.append("clear")
    return ops


def exhaustive(maxlen):
    """every sequence over EXH_ALPHABET of length exactly maxlen (every shorter sequence is a prefix
    of one of them and its full state dump is compared after each op), closed by a get() probe"""
    ops = []
    for seq in itertools.product(EXH_ALPHABET, repeat=maxlen):
        o = exh_ops(seq)
        if not o:
            continue
        ops.append("reset")
        ops += o
        ops.append("probe 0 24")
    return ops


def exhaustive_info(tier):
    n = EXH_LEN.get(tier, 3)
    return {"alphabet": EXH_ALPHABET, "max_len": n, "sequences": len(EXH_ALPHABET) ** n,
            "what": "all op sequences of length max_len (hence all prefixes) over the alphabet; the full content "
                    "(iter, is_empty, get_range) is compared after every op, get() over 0..23 at the end"}


def gen(rng, n, tier):
    ops = []
    corpus = [
        # the repo's doc example, wrap without resize, resize with a wrapped ring, clear + reuse
        ["insert 0 10", "insert 1 11", "insert 2 12", "insert 3 13", "remove 0", "insert 4 14", "probe 0 8"],
        [f"insert {i} {i}" for i in range(8)] + ["rmrange 0 3"] + [f"insert {i} {i}" for i in range(8, 12)] + ["probe 0 14", "insert 12 12", "probe 0 14", "rmrange 5 11", "remove 12", "remove 4"],
        ["insert 5 1", "insert 12 2", "insert 13 3", "remove 5", "insert 19 4", "insert 20 5", "rmrange 13 19", "rmrange 0 4611686018427387903"],
        [f"insert {i} {i}" for i in range(5)] + ["clear", "insert 100 100", "get 100", "get 3", "clear", "clear"],
        ["upd 3 1", "upd 3 2", "upd 5 3", "upd 4 4", "upd 4 5", "upd 40 6", "remove 3", "upd 4 1", "rmrange 5 39", "rmrange 4 4", "rmrange 40 40"],
        ["insert 4611686018427387902 1", "insert 4611686018427387903 2", "remove 4611686018427387903", "remove 4611686018427387902"],
        ["insert 0 1", "insert 7 2", "insert 8 3", "remove 0", "remove 8", "remove 7", "remove 7"],
        ["insert 1 1", "insert 2 2", "insert 2 3"],
        ["insert 3 1", "upd 2 2"],
    ]
    for c in corpus:
        ops.append("reset")
        ops += c
    while len(ops) < n:
        ops.append("reset")
        ops += history(rng, rng.choice([5, 10, 20, 40, 80]))
    ops += exhaustive(EXH_LEN.get(tier, 3))
    return ops


# ---------------------------------------------------------------------------------------------
# oracle: a plain dict

U64 = 2**64


def parse_entries(s):
    if s == "-":
        return []
    return [tuple(int(x) for x in e.split(":")) for e in s.split(",")]


def parse_opt(s):
    return None if s == "none" else int(s)


def oracle(ops, outs):
    bad = []
    D = {}
    dead = False       # after an unasserted precondition violation the reference is undefined
    for i, (op, out) in enumerate(zip(ops, outs)):
        t = op.split()
        if t[0] == "reset":
            D = {}
            dead = False
            continue
        if out == "bad-op" or dead:
            continue
        pre_ok = True
        if t[0] == "insert":
            pre_ok = (not D) or int(t[1]) > max(D)
        elif t[0] == "upd":
            pre_ok = (not D) or int(t[1]) >= min(D)
        if out.startswith("panic"):
            if pre_ok:
                bad.append((i, f"pnmap:panic:{t[0]}", f"pnmap {op} panicked although the caller precondition holds (content {sorted(D)[:8]}…)"))
            D = {}
            continue
        if not pre_ok:
            # debug assertion did not fire (e.g. release build): nothing to compare against
            dead = True
            continue
        res, _, dump = out.partition(" | ")
        res = res[3:] if res.startswith("ok ") else res
        try:
            if t[0] == "insert":
                D[int(t[1])] = int(t[2])
            elif t[0] == "upd":
                k, v = int(t[1]), int(t[2])
                D[k] = (D[k] * 31 + v) % U64 if k in D else v
            elif t[0] == "get":
                if parse_opt(res) != D.get(int(t[1])):
                    bad.append((i, "pnmap:get-mismatch", f"{op}: dict says {D.get(int(t[1]))}, implementation says {res}"))
            elif t[0] == "probe":
                lo = int(t[1])
                got = [parse_opt(x) for x in res.split(",")]
                want = [D.get(lo + j) for j in range(int(t[2])) if lo + j <= MAXPN]
                if got != want:
                    j = next((j for j, (a, b) in enumerate(zip(got, want)) if a != b), None)
                    bad.append((i, "pnmap:get-mismatch", f"{op}: get({lo + j if j is not None else '?'}) differs from the dict: "
                                   f"{got[j] if j is not None else len(got)} vs {want[j] if j is not None else len(want)}"))
            elif t[0] == "remove":
                want = D.pop(int(t[1]), None)
                if parse_opt(res) != want:
                    bad.append((i, "pnmap:remove-mismatch", f"{op}: dict says {want}, implementation returned {res}"))
            elif t[0] == "rmrange":
                lo, hi = int(t[1]), int(t[2])
                want = sorted((k, v) for k, v in D.items() if lo <= k <= hi)
                for k, _ in want:
                    del D[k]
                if parse_entries(res) != want:
                    bad.append((i, "pnmap:remove-range-mismatch", f"{op}: dict says {want[:6]} ({len(want)}), implementation returned {res[:80]}"))
            elif t[0] == "mut":
                k = int(t[1])
                for key in D:
                    D[key] = (D[key] + k) % U64
                if parse_entries(res) != sorted(D.items()):
                    bad.append((i, "pnmap:iter-mut-mismatch", f"{op}: dict says {sorted(D.items())[:6]}, implementation yielded {res[:80]}"))
            elif t[0] == "clear":
                D = {}
            # full content after the op
            f = dict(x.split("=", 1) for x in dump.split())
            it = parse_entries(f["it"])
            if it != sorted(D.items()):
                extra = [e for e in it if D.get(e[0]) != e[1]]
                missing = [e for e in sorted(D.items()) if e not in it]
                bad.append((i, "pnmap:content-mismatch", f"after {op}: iter() has {len(it)} entries, dict {len(D)}; "
                               f"unexpected {extra[:4]}, missing {missing[:4]}"))
            if (f["e"] == "1") != (not D):
                bad.append((i, "pnmap:is-empty-mismatch", f"after {op}: is_empty()={f['e']} but dict has {len(D)} entries"))
            if D and f["r"] != f"{min(D)}-{max(D)}":
                bad.append((i, "pnmap:range-mismatch", f"after {op}: get_range()={f['r']}, dict spans {min(D)}-{max(D)}"))
        except (ValueError, KeyError, IndexError) as e:
            bad.append((i, "pnmap:unparsable-output", f"{op} -> {out[:100]} ({e})"))
    return bad


def nontrivial(op, out):
    if not out.startswith("ok ") or op == "reset":
        return None
    return (op + ">" + out)[:120]
