"""Generator + oracle for the `open-waiters` component (real `stream::Controller` locally-initiated stream concurrency;
C02: "no interleaving of application calls, packet arrivals and timer expiries leaves an application task parked with
neither an armed timer nor a pending wake-up that will release it").

ops: new <peer_limit> <local_limit> | poll <task> | max <n> | close_stream | close
The generator lets tasks poll whenever they like (a task may be polled because an unrelated future of the same task
woke it — `select!` / `join!`), in particular while they hold a registered waker, and before a just-woken task runs."""

TASKS = 4

# the history of Quic.Proofs.C02.open_waiter_lost_wakeup_counterexample
CORPUS = ["new 1 100", "poll 0", "poll 1", "poll 2", "max 2", "poll 2", "poll 1", "max 3"]


def gen(rng, n, tier):
    lines = list(CORPUS) + ["reset"]
    while len(lines) < n:
        peer = rng.choice([0, 1, 1, 2, 3])
        local = rng.choice([1, 2, 3, 100, 100])
        lines.append(f"new {peer} {local}")
        opened = closed = 0
        limit = peer
        for _ in range(rng.choice([6, 12, 25])):
            x = rng.random()
            if x < 0.55:
                lines.append(f"poll {rng.randrange(TASKS)}")
                cap = min(local - (opened - closed), limit - opened)
                if cap >= 1:
                    opened += 1
            elif x < 0.75:
                limit_new = limit + rng.choice([0, 1, 1, 2])
                lines.append(f"max {limit_new}")
                limit = max(limit, limit_new)
            elif x < 0.97:
                if opened > closed:
                    lines.append("close_stream")
                    closed += 1
                else:
                    lines.append(f"poll {rng.randrange(TASKS)}")
                    cap = min(local - (opened - closed), limit - opened)
                    if cap >= 1:
                        opened += 1
            else:
                lines.append("close")
                break
        lines.append("reset")
    return lines


def nontrivial(op, out):
    if op.startswith("poll") and out.startswith("ok"):
        return op + "|" + out
    if op.split(" ")[0] in ("max", "close_stream") and out.startswith("ok") and out != "ok -":
        return op + "|" + out
    return None


def oracle(ops, outs):
    """evaluated on the IMPLEMENTATION's outputs only.  Per history: a task is WAITING after `ok pending` until its next
    `ok ready`; it has a pending wake-up once a later op reported it woken and it has not polled since.  Violation: after a
    capacity-raising op, a waiting task without a pending wake-up exists although more streams can be opened than there are
    waiting tasks with a pending wake-up (so even after all of those took a stream, one would be left for it).  The signature
    says `stale-slot` when, earlier in the history, a task had been served while its waker was still registered (the known cause:
    its slot keeps absorbing wake-ups and displaces the real waiters), else it is generic."""
    bad = []
    st = None
    for i, (op, out) in enumerate(zip(ops, outs)):
        t = op.split(" ")
        if t == ["reset"]:
            st = None
            continue
        if t[0] == "new" and out == "ok new":
            st = {"peer": int(t[1]), "local": int(t[2]), "opened": 0, "closed": 0, "waiting": set(), "woken": set(), "closed_conn": False, "stale": 0, "stale_ever": False}
            continue
        if st is None or not out.startswith("ok"):
            continue
        if t[0] == "poll":
            task = int(t[1])
            if out == "ok ready":
                st["opened"] += 1
                if task in st["waiting"] and task not in st["woken"]:
                    st["stale"] += 1       # it still has a registered waker: the implementation keeps that slot
                    st["stale_ever"] = True
                st["waiting"].discard(task)
                st["woken"].discard(task)
            else:
                st["waiting"].add(task)
                st["woken"].discard(task)
            continue
        woken = [] if out == "ok -" else [int(x) for x in out[3:].split(",")]
        spurious = [w for w in woken if w not in st["waiting"]]
        stale_before = st["stale"]
        st["stale"] = max(0, st["stale"] - len(spurious))
        if t[0] == "max":
            st["peer"] = max(st["peer"], int(t[1]))
        elif t[0] == "close_stream":
            st["closed"] += 1
        elif t[0] == "close":
            st["closed_conn"] = True
        for w in woken:
            st["woken"].add(w)
        if st["closed_conn"]:
            left = st["waiting"] - st["woken"]
            if left:
                bad.append((i, "c02:open-waiter:not-woken-on-close", f"op {i} `{op}`: tasks {sorted(left)} stay parked after the connection was closed"))
            continue
        cap = min(st["local"] - (st["opened"] - st["closed"]), st["peer"] - st["opened"])
        served = len(st["waiting"] & st["woken"])
        parked = sorted(st["waiting"] - st["woken"])
        if parked and cap > served:
            if spurious or stale_before > 0 or st["stale_ever"]:
                bad.append((i, "c02:open-waiter:lost-wakeup:stale-slot",
                            f"op {i} `{op}` woke tasks {woken}: task(s) {parked} are parked on poll_open_stream with no pending wake-up although "
                            f"{cap} stream(s) can be opened and only {served} waiting task(s) were woken (the wake-up went to / is reserved for the stale "
                            f"waker slot of a task that had already opened its stream)"))
            else:
                bad.append((i, "c02:open-waiter:lost-wakeup",
                            f"op {i} `{op}` woke tasks {woken}: task(s) {parked} are parked on poll_open_stream with no pending wake-up although "
                            f"{cap} stream(s) can be opened and only {served} waiting task(s) were woken"))
    return bad
