"""ops for the `stream_state` component (vh-core: the real s2n_quic_core::stream::state::{Sender, Receiver}) / Lean driver
running the GENERATED machines (QuicModel.Generated.States).

The oracle is RFC 9000 §3.1 (figure 2) / §3.2 (figure 3) written down here as independent python tables and evaluated on the
IMPLEMENTATION's outputs only: every arrow of the figure must be taken, every arrow taken must be in the figure or in the short
list of documented implementation extras, errors leave the state unchanged, terminal states are never left, the rank of the
state strictly increases with every change, no data state after ResetSent/ResetRecvd resp. ResetRecvd/ResetRead."""

S_EVENTS = ["on_send_stream", "on_send_fin", "on_recv_all_acks", "on_queue_reset", "on_send_reset", "on_recv_reset_ack"]
R_EVENTS = ["on_receive_fin", "on_receive_all_data", "on_app_read_all_data", "on_reset", "on_app_read_reset"]
S_STATES = ["Ready", "Send", "DataSent", "DataRecvd", "ResetQueued", "ResetSent", "ResetRecvd"]
R_STATES = ["Recv", "SizeKnown", "DataRecvd", "DataRead", "ResetRecvd", "ResetRead"]

# ---- RFC 9000 figure 2 (sending part of a stream); keys (state, implementation event name of the RFC label)
RFC_SEND = {
    ("Ready", "on_send_stream"): "Send",            # Send STREAM / STREAM_DATA_BLOCKED
    ("Send", "on_send_fin"): "DataSent",            # Send STREAM + FIN
    ("DataSent", "on_recv_all_acks"): "DataRecvd",  # Recv All ACKs
    ("Ready", "on_send_reset"): "ResetSent",        # Send RESET_STREAM
    ("Send", "on_send_reset"): "ResetSent",
    ("DataSent", "on_send_reset"): "ResetSent",
    ("ResetSent", "on_recv_reset_ack"): "ResetRecvd",  # Recv ACK
}
# documented extras of the implementation (send.rs: "we can jump from Ready to DataSent", the additional ResetQueued state)
EXTRA_SEND = {
    ("Ready", "on_send_fin"): "DataSent",
    ("Ready", "on_queue_reset"): "ResetQueued",
    ("Send", "on_queue_reset"): "ResetQueued",
    ("DataSent", "on_queue_reset"): "ResetQueued",
    ("ResetQueued", "on_send_reset"): "ResetSent",
    ("ResetQueued", "on_recv_all_acks"): "DataRecvd",
}
# ---- RFC 9000 figure 3 (receiving part); the two "(optional)" arrows DataRecvd <-> ResetRecvd are allowed but not required
RFC_RECV = {
    ("Recv", "on_receive_fin"): "SizeKnown",
    ("SizeKnown", "on_receive_all_data"): "DataRecvd",
    ("DataRecvd", "on_app_read_all_data"): "DataRead",
    ("Recv", "on_reset"): "ResetRecvd",
    ("SizeKnown", "on_reset"): "ResetRecvd",
    ("ResetRecvd", "on_app_read_reset"): "ResetRead",
}
OPTIONAL_RECV = {("DataRecvd", "on_reset"): "ResetRecvd", ("ResetRecvd", "on_receive_all_data"): "DataRecvd"}
S_TERMINAL = {"DataRecvd", "ResetRecvd"}
R_TERMINAL = {"DataRead", "ResetRead"}
S_RANK = {"Ready": 0, "Send": 1, "DataSent": 2, "ResetQueued": 3, "DataRecvd": 4, "ResetSent": 4, "ResetRecvd": 5}
R_RANK = {"Recv": 0, "SizeKnown": 1, "DataRecvd": 2, "ResetRecvd": 2, "DataRead": 3, "ResetRead": 3}
S_RESET = {"ResetSent", "ResetRecvd"}
S_DATA = {"Ready", "Send", "DataSent", "DataRecvd"}
R_RESET = {"ResetRecvd", "ResetRead"}
R_DATA = {"Recv", "SizeKnown", "DataRecvd", "DataRead"}
S_IS = ["Ready", "Send", "DataSent", "DataRecvd", "ResetQueued", "ResetSent", "ResetRecvd"]
R_IS = ["Recv", "SizeKnown", "DataRecvd", "DataRead", "ResetRecvd", "ResetRead"]


def gen(rng, n, tier):
    ops = []
    for s in S_STATES:
        for e in S_EVENTS:
            ops.append(f"at sender {s} {e}")
    for s in R_STATES:
        for e in R_EVENTS:
            ops.append(f"at receiver {s} {e}")
    # every event sequence of length <= 3 from the default state (exhaustive), then random longer histories
    import itertools
    for k in (1, 2, 3):
        for seq in itertools.product(S_EVENTS, repeat=k):
            ops.append("reset")
            ops += [f"snd {e}" for e in seq]
        for seq in itertools.product(R_EVENTS, repeat=k):
            ops.append("reset")
            ops += [f"rcv {e}" for e in seq]
    while len(ops) < n:
        ops.append("reset")
        # forward-biased walks reach the deep states, uniform ones the error paths
        ordered = rng.random() < 0.5
        k = rng.randrange(1, 14)
        si = ri = 0
        for _ in range(k):
            if rng.random() < 0.55:
                if ordered and rng.random() < 0.7:
                    e = S_EVENTS[min(si, len(S_EVENTS) - 1)] if rng.random() < 0.6 else rng.choice(S_EVENTS[si:] or S_EVENTS)
                    si += 1
                else:
                    e = rng.choice(S_EVENTS)
                ops.append(f"snd {e}")
            else:
                if ordered and rng.random() < 0.7:
                    e = R_EVENTS[min(ri, len(R_EVENTS) - 1)] if rng.random() < 0.6 else rng.choice(R_EVENTS[ri:] or R_EVENTS)
                    ri += 1
                else:
                    e = rng.choice(R_EVENTS)
                ops.append(f"rcv {e}")
    return ops


def _check_arrow(bad, i, who, prev, e, kind, new, rfc, extra, optional, terminal, rank, op, out):
    if kind not in ("moved", "noop", "invalid"):
        bad.append((i, f"states:{who}:error-reports-wrong-state", f"{op} in {prev} -> {out}: the error does not carry the unchanged state / event"))
        return
    want = rfc.get((prev, e))
    if want is not None and not (kind == "moved" and new == want):
        bad.append((i, f"states:{who}:rfc-arrow-missing:{prev}:{e}", f"RFC 9000 arrow {prev} --{e}--> {want} not taken: {op} in {prev} -> {out}"))
    if kind != "moved" and new != prev:
        bad.append((i, f"states:{who}:state-changed-on-error", f"{op} in {prev} returned {kind} but the state is now {new}"))
    if kind == "moved" and want is None:
        if extra.get((prev, e)) != new and optional.get((prev, e)) != new:
            bad.append((i, f"states:{who}:non-rfc-arrow:{prev}:{e}:{new}", f"arrow {prev} --{e}--> {new} is neither in the RFC 9000 figure nor a documented extra"))
    if prev in terminal and (kind == "moved" or new != prev):
        bad.append((i, f"states:{who}:left-terminal:{prev}", f"terminal state {prev} left by {e} -> {out}"))
    if new != prev and not rank.get(new, -1) > rank.get(prev, 99):
        bad.append((i, f"states:{who}:rank-not-increasing", f"{prev} --{e}--> {new}: state change against the progress order"))


def oracle(ops, outs):
    bad = []
    snd, rcv = "Ready", "Recv"
    s_seen, r_seen = {"Ready"}, {"Recv"}
    for i, (op, out) in enumerate(zip(ops, outs)):
        t, o = op.split(), out.split()
        if o and o[0] == "panic":
            bad.append((i, f"states:panic:{t[0]}", f"{op} panicked: {out}"))
            continue
        if t[0] == "reset":
            snd, rcv = "Ready", "Recv"
            s_seen, r_seen = {"Ready"}, {"Recv"}
            continue
        if len(o) < 3 or o[0] != "ok":
            bad.append((i, "states:unexpected-output", f"{op} -> {out}"))
            continue
        kind, new = o[1], o[2]
        if t[0] == "at":
            if t[1] == "sender":
                _check_arrow(bad, i, "sender", t[2], t[3], kind, new, RFC_SEND, EXTRA_SEND, {}, S_TERMINAL, S_RANK, op, out)
            else:
                _check_arrow(bad, i, "receiver", t[2], t[3], kind, new, RFC_RECV, {}, OPTIONAL_RECV, R_TERMINAL, R_RANK, op, out)
        elif t[0] == "snd":
            _check_arrow(bad, i, "sender", snd, t[1], kind, new, RFC_SEND, EXTRA_SEND, {}, S_TERMINAL, S_RANK, op, out)
            if new in S_DATA and new != snd and s_seen & S_RESET:
                bad.append((i, "states:sender:data-after-reset", f"data state {new} entered after a RESET_STREAM was sent ({sorted(s_seen)})"))
            if new == "DataRecvd" and snd != "DataRecvd" and not ({"DataSent", "ResetQueued"} & s_seen):
                bad.append((i, "states:sender:data-recvd-without-fin", f"DataRecvd entered without DataSent (visited {sorted(s_seen)})"))
            want_bits = "".join("1" if new == s else "0" for s in S_IS) + ("1" if new in S_TERMINAL else "0")
            if len(o) < 4 or o[3] != want_bits:
                bad.append((i, "states:sender:is-predicate", f"{new}: is_* predicates {o[3:]} expected {want_bits}"))
            snd = new
            s_seen.add(new)
        elif t[0] == "rcv":
            _check_arrow(bad, i, "receiver", rcv, t[1], kind, new, RFC_RECV, {}, OPTIONAL_RECV, R_TERMINAL, R_RANK, op, out)
            if new in R_DATA and new != rcv and r_seen & R_RESET:
                bad.append((i, "states:receiver:data-after-reset", f"data state {new} entered after a reset was received ({sorted(r_seen)})"))
            if new == "DataRead" and rcv != "DataRead" and not {"SizeKnown", "DataRecvd"} <= r_seen:
                bad.append((i, "states:receiver:data-read-without-fin", f"DataRead entered without SizeKnown and DataRecvd (visited {sorted(r_seen)})"))
            want_bits = "".join("1" if new == s else "0" for s in R_IS) + ("1" if new in R_TERMINAL else "0")
            if len(o) < 4 or o[3] != want_bits:
                bad.append((i, "states:receiver:is-predicate", f"{new}: is_* predicates {o[3:]} expected {want_bits}"))
            rcv = new
            r_seen.add(new)
    return bad


def nontrivial(op, out):
    t, o = op.split(), out.split()
    if len(o) >= 3 and o[0] == "ok" and o[1] == "moved":
        return " ".join(t[:2] if t[0] != "at" else t) + "->" + o[2]
    return None
