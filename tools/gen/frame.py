"""ops for the `frame` component (vh-core) / Lean `frame` driver, and the C05 frame oracle.

Three input streams (all from the one PRNG handed in):
  (a) grammar-generated valid frames of every type of RFC 9000 Table 3 / RFC 9221 / the two s2n
      extension frames, field values concentrated at the boundaries (varint length classes, 2^60 and
      2^60+1 stream limits, cid lengths 0/1/20/21, empty/non-empty reason/token/data, ACK frames with
      0..12 ranges including ranges that underflow), varint fields sometimes in a non-shortest
      encoding (legal on the wire; the re-encoded output must be shortest);
  (b) every first byte 0x00..0xff followed by random bytes;
  (c) single-/multi-byte mutations and every truncation of valid frames;
plus `decall` ops over concatenations of frames (the frame-sequence loop).

The oracle is a python transcription of RFC 9000 §12.4/§19 (+ RFC 9221 §4 and the two documented
s2n extension frames) that is independent of the Lean model: it re-parses the op's bytes, predicts
the rendering of the value and the bytes consumed, re-parses the re-encoded bytes (round trip,
announced size, shortest varints) and judges accept/reject.
"""
STATELESS = True

MAXV = 2**62 - 1
VB = [0, 1, 2, 62, 63, 64, 65, 255, 256, 16382, 16383, 16384, 16385, 2**30 - 1, 2**30, 2**30 + 1, 2**32, 2**60 - 1, 2**60,
      2**60 + 1, 2**62 - 2, 2**62 - 1]
SMALL = [0, 1, 2, 3, 4, 7, 8, 20, 63, 64]
DC_TAG = 0xdc0000
MTU_TAG = 0xdc0002
DC_MAX = 4092


def hexs(b):
    return bytes(b).hex() if len(b) else "-"


def unhex(s):
    return b"" if s == "-" else bytes.fromhex(s)


# ----------------------------------------------------------------------------------------------
# encoding helpers for the generator

def var(v, width=None):
    """RFC 9000 §16; `width` forces a (possibly non-shortest) length"""
    if width is None:
        width = 1 if v <= 63 else 2 if v <= 16383 else 4 if v <= 2**30 - 1 else 8
    tag = {1: 0, 2: 1, 4: 2, 8: 3}[width]
    assert v < 2 ** (8 * width - 2), (v, width)
    return bytes([(tag << 6) | (v >> (8 * (width - 1)))]) + (v & (2 ** (8 * (width - 1)) - 1)).to_bytes(width - 1, "big")


class G:
    def __init__(self, rng):
        self.rng = rng

    def v(self, hi=MAXV):
        r = self.rng
        c = r.random()
        if c < 0.45:
            x = r.choice(VB)
        elif c < 0.6:
            x = max(0, r.choice(VB) + r.randrange(-2, 3))
        elif c < 0.8:
            x = r.choice(SMALL)
        else:
            x = r.getrandbits(r.choice([6, 8, 14, 16, 30, 32, 62]))
        return min(x, hi)

    def var(self, v):
        """mostly shortest, sometimes a longer legal encoding"""
        if self.rng.random() < 0.12:
            ws = [w for w in (1, 2, 4, 8) if v < 2 ** (8 * w - 2)]
            return var(v, self.rng.choice(ws))
        return var(v)

    def data(self, lens=(0, 0, 1, 2, 3, 5, 8, 16, 17, 63, 64, 65, 100)):
        n = self.rng.choice(lens)
        return bytes(self.rng.randrange(256) for _ in range(n))

    # -- one generator per frame type; `valid=False` picks from the excluded points too ------------
    def padding(self):
        return bytes(self.rng.choice([1, 1, 2, 3, 7, 20]))

    def ping(self):
        return b"\x01"

    def ack(self):
        r = self.rng
        ecn = r.random() < 0.4
        n = r.choice([0, 0, 1, 1, 2, 3, 5, 8, 12])
        mode = r.random()
        if mode < 0.6:
            # consistent ranges built bottom-up
            pairs = []
            smallest = r.choice([0, 0, 1, 5, 100, 2**20])
            items = []
            cur = smallest
            for _ in range(n + 1):
                ln = r.choice([0, 0, 1, 2, 10, 63, 64, 1000])
                items.append((cur, cur + ln))
                gap = r.choice([0, 0, 1, 5, 62, 63, 64, 5000])
                cur = cur + ln + gap + 2
            items.reverse()
            largest = items[0][1]
            first = items[0][1] - items[0][0]
            prev = items[0][0]
            for (s, e) in items[1:]:
                pairs.append((prev - e - 2, e - s))
                prev = s
        else:
            # arbitrary values: most of these underflow somewhere
            largest = self.v()
            first = r.choice([0, 1, largest, largest + 1 if largest < MAXV else largest, self.v()])
            pairs = [(r.choice([0, 1, 2, self.v()]), r.choice([0, 1, self.v()])) for _ in range(n)]
            if mode > 0.9 and largest >= first:
                # exact boundary: last range ends exactly at 0 / underflows by one
                rem = largest - first
                pairs = []
                for _ in range(n):
                    if rem < 2:
                        break
                    gap = r.choice([0, rem - 2, max(0, rem - 1)])
                    gap = min(gap, MAXV)
                    lg = rem - gap - 2
                    ln = r.choice([0, max(lg, 0), max(lg, 0) + 1])
                    pairs.append((gap, min(ln, MAXV)))
                    rem = lg - ln
                    if rem < 0:
                        break
                n = len(pairs)
        count = len(pairs)
        if r.random() < 0.08:
            count = r.choice([count + 1, max(0, count - 1), MAXV, MAXV - 1])
        b = bytes([3 if ecn else 2]) + self.var(min(largest, MAXV)) + self.var(self.v()) + self.var(count) + self.var(min(first, MAXV))
        for (g, l) in pairs:
            b += self.var(min(g, MAXV)) + self.var(min(l, MAXV))
        if ecn:
            b += self.var(self.v()) + self.var(self.v()) + self.var(self.v())
        return b

    def reset_stream(self):
        return b"\x04" + self.var(self.v()) + self.var(self.v()) + self.var(self.v())

    def stop_sending(self):
        return b"\x05" + self.var(self.v()) + self.var(self.v())

    def crypto(self):
        d = self.data()
        return b"\x06" + self.var(self.v()) + self.var(len(d)) + d

    def new_token(self):
        d = self.data((0, 1, 1, 2, 16, 32, 64, 100))
        return b"\x07" + self.var(len(d)) + d

    def stream(self):
        r = self.rng
        ty = 0x08 | r.randrange(8)
        b = bytes([ty]) + self.var(self.v())
        if ty & 4:
            b += self.var(r.choice([0, 0, 1, self.v()]))
        d = self.data()
        if ty & 2:
            b += self.var(len(d))
        return b + d

    def max_data(self):
        return b"\x10" + self.var(self.v())

    def max_stream_data(self):
        return b"\x11" + self.var(self.v()) + self.var(self.v())

    def _limit(self):
        r = self.rng
        return r.choice([0, 1, 100, 2**60 - 1, 2**60, 2**60, 2**60 + 1, 2**60 + 1, 2**61, MAXV, self.v()])

    def max_streams(self):
        return bytes([self.rng.choice([0x12, 0x13])]) + self.var(self._limit())

    def data_blocked(self):
        return b"\x14" + self.var(self.v())

    def stream_data_blocked(self):
        return b"\x15" + self.var(self.v()) + self.var(self.v())

    def streams_blocked(self):
        return bytes([self.rng.choice([0x16, 0x17])]) + self.var(self._limit())

    def new_connection_id(self):
        r = self.rng
        seq = self.v()
        c = r.random()
        rpt = seq if c < 0.3 else (seq + 1 if c < 0.45 and seq < MAXV else (r.randrange(seq + 1) if c < 0.8 else self.v()))
        n = r.choice([0, 1, 1, 2, 8, 8, 19, 20, 20, 21, 22, 255])
        return b"\x18" + self.var(seq) + self.var(rpt) + bytes([n]) + bytes(r.randrange(256) for _ in range(n + 16))

    def retire_connection_id(self):
        return b"\x19" + self.var(self.v())

    def path_challenge(self):
        return b"\x1a" + bytes(self.rng.randrange(256) for _ in range(8))

    def path_response(self):
        return b"\x1b" + bytes(self.rng.randrange(256) for _ in range(8))

    def connection_close(self):
        d = self.data((0, 0, 1, 5, 20, 63, 64, 70))
        if self.rng.random() < 0.5:
            return b"\x1c" + self.var(self.v()) + self.var(self.v()) + self.var(len(d)) + d
        return b"\x1d" + self.var(self.v()) + self.var(len(d)) + d

    def handshake_done(self):
        return b"\x1e"

    def datagram(self):
        d = self.data()
        if self.rng.random() < 0.5:
            return b"\x30" + d
        return b"\x31" + self.var(len(d)) + d

    def dc_tokens(self):
        r = self.rng
        n = r.choice([0, 1, 1, 2, 3, 10])
        claimed = n if r.random() < 0.8 else r.choice([n + 1, 0, DC_MAX, DC_MAX + 1, MAXV])
        tagw = r.choice([4, 4, 4, 8])
        return var(DC_TAG, tagw) + self.var(claimed) + bytes(r.randrange(256) for _ in range(16 * n))

    def mtu(self):
        r = self.rng
        return var(MTU_TAG, r.choice([4, 4, 8])) + r.choice([0, 1, 1200, 1500, 9000, 65535]).to_bytes(2, "big")

    KINDS = ["padding", "ping", "ack", "reset_stream", "stop_sending", "crypto", "new_token", "stream", "max_data",
             "max_stream_data", "max_streams", "data_blocked", "stream_data_blocked", "streams_blocked", "new_connection_id",
             "retire_connection_id", "path_challenge", "path_response", "connection_close", "handshake_done", "datagram",
             "dc_tokens", "mtu"]
    WEIGHT = {"ack": 6, "stream": 4, "new_connection_id": 3, "connection_close": 3, "max_streams": 2, "streams_blocked": 2,
              "crypto": 2, "datagram": 2, "new_token": 2, "dc_tokens": 2}

    def frame(self, kind=None):
        if kind is None:
            kind = self.rng.choices(self.KINDS, weights=[self.WEIGHT.get(k, 1) for k in self.KINDS])[0]
        return getattr(self, kind)()


def mutate(rng, b):
    b = bytearray(b)
    if not b:
        return bytes(b)
    k = rng.choice([1, 1, 1, 2, 3])
    for _ in range(k):
        i = rng.randrange(len(b))
        c = rng.random()
        if c < 0.35:
            b[i] = rng.randrange(256)
        elif c < 0.6:
            b[i] ^= 1 << rng.randrange(8)
        elif c < 0.75:
            b[i] = (b[i] + rng.choice([1, 255])) % 256
        elif c < 0.85:
            b[i] = rng.choice([0, 0x3f, 0x40, 0x7f, 0x80, 0xbf, 0xc0, 0xff])
        elif c < 0.93:
            del b[i]
            if not b:
                break
        else:
            b.insert(i, rng.randrange(256))
    return bytes(b)


def gen(rng, n, tier):
    g = G(rng)
    ops = []
    # (a) every type, several instances each (deterministic part)
    seeds = []
    for kind in G.KINDS:
        for _ in range(12 if kind in ("ack", "stream", "new_connection_id", "connection_close", "max_streams", "streams_blocked") else 5):
            f = g.frame(kind)
            seeds.append(f)
            ops.append("dec " + hexs(f))
            # with trailing bytes: the frame must not look past its end (except last-frame forms)
            ops.append("dec " + hexs(f + bytes(rng.randrange(256) for _ in range(rng.choice([1, 3, 9])))))
    # boundary table for the stream limits, both directions
    for ty in (0x12, 0x13, 0x16, 0x17):
        for v in (2**60 - 1, 2**60, 2**60 + 1, MAXV):
            ops.append("dec " + hexs(bytes([ty]) + var(v)))
    # cid lengths 0, 1, 20, 21
    for ln in (0, 1, 20, 21):
        ops.append("dec " + hexs(b"\x18" + var(7) + var(7) + bytes([ln]) + bytes(range(ln + 16))))
    ops.append("dec " + hexs(b"\x18" + var(7) + var(8) + bytes([4]) + bytes(range(20))))
    ops.append("dec " + hexs(b"\x07\x00"))
    ops.append("dec " + hexs(b"\x1c\x00\x00\x00"))
    ops.append("dec " + hexs(b"\x1d\x00\x00"))
    ops.append("dec " + hexs(b"\x0c\x01\x00"))           # STREAM with OFF bit and offset 0
    ops.append("dec " + hexs(b"\x02\x00\x00" + var(MAXV) + b"\x00"))  # ACK count+1 overflows
    ops.append("dec -")
    # (b) every first byte
    for h in range(256):
        for k in (0, rng.randrange(1, 6), rng.randrange(6, 40)):
            ops.append("dec " + hexs(bytes([h]) + bytes(rng.randrange(256) for _ in range(k))))
    # non-shortest frame type encodings of every known one-byte type
    for ty in list(range(0x00, 0x1f)) + [0x30, 0x31]:
        ops.append("dec " + hexs(var(ty, rng.choice([2, 4, 8])) + bytes(rng.randrange(256) for _ in range(20))))
    # (c) every truncation of a sample of valid frames
    for f in rng.sample(seeds, min(len(seeds), 60)):
        for k in range(len(f)):
            ops.append("dec " + hexs(f[:k]))
    # random part
    for _ in range(n):
        c = rng.random()
        if c < 0.40:
            f = g.frame()
            if rng.random() < 0.3:
                f += bytes(rng.randrange(256) for _ in range(rng.choice([1, 2, 8])))
            ops.append("dec " + hexs(f))
        elif c < 0.65:
            ops.append("dec " + hexs(mutate(rng, g.frame())))
        elif c < 0.72:
            f = g.frame()
            ops.append("dec " + hexs(f[: rng.randrange(len(f) + 1)]))
        elif c < 0.77:
            ops.append("dec " + hexs(bytes(rng.randrange(256) for _ in range(rng.choice([1, 2, 3, 5, 9, 17, 40])))))
        else:
            k = rng.choice([0, 1, 2, 2, 3, 4, 6, 10])
            seq = b"".join(g.frame() for _ in range(k))
            m = rng.random()
            if m < 0.25:
                seq = mutate(rng, seq)
            elif m < 0.35 and seq:
                seq = seq[: rng.randrange(len(seq) + 1)]
            ops.append("decall " + hexs(seq))
    return ops


# ----------------------------------------------------------------------------------------------
# the reference parser (RFC 9000 §12.4, §16, §19; RFC 9221 §4; s2n extension frames)

class Bad(Exception):
    pass


class Rd:
    def __init__(self, b):
        self.b = b
        self.p = 0
        self.shortest = True   # every varint read so far was in its shortest encoding

    def left(self):
        return len(self.b) - self.p

    def u8(self):
        if self.left() < 1:
            raise Bad("eof")
        x = self.b[self.p]
        self.p += 1
        return x

    def take(self, n):
        if self.left() < n:
            raise Bad("eof")
        x = self.b[self.p:self.p + n]
        self.p += n
        return x

    def var(self):
        if self.left() < 1:
            raise Bad("eof")
        w = 1 << (self.b[self.p] >> 6)
        raw = self.take(w)
        v = int.from_bytes(raw, "big") & ((1 << (8 * w - 2)) - 1)
        if len(var(v)) != w:
            self.shortest = False
        return v

    def rest(self):
        return self.take(self.left())


def ref_frame(r):
    """parse one frame at the reader's position -> (type name, rendering as the harness prints it)"""
    start = r.p
    ty = r.var()
    tylen = r.p - start
    if tylen != len(var(ty)):
        raise Bad("frame type not in its shortest encoding (§12.4)")
    if ty == 0x00:
        # s2n hands a run of PADDING frames to the application as one value
        n = 1
        while r.left() and r.b[r.p] == 0:
            r.p += 1
            n += 1
        return "PADDING", f"PADDING len={n}"
    if ty == 0x01:
        return "PING", "PING"
    if ty in (0x02, 0x03):
        largest = r.var()
        delay = r.var()
        count = r.var()
        first = r.var()
        if first > largest:
            raise Bad("negative packet number")
        ranges = [(largest - first, largest)]
        smallest = largest - first
        for _ in range(count):
            if r.left() < 2:
                raise Bad("eof")   # also protects against absurd counts
            gap = r.var()
            ln = r.var()
            if smallest < gap + 2:
                raise Bad("negative packet number")
            lg = smallest - gap - 2
            if lg < ln:
                raise Bad("negative packet number")
            smallest = lg - ln
            ranges.append((smallest, lg))
        ecn = "-"
        if ty == 0x03:
            ecn = f"{r.var()},{r.var()},{r.var()}"
        return "ACK", f"ACK delay={delay} ranges={','.join(f'{s}-{e}' for s, e in ranges)} ecn={ecn}"
    if ty == 0x04:
        return "RESET_STREAM", f"RESET_STREAM sid={r.var()} code={r.var()} final={r.var()}"
    if ty == 0x05:
        return "STOP_SENDING", f"STOP_SENDING sid={r.var()} code={r.var()}"
    if ty == 0x06:
        off = r.var()
        d = r.take(r.var())
        return "CRYPTO", f"CRYPTO off={off} data={hexs(d)}"
    if ty == 0x07:
        d = r.take(r.var())
        if not d:
            raise Bad("empty token")
        return "NEW_TOKEN", f"NEW_TOKEN token={hexs(d)}"
    if 0x08 <= ty <= 0x0f:
        sid = r.var()
        off = r.var() if ty & 0x04 else 0
        if ty & 0x02:
            d = r.take(r.var())
        else:
            d = r.rest()
        return "STREAM", f"STREAM sid={sid} off={off} last={0 if ty & 2 else 1} fin={ty & 1} data={hexs(d)}"
    if ty == 0x10:
        return "MAX_DATA", f"MAX_DATA max={r.var()}"
    if ty == 0x11:
        return "MAX_STREAM_DATA", f"MAX_STREAM_DATA sid={r.var()} max={r.var()}"
    if ty in (0x12, 0x13):
        v = r.var()
        if v > 2**60:
            raise Bad("MAX_STREAMS > 2^60")
        return "MAX_STREAMS", f"MAX_STREAMS bidi={1 if ty == 0x12 else 0} max={v}"
    if ty == 0x14:
        return "DATA_BLOCKED", f"DATA_BLOCKED limit={r.var()}"
    if ty == 0x15:
        return "STREAM_DATA_BLOCKED", f"STREAM_DATA_BLOCKED sid={r.var()} limit={r.var()}"
    if ty in (0x16, 0x17):
        v = r.var()
        if v > 2**60:
            raise Bad("STREAMS_BLOCKED > 2^60")
        return "STREAMS_BLOCKED", f"STREAMS_BLOCKED bidi={1 if ty == 0x16 else 0} limit={v}"
    if ty == 0x18:
        seq = r.var()
        rpt = r.var()
        ln = r.u8()
        cid = r.take(ln)
        tok = r.take(16)
        if rpt > seq:
            raise Bad("retire prior to > sequence number")
        if ln < 1 or ln > 20:
            raise Bad("cid length")
        return "NEW_CONNECTION_ID", f"NEW_CONNECTION_ID seq={seq} rpt={rpt} cid={hexs(cid)} token={hexs(tok)}"
    if ty == 0x19:
        return "RETIRE_CONNECTION_ID", f"RETIRE_CONNECTION_ID seq={r.var()}"
    if ty == 0x1a:
        return "PATH_CHALLENGE", f"PATH_CHALLENGE data={hexs(r.take(8))}"
    if ty == 0x1b:
        return "PATH_RESPONSE", f"PATH_RESPONSE data={hexs(r.take(8))}"
    if ty in (0x1c, 0x1d):
        code = r.var()
        ft = str(r.var()) if ty == 0x1c else "-"
        reason = r.take(r.var())
        return "CONNECTION_CLOSE", f"CONNECTION_CLOSE code={code} ftype={ft} reason={hexs(reason) if reason else 'none'}"
    if ty == 0x1e:
        return "HANDSHAKE_DONE", "HANDSHAKE_DONE"
    if ty in (0x30, 0x31):
        d = r.take(r.var()) if ty & 1 else r.rest()
        return "DATAGRAM", f"DATAGRAM last={0 if ty & 1 else 1} data={hexs(d)}"
    raise Bad(f"unknown frame type {ty:#x}")


def ref_ext(r):
    """the two documented s2n extension frames (frame/dc_stateless_reset_tokens.rs,
    frame/mtu_probing_complete.rs); the extension tag is a varint in any encoding"""
    tag = r.var()
    if tag == DC_TAG:
        count = r.var()
        if count == 0 or count > DC_MAX:
            raise Bad("token count")
        toks = r.take(16 * count)
        return "DC_STATELESS_RESET_TOKENS", f"DC_STATELESS_RESET_TOKENS count={count} tokens={hexs(toks)}"
    if tag == MTU_TAG:
        return "MTU_PROBING_COMPLETE", f"MTU_PROBING_COMPLETE mtu={int.from_bytes(r.take(2), 'big')}"
    raise Bad("not an extension frame")


def ref_one(r):
    """RFC frame, else documented extension frame"""
    p = r.p
    try:
        return ref_frame(r)
    except Bad as e:
        r.p = p
        try:
            return ref_ext(r)
        except Bad:
            raise e


def first_type(b):
    """frame type name by first byte (for signatures of rejected/accepted-invalid inputs)"""
    if not b:
        return "empty"
    t = b[0]
    names = {0: "PADDING", 1: "PING", 2: "ACK", 3: "ACK", 4: "RESET_STREAM", 5: "STOP_SENDING", 6: "CRYPTO", 7: "NEW_TOKEN",
             0x10: "MAX_DATA", 0x11: "MAX_STREAM_DATA", 0x12: "MAX_STREAMS", 0x13: "MAX_STREAMS", 0x14: "DATA_BLOCKED",
             0x15: "STREAM_DATA_BLOCKED", 0x16: "STREAMS_BLOCKED", 0x17: "STREAMS_BLOCKED", 0x18: "NEW_CONNECTION_ID",
             0x19: "RETIRE_CONNECTION_ID", 0x1a: "PATH_CHALLENGE", 0x1b: "PATH_RESPONSE", 0x1c: "CONNECTION_CLOSE",
             0x1d: "CONNECTION_CLOSE", 0x1e: "HANDSHAKE_DONE", 0x30: "DATAGRAM", 0x31: "DATAGRAM"}
    if 8 <= t <= 15:
        return "STREAM"
    if t in names:
        return names[t]
    if t >= 0x40:
        r = Rd(b)
        try:
            tag = r.var()
            if tag == DC_TAG:
                return "DC_STATELESS_RESET_TOKENS"
            if tag == MTU_TAG:
                return "MTU_PROBING_COMPLETE"
        except Bad:
            pass
        return "multibyte-type"
    return "unknown"


def parse_ok(out):
    """`ok <render…> consumed=N enc=HEX size=N` -> (type, render, consumed, enc bytes, size)"""
    t = out.split(" ")
    size = int(t[-1].split("=", 1)[1])
    enc = unhex(t[-2].split("=", 1)[1])
    consumed = int(t[-3].split("=", 1)[1])
    render = " ".join(t[1:-3])
    return t[1], render, consumed, enc, size


def oracle(ops, outs):
    bad = []
    for i, (op, out) in enumerate(zip(ops, outs)):
        t = op.split()
        if out.startswith("panic"):
            bad.append((i, "frame:panic", f"{op} panicked: {out}"))
            continue
        b = unhex(t[1])
        if t[0] == "dec":
            r = Rd(b)
            try:
                name, want = ref_one(r)
                want_consumed = r.p
                valid = True
            except Bad as e:
                valid = False
                why = str(e)
            if out.startswith("ok MISMATCH"):
                bad.append((i, f"frame:{out.split()[2]}:size", f"{op}: the frame type and the Frame enum announce different sizes: {out}"))
            elif out.startswith("ok"):
                ty, render, consumed, enc, size = parse_ok(out)
                if not valid:
                    bad.append((i, f"frame:accepts-invalid:{first_type(b)}", f"{op}: RFC 9000 §19 rejects this input ({why}), implementation decoded {render}"))
                    continue
                if render != want:
                    bad.append((i, f"frame:{name}:value", f"{op}: RFC value `{want}`, implementation decoded `{render}`"))
                    continue
                if consumed != want_consumed:
                    bad.append((i, f"frame:{name}:consumed", f"{op}: frame occupies {want_consumed} bytes, implementation consumed {consumed}"))
                if size != len(enc):
                    bad.append((i, f"frame:{name}:size", f"{op}: encoding_size() announced {size}, encoder wrote {len(enc)} bytes ({hexs(enc)})"))
                # decode(encode(decode(b))) == decode(b), the re-encoding occupies exactly its own length
                r2 = Rd(enc)
                try:
                    name2, again = ref_one(r2)
                    if again != want or r2.p != len(enc):
                        bad.append((i, f"frame:{name}:roundtrip", f"{op}: re-encoded {hexs(enc)} decodes to `{again}` ({r2.p} of {len(enc)} bytes), expected `{want}`"))
                    elif not r2.shortest:
                        bad.append((i, f"frame:{name}:shortest", f"{op}: re-encoded {hexs(enc)} contains an integer that is not in its shortest form"))
                except Bad as e:
                    bad.append((i, f"frame:{name}:roundtrip", f"{op}: re-encoded {hexs(enc)} does not decode ({e})"))
            elif out.startswith("err"):
                if valid:
                    bad.append((i, f"frame:rejects-valid:{name}", f"{op}: RFC value `{want}` ({want_consumed} bytes), implementation answered {out}"))
            else:
                bad.append((i, "frame:protocol", f"{op} -> {out}"))
        elif t[0] == "decall":
            r = Rd(b)
            names = []
            valid = True
            try:
                while r.left():
                    name, _ = ref_one(r)
                    names.append(name)
            except Bad as e:
                valid = False
                why = str(e)
            if out.startswith("ok"):
                o = out.split(" ")
                got = [] if o[2] == "-" else o[2].split(",")
                if not valid:
                    bad.append((i, "frame:accepts-invalid:seq", f"{op}: RFC rejects the payload after {len(names)} frames ({why}), implementation decoded {out}"))
                elif got != names or int(o[1]) != len(names):
                    bad.append((i, "frame:seq:value", f"{op}: RFC frames {names}, implementation {out}"))
            elif out.startswith("err"):
                if valid:
                    bad.append((i, "frame:rejects-valid:seq", f"{op}: RFC frames {names}, implementation answered {out}"))
                else:
                    k = int(out.split(" ")[2])
                    if k != len(names):
                        bad.append((i, "frame:seq:error-position", f"{op}: first invalid frame is #{len(names)}, implementation failed at #{k}"))
            else:
                bad.append((i, "frame:protocol", f"{op} -> {out}"))
    return bad


def nontrivial(op, out):
    if not out.startswith("ok"):
        return None
    return op
