"""ops for the `key_ids` component (vh-dc: real sender::State of a map entry) / Lean `key_ids` driver.

Oracle = the PROPERTY (C19, sender half) on the implementation's outputs: no id is issued twice,
the reserved maximum (and anything beyond the 62-bit space) is never issued, ids do not go
backwards, and after a StaleKey{v} notification every later id is >= v.
"""
MAX = 2**62 - 1


def _hist(rng):
    ops = []
    cur = 0
    top = rng.random() < 0.3
    for _ in range(rng.randrange(4, 40)):
        c = rng.random()
        if c < 0.55:
            ops.append("next")
            cur += 1
        elif c < 0.9:
            r = rng.random()
            if r < 0.35:
                v = max(0, cur + rng.choice([-5, -1, 0, 1, 2, 3, 10, 896, 1000]))
            elif r < 0.6:
                v = rng.randrange(0, cur + 2)                      # old / replayed notification
            elif r < 0.8:
                v = cur + rng.choice([2**16, 2**32, 2**40, 2**61])
            elif top:
                v = rng.choice([MAX, MAX - 1, MAX - 2, MAX - 3, MAX - 4, MAX - 10])
            else:
                v = rng.getrandbits(rng.choice([8, 16, 33, 60]))
            v = min(v, MAX)
            ops.append(f"stale {v}")
            cur = max(cur, v)
        else:
            ops.append("current")
    if top:
        ops += ["next"] * rng.randrange(1, 6) + ["current"]
    return ops


FIXED = [
    ["next", "next", "current", "stale 1", "next", "stale 3", "next", "stale 3", "next", "current"],
    ["stale 0", "next", "stale 0", "next"],
    [f"stale {MAX - 3}", "next", "next", "next", "current", "next", f"stale {MAX}", "next", "current"],
    [f"stale {MAX - 1}", "current", "next", "next", "current"],
    [f"stale {MAX}", "current", "next", "current", "stale 5", "next", "current"],
    [f"stale {MAX - 2}", "next", "next", "stale 7", "next", "current"],
    ["next", f"stale {2**62}", "stale x", "frob", "next"],
    ["stress 2 50 1"], ["stress 4 500 2"], ["stress 8 200 3"],
]


def gen(rng, n, tier):
    ops = []
    for h in FIXED:
        ops += h + ["reset"]
    budget = n
    while budget > 0:
        h = _hist(rng)
        ops += h + ["reset"]
        budget -= len(h) + 1
    for i in range(6 if tier == "thorough" else 2):
        ops += [f"stress {rng.choice([2, 4, 8])} {rng.choice([100, 1000, 3000])} {rng.randrange(2**32)}", "reset"]
    return ops


def oracle(ops, outs):
    bad = []
    issued = set()
    hi = None
    floor = 0
    for i, (op, out) in enumerate(zip(ops, outs)):
        t = op.split()
        if t == ["reset"]:
            issued = set()
            hi = None
            floor = 0
            continue
        if out.startswith("panic"):
            bad.append((i, "keyid:panic", f"{op} panicked: {out}"))
            issued = set()
            hi = None
            floor = 0
            continue
        if t == ["next"]:
            o = out.split()
            if out == "err exhausted":
                continue
            if len(o) != 2 or o[0] != "ok" or not o[1].isdigit():
                bad.append((i, "keyid:bad-output", f"{op} -> {out}"))
                continue
            k = int(o[1])
            if k in issued:
                bad.append((i, "keyid:reissued", f"key id {k} issued a second time"))
            elif k >= MAX:
                bad.append((i, "keyid:wrapped", f"key id {k} issued: the reserved maximum / outside the 62-bit id space"))
            elif hi is not None and k < hi:
                bad.append((i, "keyid:wrapped", f"key id {k} issued after {hi}: the counter went backwards"))
            elif k < floor:
                bad.append((i, "keyid:below-stale", f"key id {k} issued after a StaleKey notification with minimum {floor}"))
            issued.add(k)
            hi = k if hi is None else max(hi, k)
        elif len(t) == 2 and t[0] == "stale" and t[1].isdigit() and int(t[1]) <= MAX:
            if out == "ok":
                floor = max(floor, int(t[1]))
            else:
                bad.append((i, "keyid:stale-rejected", f"{op} -> {out}"))
        elif len(t) == 4 and t[0] == "stress" and all(x.isdigit() for x in t[1:]):
            th, n, seed = int(t[1]), int(t[2]), int(t[3])
            if not (1 <= th <= 64 and 1 <= n <= 100000 and seed < 2**32):
                continue
            m = dict(kv.split("=") for kv in out.split()[1:]) if out.startswith("ok ") else None
            if m is None:
                bad.append((i, "keyid:bad-output", f"{op} -> {out}"))
                continue
            if int(m["dups"]) != 0:
                bad.append((i, "keyid:reissued", f"{op}: {m['dups']} key ids issued twice under concurrency ({out})"))
            if m["increasing"] != "1":
                bad.append((i, "keyid:wrapped", f"{op}: a thread observed non-increasing key ids ({out})"))
            if m["stale_respected"] != "1":
                bad.append((i, "keyid:below-stale", f"{op}: an id below a delivered StaleKey minimum was issued ({out})"))
            if int(m["issued"]) != (th + 1) * n:
                bad.append((i, "keyid:bad-output", f"{op}: expected {(th + 1) * n} ids ({out})"))
    return bad


def nontrivial(op, out):
    return op + "|" + out if out.startswith("ok") and op != "reset" else None
