"""C11 wire-level oracle on end-to-end traces (tie T): anti-amplification towards an unvalidated client address,
size of replies to datagrams that belong to no connection, padding of client Initial datagrams.
Everything is computed from `wire` records (what really crossed the simulated network) with the independent
RFC parsers of quicparse.py; nothing is taken from the implementation's own events."""
import quicparse as qp

ATTACKER = "10.66.66.66:6666"
SPOOFER = "1.0.77.77:7777"
SPOOFER_NET = "1.0.77."         # spoof_addrs > 1: 1.0.77.77, .78, ...      # source address of genuine client datagrams re-sent from elsewhere (`spoof_pm`)
U32 = 2**32 - 1
# actions of records that were put on the wire by the adversary, not by the endpoint named in `src`
FORGED = ("replay", "inject", "dup", "spoof")


def _kinds(head, length):
    """(packet kinds visible in the recorded head, whether they account for the whole datagram)"""
    pk = qp.long_header_packets(head)
    # the unprotected Length fields tell how much of the datagram the visible packets cover
    complete = len(head) >= length or sum(n for _, n in pk) >= length
    return [k for k, _ in pk], complete


def _addresses(tr):
    wires = tr.of("wire")
    for w in wires:
        if not w.action.startswith("stray:") and w.src != ATTACKER and w.dst != ATTACKER:
            return w.src, w.dst
    return None, None


def _norm(wires):
    """the simulator's clock reads 1us at virtual time 0 (timestamps are non-zero) while delays count from 0:
    a datagram sent at "1" with delivery time 1 + d is delivered when the clock reads d"""
    for w in wires:
        if w.t == 1 and w.at is not None and w.at > 1:
            w.at -= 1
            w.t = 0
    return wires


def o_c11(tr):
    return _run(tr)[0]


def _run(tr):
    bad = []
    wires = _norm(tr.of("wire"))
    client, server = _addresses(tr)
    cov = {"unvalidated_server_datagrams": 0, "reached_limit": 0}
    if client is None:
        return bad, cov
    # ------------------------------------------------------------------ amplification, per peer address
    # events: (time, order, kind, record); deliveries to the server sort before the server's sends of the same
    # instant (lenient: a datagram that arrives in the same instant counts as already received)
    ev = []
    for w in wires:
        if w.dst == server and w.at is not None:
            ev.append((w.at, 0, w.idx, "rx", w))
        elif w.src == server and w.action not in FORGED:
            ev.append((w.t, 1, w.idx, "tx", w))
    ev.sort(key=lambda e: (e[0], e[1], e[2]))
    # addresses that appear later in the connection (client rebinding / migration, spoofed copies) are validated by
    # path validation only: the server has processed a PATH_RESPONSE in a datagram that arrived from that address
    # (RFC 9000 §8.2, §9.3). `rxp` records are the packets the server decrypted and processed (packet interceptor).
    path_resp_at = set()
    have_frames = any(r.kind == "rxp" and r.ep == "s" and r.frames for r in tr.recs)
    for r in tr.recs:
        if r.kind == "rxp" and r.ep == "s" and any(f["type"] == "PATH_RESPONSE" for f in r.frames):
            path_resp_at.add(r.t)
    # the server confirms the handshake when it sends HANDSHAKE_DONE; until then s2n-quic attributes every datagram
    # of the connection to the initial path whatever its source address (path/manager.rs on_datagram_received)
    hs_done = min([r.t for r in tr.recs if r.kind == "txp" and r.ep == "s" and any(f["type"] == "HANDSHAKE_DONE" for f in r.frames)] + [10**18])
    conn_recv = 0       # bytes received from any address that is not the stray attacker's
    st = {}     # peer address -> dict(sent, recv, sat, validated, unknown)
    for t, _, _, kind, w in ev:
        peer = w.src if kind == "rx" else w.dst
        s = st.setdefault(peer, {"sent": 0, "recv": 0, "sat": 0, "validated": False})
        if kind == "rx":
            s["recv"] += w.len
            if peer != ATTACKER:
                conn_recv += w.len
            s["sat"] = min(s["sat"] + 3 * w.len, U32)
            kinds, complete = _kinds(w.head, w.len)
            if peer == client:
                # a Handshake packet reaching the server validates the address (long-header type bits are not protected);
                # when the record does not show the whole datagram we cannot rule one out: stop checking (lenient)
                if "handshake" in kinds or "short" in kinds[:1] or (not complete and "garbage" not in kinds[:1]):
                    s["validated"] = True
            elif peer != ATTACKER and not peer.startswith(SPOOFER_NET):
                longhdr = bool(kinds) and kinds[0] in ("initial", "handshake", "0rtt")
                if ("handshake" in kinds or (longhdr and not complete)) and w.action not in FORGED:
                    # a (new) connection's handshake runs from this address (a long-header datagram that the record does
                    # not show completely may coalesce a Handshake packet: lenient, as for the first address)
                    s["validated"] = True
                elif not have_frames:
                    s["validated"] = True      # the trace carries no cleartext payloads: path validation is not observable
                elif w.at in path_resp_at and w.action not in FORGED:
                    s["validated"] = True
        else:
            n = w.orig
            if not s["validated"]:
                if s["sent"] >= 3 * s["recv"]:
                    if t <= hs_done and peer == client and s["sent"] < 3 * conn_recv:
                        bad.append(("e2e:c11:amplification:credit-from-other-address-in-handshake",
                                    f"server started a {n}-byte datagram to {peer} at {w.t}us with {s['sent']} bytes already sent and only "
                                    f"{s['recv']} received from that address (3x = {3 * s['recv']}); the handshake is not confirmed and the "
                                    f"server credited datagrams that arrived from OTHER source addresses ({conn_recv - s['recv']} bytes) to this path"))
                    elif s["sat"] > 0:
                        bad.append(("e2e:c11:amplification:after-overshoot",
                                    f"server started a {n}-byte datagram to {peer} at {w.t}us with {s['sent']} bytes already sent and "
                                    f"{s['recv']} received (3x = {3 * s['recv']}) before the address was validated; an earlier overshooting "
                                    f"datagram emptied the saturating allowance and its debt was forgotten"))
                    else:
                        bad.append(("e2e:c11:amplification:bound-exceeded",
                                    f"server started a {n}-byte datagram to {peer} at {w.t}us with {s['sent']} bytes already sent and only "
                                    f"{s['recv']} received (3x = {3 * s['recv']}) before the address was validated"))
            s["sent"] += n
            s["sat"] = max(s["sat"] - n, 0)
            if not s["validated"] and peer == client:
                cov["unvalidated_server_datagrams"] += 1
                if s["sent"] >= 3 * s["recv"]:
                    cov["reached_limit"] += 1
            elif not s["validated"] and peer != ATTACKER:
                cov["unvalidated_new_path_datagrams"] = cov.get("unvalidated_new_path_datagrams", 0) + 1
                if s["sent"] >= 3 * s["recv"]:
                    cov["new_path_reached_limit"] = cov.get("new_path_reached_limit", 0) + 1
    # ------------------------------------------------------------------ client Initial datagrams are padded
    for w in wires:
        if w.src != client or w.action in FORGED or w.action.startswith("corrupt") or w.action.startswith("stray:"):
            continue
        kinds, _ = _kinds(w.head, w.len)
        if "initial" in kinds and w.len < 1200:
            bad.append(("e2e:c11:initial-not-padded", f"client datagram of {w.len} bytes at {w.t}us carries an Initial packet ({'+'.join(kinds)})"))
    # ------------------------------------------------------------------ replies to datagrams of no connection
    strays = [w for w in wires if w.action.startswith("stray:") and w.at is not None]
    for r in wires:
        if r.action != "to-attacker":
            continue
        trig = None
        for s in strays:
            if s.at <= r.t and (trig is None or s.at >= trig.at):
                trig = s
        if trig is None:
            bad.append(("e2e:c11:reply-without-trigger", f"server sent {r.len} bytes to an address it never received anything from"))
            continue
        tkind = trig.action.split(":", 1)[1]
        h = r.head
        is_long = bool(h) and bool(h[0] & 0x80)
        is_vn = is_long and len(h) >= 5 and h[1:5] == b"\0\0\0\0"
        if is_vn:
            if trig.len < 1200:
                bad.append(("e2e:c11:vn-small-trigger", f"Version Negotiation ({r.len} bytes) in reply to a {trig.len}-byte {tkind} datagram"))
            if tkind == "vn-packet":
                bad.append(("e2e:c11:vn-for-vn", f"Version Negotiation sent in reply to a Version Negotiation packet ({trig.len} bytes)"))
            if r.len >= trig.len:
                bad.append(("e2e:c11:reply-not-smaller", f"Version Negotiation of {r.len} bytes for a {trig.len}-byte trigger"))
        elif not is_long:
            # short header: a stateless reset
            if r.len >= trig.len:
                bad.append(("e2e:c11:sreset-not-smaller", f"stateless reset of {r.len} bytes in reply to a {trig.len}-byte {tkind} datagram"))
            if r.len < 1 + 20 + 4 + 1 + 16:
                bad.append(("e2e:c11:sreset-below-min", f"stateless reset of {r.len} bytes is distinguishable from a regular short-header packet"))
            if not (h[0] & 0x40):
                bad.append(("e2e:c11:sreset-no-fixed-bit", f"stateless reset without the fixed bit"))
        else:
            if r.len > trig.len:
                bad.append(("e2e:c11:reply-not-smaller", f"{r.len}-byte long-header reply to a {trig.len}-byte {tkind} datagram that belongs to no connection"))
    return bad, cov


def stats(tr):
    """what a trace exercised (for the non-triviality rule / evidence)"""
    wires = tr.of("wire")
    client, server = _addresses(tr)
    replies = [w for w in wires if w.action == "to-attacker"]
    return {
        **_run(tr)[1],
        "strays": sum(1 for w in wires if w.action.startswith("stray:")),
        "replies": len(replies),
        "vn_replies": sum(1 for w in replies if w.head[:1] and w.head[0] & 0x80 and w.head[1:5] == b"\0\0\0\0"),
        "sreset_replies": sum(1 for w in replies if w.head[:1] and not w.head[0] & 0x80),
        "server_datagrams": sum(1 for w in wires if w.src == server and w.action not in FORGED),
        "client_initials": sum(1 for w in wires if w.src == client and w.action not in FORGED and "initial" in _kinds(w.head, w.len)[0]),
    }
