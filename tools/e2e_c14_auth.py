"""C14, connection-ID authentication through transport parameters (RFC 9000 §7.3) on REAL endpoints (tie T).

Scenario family `tpauth` (registered in `e2e_props.FAMILIES` on import): a real s2n-quic client and server, with or
without a Retry, where the transport-parameter block ONE endpoint declares is rewritten before it is handed to the TLS
library (vh-e2e parameter `tp_mut=<ep>:<mutation>`, harness/vh-e2e/src/tpw.rs) - the peer of that endpoint is the
VALIDATOR.  From each trace this module reads, from the WIRE only (never from the scenario parameters):
  * the handshake facts: Destination / Source Connection ID of the client's first Initial, the Source Connection ID of
    the Retry the client followed (if any), the Source Connection ID of the server's first Initial
    (`wire` records, `quicparse.long_header`);
  * the bytes of the quic_transport_parameters extension each endpoint really sent (CRYPTO frames of the ClientHello /
    EncryptedExtensions, `quicparse.tls_transport_params_raw`);
  * what each validator did: completed the handshake, or closed the connection with a transport error code
    (`connectivity:connection_closed` event, CONNECTION_CLOSE frames it sealed).
Both directions of every run are judged (the un-rewritten direction is one more control).

  oracle   `o_c14_auth`: python transcription of §7.3 (+ `gen.transport_params.rfc_judge` for §7.4/§18.2 validity of
           the block), independent of the Lean model:
             e2e:c14:auth:accepted-invalid:<mutation>       the validator completed the handshake on an invalid block
             e2e:c14:auth:rejected-valid:<mutation>         … closed although everything matches
             e2e:c14:auth:wrong-code:<mutation>:<code>      … closed with a code that is neither TRANSPORT_PARAMETER_ERROR
                                                            nor a generic code (§11: PROTOCOL_VIOLATION / INTERNAL_ERROR)
             e2e:c14:auth:close-frame-code:<mutation>:<code>  the CONNECTION_CLOSE frame disagrees with the reported error
             e2e:c14:auth:close-frame-missing:<mutation>    a CLIENT validator reported the error but sealed no frame
           <mutation> = `<ep>:<spec>` (+ `@retry` when the server answered the first Initial with a Retry).
  model    `model_conformance`: the Lean transcription of session_context.rs (`Conn.TpAuth.onPeerBlock`, driver
           component `tp-auth`) is given the same facts and must take the validator's decision: accept, or
           TRANSPORT_PARAMETER_ERROR with the same `with_reason` text.
"""
import json
import re

import e2e
import e2e_props
import quicparse as qp

TRANSPORT_PARAMETER_ERROR = 0x08
PROTOCOL_VIOLATION = 0x0a
INTERNAL_ERROR = 0x01
ALLOWED = [TRANSPORT_PARAMETER_ERROR, PROTOCOL_VIOLATION, INTERNAL_ERROR]   # §7.3 / §7.4 / §11 (generic codes)

# ---------------------------------------------------------------------------------------
# catalogue: (endpoint whose DECLARED block is rewritten, mutation, retry modes it is run in)
# ---------------------------------------------------------------------------------------
NO, RT, BOTH = (0,), (1,), (0, 1)
CATALOGUE = [
    # ---- controls: nothing / the same value is rewritten, valid additions -> the handshake must succeed
    ("s", "none", BOTH), ("c", "none", BOTH),
    ("s", "odcid.same", BOTH), ("s", "iscid.same", BOTH), ("s", "rscid.same", RT), ("c", "iscid.same", BOTH),
    ("s", "iscid.copy.iscid", NO), ("s", "odcid.copy.odcid", RT),
    ("s", "srt.wf", BOTH), ("s", "pa.wf", NO),                      # server-only parameters in the SERVER's block: fine
    # ---- server block, no Retry happened: retry_source_connection_id appears
    ("s", "rscid.rand4", NO), ("s", "rscid.rand8", NO), ("s", "rscid.rand20", NO), ("s", "rscid.rand16", NO),
    ("s", "rscid.copy.iscid", NO), ("s", "rscid.copy.odcid", NO),
    # ---- server block: original_destination_connection_id dropped / altered (one byte, other length, empty, other id)
    ("s", "odcid.drop", BOTH), ("s", "odcid.flip0", BOTH), ("s", "odcid.flipmid", NO), ("s", "odcid.fliplast", BOTH),
    ("s", "odcid.trunc", NO), ("s", "odcid.ext", BOTH), ("s", "odcid.empty", NO), ("s", "odcid.rand8", BOTH),
    ("s", "odcid.rand20", NO), ("s", "odcid.copy.iscid", NO), ("s", "odcid.dup", NO),
    # … after a Retry: the Destination Connection ID of the SECOND Initial (= the Retry's Source Connection ID) instead
    # of the first one
    ("s", "odcid.copy.rscid", RT),
    # ---- server block: initial_source_connection_id dropped / altered
    ("s", "iscid.drop", BOTH), ("s", "iscid.flip0", BOTH), ("s", "iscid.flipmid", RT), ("s", "iscid.fliplast", NO),
    ("s", "iscid.trunc", BOTH), ("s", "iscid.ext", NO), ("s", "iscid.empty", BOTH), ("s", "iscid.rand16", NO),
    ("s", "iscid.copy.odcid", BOTH), ("s", "iscid.dup", NO),
    # ---- server block after a Retry: retry_source_connection_id dropped / altered
    ("s", "rscid.drop", RT), ("s", "rscid.flip0", RT), ("s", "rscid.flipmid", RT), ("s", "rscid.fliplast", RT),
    ("s", "rscid.trunc", RT), ("s", "rscid.ext", RT), ("s", "rscid.rand16", RT), ("s", "rscid.rand8", RT),
    ("s", "rscid.copy.odcid", RT), ("s", "rscid.dup", RT),
    # ---- client block: initial_source_connection_id dropped / altered
    ("c", "iscid.drop", BOTH), ("c", "iscid.flip0", BOTH), ("c", "iscid.flipmid", NO), ("c", "iscid.fliplast", RT),
    ("c", "iscid.trunc", BOTH), ("c", "iscid.ext", NO), ("c", "iscid.empty", BOTH), ("c", "iscid.rand16", NO),
    ("c", "iscid.rand8", RT), ("c", "iscid.dup", NO),
    # ---- client block: server-only parameters (§18.2: a client MUST NOT send them)
    ("c", "odcid.wf", BOTH), ("c", "rscid.wf", BOTH), ("c", "pa.wf", BOTH), ("c", "srt.wf", BOTH),
    ("c", "odcid.copy.iscid", NO), ("c", "rscid.copy.iscid", RT),
]
CASES = [(ep, spec, r) for ep, spec, modes in CATALOGUE for r in modes]


def mutation_name(params):
    m = params.get("tp_mut", "-")
    return m + ("@retry" if params.get("retry") else "")


def fam_tpauth(rng, i):
    """case i of the catalogue (every mutation x with / without Retry where meaningful); one round = every case once.
    About a third of the runs have mild loss / duplication / reordering during the handshake."""
    ep, spec, retry = CASES[i % len(CASES)]
    rnd = i // len(CASES)
    p = {"seed": rng.randrange(1, 2**40), "tp_mut": f"{ep}:{spec}", "retry": retry, "bidi": 1, "size": rng.choice([300, 2000]),
         "chunk": 700, "delay_ms": rng.choice([5, 10, 25]), "deadline_ms": 60000, "wire_head": 64}
    if (i + rnd) % 3 == 1:
        p.update({"drop_pm": rng.choice([50, 100, 150]), "dup_pm": rng.choice([0, 50]), "jitter_ms": rng.choice([0, 5, 20]),
                  "faults_until_ms": 3000})
    return e2e_props._nz(p)


e2e_props.FAMILIES["tpauth"] = fam_tpauth


# ---------------------------------------------------------------------------------------
# facts from the wire
# ---------------------------------------------------------------------------------------

class Facts:
    """handshake facts of one trace, all read from `wire` records and sealed CRYPTO frames"""

    def __init__(self, tr):
        self.problems = []
        wires = tr.of("wire")
        self.client_addr = wires[0].src if wires else None
        self.odcid = None            # Destination Connection ID of the client's first Initial
        self.client_scid = None      # Source Connection ID of the client's first Initial
        self.retry_scid = None       # Source Connection ID of the Retry the client followed
        self.server_scid = None      # Source Connection ID of the server's first Initial
        retries = []
        for w in wires:
            if w.action in ("corrupt-flip", "corrupt-truncate", "corrupt-splice"):
                continue
            h = qp.long_header(w.head)
            if h is None or h["version"] != 1:
                continue
            from_client = w.src == self.client_addr
            if from_client and h["kind"] == "initial":
                if self.odcid is None:
                    self.odcid, self.client_scid = h["dcid"], h["scid"]
                elif h["scid"] != self.client_scid:
                    self.problems.append("client changed its Source Connection ID during the handshake")
                if h["token_len"] > 0 and self.retry_scid is None:
                    # an Initial with a token: the client followed a Retry, whose Source Connection ID it now uses as
                    # Destination Connection ID (§17.2.5.2)
                    if h["dcid"] in retries:
                        self.retry_scid = h["dcid"]
                    else:
                        self.problems.append("Initial with a token whose Destination Connection ID names no Retry seen on the wire")
            elif not from_client and h["kind"] == "retry":
                retries.append(h["scid"])
            elif not from_client and h["kind"] == "initial":
                if self.server_scid is None:
                    self.server_scid = h["scid"]
                elif h["scid"] != self.server_scid:
                    self.problems.append("server changed its Source Connection ID during the handshake")
        self.retries_on_wire = len(retries)
        # declared blocks: raw extension bytes, per endpoint (first connection of that endpoint that sealed the message)
        self.block = {}
        for ep, space in (("c", "initial"), ("s", "handshake")):
            per_conn = {}
            for r in tr.recs:
                if r.kind == "txp" and r.ep == ep and r.space == space:
                    for f in r.frames:
                        if f["type"] == "CRYPTO":
                            per_conn.setdefault(r.conn, {})[f["offset"]] = f["data"]
            for conn in sorted(per_conn, key=lambda c: (len(c), c)):
                chunks = per_conn[conn]
                buf = bytearray()
                for off in sorted(chunks):
                    if off > len(buf):
                        break
                    d = chunks[off]
                    if off + len(d) > len(buf):
                        buf += d[len(buf) - off:]
                raw = qp.tls_transport_params_raw(bytes(buf))
                if raw is not None:
                    self.block[ep] = raw
                    break

    def handshake_for(self, sender):
        """(peer first-Initial SCID, Retry SCID or None, original DCID) as the validator of `sender`'s block sees them"""
        peer = self.server_scid if sender == "s" else self.client_scid
        return peer, self.retry_scid, self.odcid


CLOSE_RE = re.compile(r"error: (\w+)")


def parse_close(text):
    m = CLOSE_RE.search(text)
    kind = m.group(1) if m else "?"
    m = re.search(r"Code\(VarInt\((\d+)\)", text)
    code = int(m.group(1)) if m else None
    m = re.search(r"initiator: (\w+)", text)
    init = m.group(1) if m else None
    m = re.search(r'reason: "((?:[^"\\]|\\.)*)"', text)
    return kind, code, init, (m.group(1) if m else None)


class Validation:
    """what the validator of `sender`'s block did (first validator connection that reached parameter processing)"""

    def __init__(self, tr, sender):
        self.sender = sender
        self.validator = v = e2e.peer(sender)
        self.reached = False
        self.outcome = "not-reached"      # accepted | rejected | inconclusive | not-reached
        self.code = self.reason = self.conn = None
        self.close_frames = []
        self.instances = 0                # validator connections that reached parameter processing
        by_conn = {}
        for r in tr.recs:
            if r.kind == "ev" and r.ep == v and r.conn != "-":
                by_conn.setdefault(r.conn, []).append(r)
        verdicts = []
        for conn in sorted(by_conn, key=lambda c: (len(c), c)):
            evs = by_conn[conn]
            received = any(r.name == "transport:transport_parameters_received" for r in evs)
            complete_at = next((r.idx for r in evs if r.name == "connectivity:handshake_status_updated" and "Complete" in r.text), None)
            close = next((r for r in evs if r.name == "connectivity:connection_closed"), None)
            kind, code, init, reason = parse_close(close.text) if close else (None, None, None, None)
            local_transport = close is not None and kind == "Transport" and init == "Local" and (complete_at is None or close.idx < complete_at)
            reached = received or (local_transport and code == TRANSPORT_PARAMETER_ERROR)
            if not reached:
                continue
            if local_transport:
                verdicts.append((conn, "rejected", code, reason, close))
            elif complete_at is not None:
                verdicts.append((conn, "accepted", None, None, None))
            else:
                verdicts.append((conn, "inconclusive", None, None, close))
        self.instances = len(verdicts)
        if verdicts:
            self.reached = True
            self.conn, self.outcome, self.code, self.reason, close = verdicts[0]
            # later connections of a server validator (one per retransmitted first Initial) see the same bytes
            self.consistent = all((o, c, rs) == (self.outcome, self.code, self.reason) for _, o, c, rs, _ in verdicts)
            if self.outcome == "rejected":
                self.close_frames = [f for r in tr.recs if r.kind == "txp" and r.ep == v and r.conn == self.conn
                                     for f in r.frames if f["type"] == "CONNECTION_CLOSE"]
        else:
            self.consistent = True


def analyse(tr):
    """-> (Facts, {sender: Validation}); cached on the trace object"""
    c = getattr(tr, "_c14_auth", None)
    if c is None:
        c = (Facts(tr), {s: Validation(tr, s) for s in ("c", "s")})
        tr._c14_auth = c
    return c


# ---------------------------------------------------------------------------------------
# the property oracle (python, written from RFC 9000 §7.3 / §7.4 / §18.2; independent of the Lean model)
# ---------------------------------------------------------------------------------------

def rfc_expect(sender, facts):
    """-> (verdict, why): True = the block must be accepted, False = must be rejected, None = no requirement / not decidable"""
    blk = facts.block.get(sender)
    peer, retry, odcid = facts.handshake_for(sender)
    if blk is None or peer is None or odcid is None or facts.problems:
        return None, "facts incomplete"
    return rfc_expect_raw("server" if sender == "s" else "client", blk, peer, retry, odcid)


def rfc_expect_raw(role, blk, peer, retry, odcid):
    """RFC 9000 §7.3 (+ §7.4/§18.2 through `rfc_judge`) for a block SENT by `role` in a handshake where the validator saw
    `peer` (Source Connection ID of the sender's first Initial), followed the Retry `retry` (None: no Retry) and the
    client's first Initial went to `odcid`"""
    import gen.transport_params as g
    verdict, problems, items = g.rfc_judge(role, blk)
    if verdict is False:
        return False, ",".join(problems)

    def vals(i):
        return [v for j, v in items if j == i]

    why = []
    # "absence of the initial_source_connection_id transport parameter from either endpoint" / value mismatch
    if vals(0x0f) != [peer]:
        why.append("initial_source_connection_id " + ("absent" if not vals(0x0f) else "differs from the Source Connection ID of the peer's first Initial"))
    if role == "server":
        if vals(0x00) != [odcid]:
            why.append("original_destination_connection_id " + ("absent" if not vals(0x00) else "differs from the Destination Connection ID of the client's first Initial"))
        if retry is None and vals(0x10):
            why.append("retry_source_connection_id present although no Retry was received")
        if retry is not None and vals(0x10) != [retry]:
            why.append("retry_source_connection_id " + ("absent after a Retry" if not vals(0x10) else "differs from the Retry's Source Connection ID"))
    if why:
        return False, "; ".join(why)
    return (True if verdict else None), ""


def o_c14_auth(tr):
    facts, vals = analyse(tr)
    name = mutation_name(tr.params)
    mutated = tr.params.get("tp_mut", "-:").split(":")[0]
    bad = []
    for sender, v in vals.items():
        if not v.reached or v.outcome == "inconclusive":
            continue
        tag = name if sender == mutated else f"{name}:unmodified-{sender}-block"
        expect, why = rfc_expect(sender, facts)
        if expect is None:
            continue
        if v.outcome == "accepted" and expect is False:
            bad.append((f"e2e:c14:auth:accepted-invalid:{tag}", f"validator {v.validator} completed the handshake although the {sender} block is invalid: {why} "
                        f"(block {facts.block[sender].hex()}, handshake {fmt_h(facts.handshake_for(sender))})"))
        elif v.outcome == "rejected":
            if expect is True:
                bad.append((f"e2e:c14:auth:rejected-valid:{tag}", f"validator {v.validator} closed with {v.code:#x} ({v.reason!r}) although the {sender} block is valid and "
                            f"matches the handshake (block {facts.block[sender].hex()}, handshake {fmt_h(facts.handshake_for(sender))})"))
                continue
            if v.code not in ALLOWED:
                bad.append((f"e2e:c14:auth:wrong-code:{tag}:{v.code:#x}", f"validator {v.validator} closed with transport error {v.code:#x}; RFC 9000 §7.3/§7.4 want "
                            f"TRANSPORT_PARAMETER_ERROR (0x8) or a generic code ({why})"))
            wrong = [f for f in v.close_frames if f["app"] or f["code"] != v.code]
            if wrong:
                bad.append((f"e2e:c14:auth:close-frame-code:{tag}:{wrong[0]['code']:#x}", f"validator {v.validator} reported {v.code:#x} but its CONNECTION_CLOSE frame "
                            f"says {'application ' if wrong[0]['app'] else ''}{wrong[0]['code']:#x}"))
            if not v.close_frames and v.validator == "c":
                # a server that fails on the very first packet of a connection drops the attempt without answering
                # (endpoint/initial.rs; §10.2.3 lets a server discard instead); a client has no such excuse
                bad.append((f"e2e:c14:auth:close-frame-missing:{tag}", f"validator c reported {v.code:#x} but sealed no CONNECTION_CLOSE frame"))
        if not v.consistent:
            bad.append((f"e2e:c14:auth:inconsistent-instances:{tag}", f"validator {v.validator} judged the same block differently in {v.instances} connection attempts"))
    return bad


def fmt_h(h):
    peer, retry, odcid = h
    return f"peer-scid={hx(peer)} retry-scid={hx(retry) if retry is not None else 'none'} original-dcid={hx(odcid)}"


def hx(b):
    return b.hex() if b else "-"


def outcome_key(v):
    if v.outcome == "rejected":
        return f"rejected:{v.code:#x}:{reason_key(v.reason)}"
    return v.outcome


REASON_KEYS = {
    "initial_source_connection_id mismatch": "iscid-mismatch",
    "missing initial_source_connection_id": "iscid-missing",
    "retry_source_connection_id mismatch": "rscid-mismatch",
    "retry_source_connection_id transport parameter absent after receiving a Retry packet from the server": "rscid-absent-after-retry",
    "retry_source_connection_id transport parameter present when no Retry packet was received": "rscid-present-without-retry",
    "original_destination_connection_id mismatch": "odcid-mismatch",
    "missing original_destination_connection_id": "odcid-missing",
    "Invalid transport parameters": "decode",
}


def reason_key(reason):
    return REASON_KEYS.get(reason, "other")


def nontrivial(tr, s):
    """a run counts when the validator of the REWRITTEN block really reached parameter validation and gave a verdict"""
    facts, vals = analyse(tr)
    mutated = tr.params.get("tp_mut", "-:").split(":")[0]
    v = vals.get(mutated)
    return bool(v and v.reached and v.outcome in ("accepted", "rejected") and facts.block.get(mutated) is not None and not facts.problems)


# ---------------------------------------------------------------------------------------
# tie T proper: the Lean transcription takes the validator's decision
# ---------------------------------------------------------------------------------------

def model_op(sender, facts):
    blk = facts.block.get(sender)
    peer, retry, odcid = facts.handshake_for(sender)
    if blk is None or peer is None or odcid is None or facts.problems:
        return None
    return "block {} {} {} {} {}".format("server" if sender == "s" else "client", hx(peer), hx(retry) if retry is not None else "none", hx(odcid), hx(blk))


def model_conformance(ctx, traces):
    """every validation that gave a verdict is replayed through `Conn.TpAuth.onPeerBlock` (Lean driver `tp-auth`): same
    accept / reject decision, same error code, same `with_reason` text; the Lean §7.3 predicate (`tp-auth-rfc`) must
    agree with the python oracle on the same inputs (the two references are independent of each other)"""
    import os
    from vlib import DRIVER, run_lines
    if not os.path.exists(DRIVER):
        ctx.oblige("correspond", "T:tpauth: Lean model replays the validators' decisions (driver missing)", False, DRIVER)
        return
    lines, meta = [], []
    mut_counts = {}
    for tr in traces:
        facts, vals = analyse(tr)
        name = mutation_name(tr.params)
        mutated = tr.params.get("tp_mut", "-:").split(":")[0]
        for sender, v in vals.items():
            if sender == mutated:
                ctx.count("e2e:tpauth:mutation:" + name)
                ctx.count("e2e:tpauth:outcome:" + outcome_key(v))
                mut_counts.setdefault(name, {}).setdefault(outcome_key(v), 0)
                mut_counts[name][outcome_key(v)] += 1
                if v.outcome == "rejected" and not v.close_frames:
                    ctx.count(f"e2e:tpauth:close-frame-absent:validator-{v.validator}")
            else:
                ctx.count("e2e:tpauth:unmodified-direction:" + outcome_key(v))
            if facts.problems and sender == mutated:
                ctx.count("e2e:tpauth:facts-ambiguous")
            if not v.reached or v.outcome == "inconclusive":
                continue
            op = model_op(sender, facts)
            if op is None:
                continue
            lines.append(op)
            meta.append((tr, sender, v, facts))
    ctx.extra["tpauth_mutation_outcomes"] = {k: mut_counts[k] for k in sorted(mut_counts)}
    if not lines:
        ctx.oblige("correspond", "T:tpauth: at least one validation reached a verdict", False, "no trace reached parameter validation")
        return
    rc, out, err = run_lines([DRIVER, "tp-auth"], lines)
    rc2, out2, err2 = run_lines([DRIVER, "tp-auth-rfc"], lines)
    if rc != 0 or len(out) != len(lines) or rc2 != 0 or len(out2) != len(lines):
        ctx.oblige("correspond", "T:tpauth: Lean model replays the validators' decisions", False, f"driver failed rc={rc}/{rc2} {err[-300:]} {err2[-300:]}")
        return
    mism, ref_mism = [], []
    for (tr, sender, v, facts), op, o, o2 in zip(meta, lines, out, out2):
        ctx.evaluations += 1
        name = mutation_name(tr.params)
        if o == "ok accept":
            model = ("accepted", None, None)
        elif o.startswith("err "):
            head, _, reason = o.partition(" | ")
            model = ("rejected", int(head.split(" ")[1]), reason)
        else:
            model = ("bad-op", None, None)
        impl = (v.outcome, v.code, v.reason)
        if model != impl:
            mism.append((tr, sender, name, op, f"implementation {show(impl)}, model {show(model)}"))
        expect, why = rfc_expect(sender, facts)
        if expect is not None and expect != (o2 == "ok accept"):
            ref_mism.append(f"{op}: python §7.3 says {'valid' if expect else 'invalid (' + why + ')'}, Lean Rfc.TpAuth says {o2}")
    detail = "; ".join(f"{name} ({sender} block): {msg} [{op}] [{' '.join(e2e.args_of(tr.params))}]" for tr, sender, name, op, msg in mism[:4])
    ctx.oblige("correspond", f"T:tpauth: Conn.TpAuth.onPeerBlock (Lean transcription of session_context.rs) takes the real validator's decision "
               f"(accept / error code / reason) in each of {len(lines)} parameter validations", not mism, detail)
    if mism:
        ctx.extra.setdefault("disagreements", []).append({"component": "tp-auth", "count": len(mism), "first": detail[:1500]})
        seen = set()
        for tr, sender, name, op, msg in mism:
            sig = f"e2e:c14:auth:model-mismatch:{name}"
            if sig in seen:
                continue
            seen.add(sig)
            ctx.violation(sig, f"{sender} block: {msg}", {"kind": "e2e", "harness": "vh-e2e", "scenario": tr.params, "scenario_args": e2e.args_of(tr.params),
                                                             "lean_component": "tp-auth", "ops": [op],
                                                             "replay": "harness/vh-e2e binary with scenario_args; tools/e2e_c14_auth.py analyse(); lean driver tp-auth on ops"})
    ctx.oblige("correspond", f"python §7.3 oracle and Lean Rfc.TpAuth / Rfc.TransportParams agree on {len(lines)} observed (handshake, block) pairs",
               not ref_mism, "; ".join(ref_mism[:3]))


def synthetic_ops(rng, n):
    """(handshake, block) pairs that need no endpoint: connection IDs drawn from a small pool so that every match /
    mismatch / absence / duplication combination of the three parameters occurs, for both roles, with and without a
    Retry; a few ordinary and unknown parameters around them. Lengths stay inside what decoder and RFC agree on
    (the known decoder deviations F10-F12 are the business of the `tp` component)."""
    import gen.transport_params as g
    ops = []
    for _ in range(n):
        role = rng.choice(["server", "server", "client"])
        pool = [bytes(rng.randrange(256) for _ in range(rng.choice([4, 8, 8, 16, 20]))) for _ in range(3)]
        peer = rng.choice(pool + [b""])
        odcid = rng.choice([p for p in pool if len(p) >= 8] or [bytes(8)])
        retry = rng.choice([None, None, pool[0], pool[1]])
        near = lambda b: (bytes([b[0] ^ 1]) + b[1:]) if b else b"\x00"
        cand = pool + [peer, odcid, near(peer), near(odcid), odcid[:-1], peer + b"\xee"] + ([retry, near(retry)] if retry else [])
        items = []
        if rng.random() < 0.85:
            items.append((0x0f, peer if rng.random() < 0.6 else rng.choice(cand)))
        if role == "server" or rng.random() < 0.15:
            if rng.random() < 0.85:
                items.append((0x00, odcid if rng.random() < 0.6 else rng.choice(cand)))
            if rng.random() < (0.8 if retry else 0.3):
                v = retry if (retry and rng.random() < 0.6) else rng.choice(cand)
                items.append((0x10, v))
        if rng.random() < 0.08 and items:
            items.append(rng.choice(items))         # a repeated parameter
        if rng.random() < 0.5:
            items.append((0x04, bytes(g.vi(rng.choice([0, 7, 70000])))))
        if rng.random() < 0.3:
            items.append((31 * rng.randrange(1, 50) + 27, bytes(rng.randrange(256) for _ in range(rng.randrange(0, 5)))))
        rng.shuffle(items)
        # keep to lengths on which decoder and RFC agree: retry_source_connection_id of 0..3 bytes is F11
        items = [(i, v) for i, v in items if not (i == 0x10 and len(v) < 4)]
        blk = bytes(x for i, v in items for x in g.tlv(i, v))
        ops.append(("block {} {} {} {} {}".format(role, hx(peer), hx(retry) if retry is not None else "none", hx(odcid), hx(blk)), role, blk, peer, retry, odcid))
    return ops


def synthetic_crosscheck(ctx, n):
    """implementation-free: the Lean transcription (`tp-auth`), the Lean §7.3/§7.4 reference (`tp-auth-rfc`) and the python
    oracle take the same accept / reject decision on n synthetic (handshake, block) pairs - the executable twin of
    `tp_block_auth_iff_rfc`, and the guarantee that the three judges used on the real traces mean the same thing"""
    import os
    from vlib import DRIVER, run_lines
    if not os.path.exists(DRIVER):
        ctx.oblige("correspond", "tpauth synthetic cross-check (driver missing)", False, DRIVER)
        return
    ops = synthetic_ops(ctx.rng("tpauth/synthetic"), n)
    lines = [o[0] for o in ops]
    rc, a, err = run_lines([DRIVER, "tp-auth"], lines)
    rc2, b, err2 = run_lines([DRIVER, "tp-auth-rfc"], lines)
    if rc != 0 or rc2 != 0 or len(a) != len(lines) or len(b) != len(lines):
        ctx.oblige("correspond", "tpauth synthetic cross-check", False, f"driver failed rc={rc}/{rc2} {err[-300:]} {err2[-300:]}")
        return
    bad = []
    dist = {}
    for (line, role, blk, peer, retry, odcid), x, y in zip(ops, a, b):
        ctx.evaluations += 1
        expect, why = rfc_expect_raw(role, blk, peer, retry, odcid)
        key = x.split(" | ")[0]
        dist[key] = dist.get(key, 0) + 1
        if x == "bad-op" or y == "bad-op":
            bad.append(f"{line}: bad-op")
        elif (x == "ok accept") != (y == "ok accept"):
            bad.append(f"{line}: model {x}, Lean RFC {y}")
        elif expect is not None and expect != (y == "ok accept"):
            bad.append(f"{line}: Lean RFC {y}, python {'valid' if expect else 'invalid: ' + why}")
        if x == "ok accept":
            ctx.nontrivial.add("tpauth-syn|" + line)
    for k, v in sorted(dist.items()):
        ctx.count("tpauth:synthetic:" + k.replace(" ", ":"), v)
    ctx.oblige("correspond", f"Conn.TpAuth.onPeerBlock = Rfc (Lean) = python §7.3/§7.4 on {len(lines)} synthetic (handshake, block) pairs "
               f"({dist.get('ok accept', 0)} accepted)", not bad, "; ".join(bad[:3]))
    if bad:
        ctx.violation("c14:auth:references-disagree", bad[0], {"kind": "ops", "lean_component": "tp-auth", "ops": [bad[0].split(": ")[0]]}, found_input=True)


def show(x):
    o, c, r = x
    return f"{o}" + (f" {c:#x} {r!r}" if o == "rejected" and c is not None else "")


def summary_line(tr):
    facts, vals = analyse(tr)
    return {"mutation": mutation_name(tr.params), "facts": fmt_h((facts.server_scid, facts.retry_scid, facts.odcid)) + f" client-scid={hx(facts.client_scid)}",
            "validation_of": {s + "-block": outcome_key(v) for s, v in vals.items()}, "problems": facts.problems}


if __name__ == "__main__":
    import sys
    params = {k: (int(v) if v.isdigit() else v) for k, v in (a.split("=", 1) for a in sys.argv[1:])}
    t = e2e.Trace(params, e2e.run_one(params))
    print(json.dumps(summary_line(t), indent=1))
    print(o_c14_auth(t))
    for s in ("c", "s"):
        print(model_op(s, analyse(t)[0]))
