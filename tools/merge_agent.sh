#!/bin/sh
# usage: tools/merge_agent.sh <clone dir> <branch>   — merge an agent branch, resolving generated files
cd /verif
git pull --no-edit -q "$1" "$2" 2>&1 | grep -v "^CONFLICT\|Automatic merge" | tail -3
for f in lean/QuicModel.lean lean/QuicProofs.lean lean/QuicModel/Drivers/All.lean harness/vh-core/src/comp/mod.rs harness/vh-dc/src/comp/mod.rs harness/vh-e2e/src/comp/mod.rs; do
  git rm -q --cached "$f" 2>/dev/null
done
for f in $(git diff --name-only --diff-filter=U | grep "^evidence/\|MANIFEST.json"); do git checkout --ours "$f" 2>/dev/null; git add "$f"; done
python3 tools/regen.py
git status --short | grep "^UU\|^AA\|^U.\|^.U" 
