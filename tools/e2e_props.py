"""Scenario families and the generic runner that turns end-to-end traces into obligations (tie T)."""
import json
import os

import e2e
from vlib import cargo_build, tier_n, WORK


def _nz(d):
    return {k: v for k, v in d.items() if not (isinstance(v, int) and v == 0 and k not in ("size", "bidi", "uni", "suni", "reset_stream", "stop_stream", "stop_after", "wapi", "rapi"))}


def fam_mixed(rng, i):
    """random faults, windows from tiny to default, several streams; sizes bounded so that runs stay short"""
    win = rng.choice([0, 0, 1, 7, 100, 1200, 5000, 70000])
    cwin = rng.choice([0, 0, 1, 50, 300, 4000, 70000])
    dwin = rng.choice([0, 0, 1000, 3000, 50000])
    smallest = min([w for w in (win, cwin, dwin) if w] or [10**9])
    size = rng.choice([0, 1, 300, 5000, 70000, 250000])
    if smallest <= 5000:
        # flow-control limited transfers advance one window per round trip: keep them short
        size = min(size, smallest * rng.choice([3, 20, 60]))
    chunk = max(rng.choice([1, 100, 1000, 20000]), size // 1500 + 1)
    p = {
        "seed": rng.randrange(1, 2**40),
        "drop_pm": rng.choice([0, 0, 20, 100, 250]), "dup_pm": rng.choice([0, 0, 50, 200]),
        "jitter_ms": rng.choice([0, 0, 10, 60]), "corrupt_pm": rng.choice([0, 0, 30, 100]),
        "replay_pm": rng.choice([0, 0, 100]), "inject_pm": rng.choice([0, 0, 100]),
        "delay_ms": rng.choice([1, 10, 25, 80]),
        "bidi": rng.choice([0, 1, 1, 3, 8]), "uni": rng.choice([0, 0, 2]), "suni": rng.choice([0, 0, 1, 3]),
        "size": size, "chunk": chunk, "cc": rng.choice(["cubic", "bbr"]),
        "s.bidi_remote": win, "c.bidi_local": cwin, "s.data_window": dwin, "c.data_window": rng.choice([0, 0, 3000]),
        "s.uni": rng.choice([0, 0, 2000]), "c.uni": rng.choice([0, 0, 900]),
        "s.max_bidi_remote": rng.choice([0, 0, 1, 2, 100]), "s.max_uni_remote": rng.choice([0, 0, 1, 3]),
        "c.max_uni_remote": rng.choice([0, 0, 1]),
        "faults_until_ms": rng.choice([2000, 5000, 20000]),
        "read_delay_ms": rng.choice([0, 0, 0, 5]),
        "net_mtu": rng.choice([65535, 65535, 1500, 1300]),
        "deadline_ms": 120000,
        "retry": rng.choice([0, 0, 0, 0, 1]),
        "wapi": rng.choice([0, 0, 9, 9, 1, 2, 3, 4]), "rapi": rng.choice([0, 0, 9, 9, 1, 2, 3]),
        "rbuf": rng.choice([1, 100, 700, 5000]),
        "c.send_buffer": rng.choice([0, 0, 2000, 20000]), "s.send_buffer": rng.choice([0, 0, 3000]),
    }
    if p["bidi"] + p["uni"] + p["suni"] == 0:
        p["bidi"] = 1
    if rng.random() < 0.2:
        p["reset_stream"] = 0
        p["reset_after"] = rng.choice([1, 100, 3000])
    if rng.random() < 0.2:
        p["stop_stream"] = 0
        p["stop_after"] = rng.choice([0, 0, 1, 100, 3000])
    if rng.random() < 0.1:
        p["close_at_ms"] = rng.choice([30, 200, 1000])
    if "reset_stream" in p and rng.random() < 0.3:
        p["reset_after"] = 10**9          # never during the writes: finish first, reset a little later
        p["reset_after_finish_ms"] = rng.choice([1, 30, 120])
    return _nz(p)


def fam_sink(rng, i):
    """receiver-only server (client uni streams): ACK promptness is not masked by the sender's pacer"""
    p = {
        "seed": rng.randrange(1, 2**40), "bidi": 0, "uni": rng.choice([1, 2, 4]), "size": rng.choice([3000, 40000, 120000]),
        "chunk": rng.choice([500, 5000]), "drop_pm": rng.choice([0, 30, 100]), "jitter_ms": rng.choice([0, 5, 40]),
        "dup_pm": rng.choice([0, 50]), "delay_ms": rng.choice([5, 25, 60]), "cc": rng.choice(["cubic", "bbr"]),
        "s.max_ack_delay_ms": rng.choice([0, 0, 10, 50]), "deadline_ms": 120000,
    }
    return _nz(p)


def fam_blackhole(rng, i):
    """finite fault prefix with a total blackhole somewhere in the handshake/transfer, then recovery; or a
    permanent blackhole (the failure must then be reported within the idle timeout)"""
    forever = rng.random() < 0.4
    start = rng.choice([0, 1, 20, 45, 60, 120, 300, 800])
    idle = rng.choice([2000, 5000, 12000])
    p = {
        "seed": rng.randrange(1, 2**40), "bidi": rng.choice([1, 2]), "uni": rng.choice([0, 1]), "size": rng.choice([2000, 30000, 120000]),
        "chunk": 2000, "delay_ms": rng.choice([10, 25]),
        "s.bidi_remote": rng.choice([0, 500, 4000]), "s.data_window": rng.choice([0, 3000]), "s.max_bidi_remote": rng.choice([0, 1]),
        "c.max_idle_ms": idle, "s.max_idle_ms": idle,
        "drop_pm": rng.choice([0, 50]), "faults_until_ms": 1500,
        "deadline_ms": 200000,
    }
    if i % 2 == 1:
        # the endpoints advertise DIFFERENT idle timeouts: the effective one is the minimum (RFC 9000 10.1)
        other = rng.choice([x for x in (2000, 5000, 12000, 30000) if x != idle])
        p[rng.choice(["c.max_idle_ms", "s.max_idle_ms"])] = other
    d = rng.choice([0, 1, 2])
    if forever:
        p["bh"] = f"{start}:100000000:{d}"
    else:
        p["bh"] = f"{start}:{start + rng.choice([30, 200, 900, 1500])}:{d}"
    return _nz(p)


# adversarial-peer catalogue and family: tools/e2e_c04.py (violation classes, RFC error table, scenario cases)
import e2e_c04  # noqa: E402

# name -> acceptable transport error codes (RFC 9000 §20.1 plus the generic codes §11 permits); None = control case
ATTACKS = {n: (None if c in ("ok", "space") else e2e_c04.error_for(c)) for n, c in e2e_c04.ATTACKS.items()}
fam_attack = e2e_c04.fam_attack


def fam_handshake(rng, i):
    """lossy/duplicating handshakes with different client datagram sizes (anti-amplification)"""
    p = {
        "seed": rng.randrange(1, 2**40), "bidi": 1, "size": rng.choice([100, 5000]), "chunk": 1000,
        "drop_pm": rng.choice([0, 100, 300, 500]), "dup_pm": rng.choice([0, 100, 300]), "jitter_ms": rng.choice([0, 20, 200]),
        "corrupt_pm": rng.choice([0, 100]), "delay_ms": rng.choice([5, 25, 100, 400]), "faults_until_ms": rng.choice([500, 3000]),
        "max_mtu": rng.choice([0, 0, 1200, 9000]), "inject_pm": rng.choice([0, 200]), "replay_pm": rng.choice([0, 200]),
        "deadline_ms": 120000,
    }
    if rng.random() < 0.3:
        p["bh"] = f"{rng.choice([0, 5, 30, 60])}:{rng.choice([100, 400, 1200])}:{rng.choice([1, 2])}"
    return _nz(p)


def fam_flowctl(rng, i):
    """tiny stream/connection/stream-count credit so that every kind of blocking happens; resets and
    STOP_SENDING arrive after data was queued beyond the credit; MAX_* frames get lost"""
    win = rng.choice([1, 10, 100, 400, 1000, 3000])
    p = {
        "seed": rng.randrange(1, 2**40), "bidi": rng.choice([1, 2, 4, 6]), "uni": rng.choice([0, 1, 3]), "suni": rng.choice([0, 1]),
        "size": min(rng.choice([500, 3000, 20000]), win * rng.choice([4, 30, 100])), "chunk": rng.choice([50, 600, 5000]),
        "s.bidi_remote": win, "s.uni": rng.choice([0, win]), "c.bidi_local": rng.choice([0, max(1, win // 2), 200, 2000]),
        "s.data_window": rng.choice([0, win * 2, 1000, 5000]), "c.data_window": rng.choice([0, 500, 5000]),
        "s.max_bidi_remote": rng.choice([0, 1, 2, 3]), "s.max_uni_remote": rng.choice([0, 1, 2]),
        "drop_pm": rng.choice([0, 0, 100, 250]), "dup_pm": rng.choice([0, 100]), "jitter_ms": rng.choice([0, 30]),
        "delay_ms": rng.choice([5, 25]), "faults_until_ms": 4000, "deadline_ms": 120000,
    }
    if rng.random() < 0.6:
        p["reset_stream"] = 0
        p["reset_after"] = rng.choice([1, win, win + 1, win * 3, 5000])
        p["reset_delay_ms"] = rng.choice([0, 1, 60, 300])
        if rng.random() < 0.5:
            # data queued beyond the stream credit while connection credit is ample, transmitted, then reset
            p["reset_after"] = win * rng.choice([2, 3, 7]) + 1
            p["size"] = max(p["size"], p["reset_after"] + 100)
            p["reset_delay_ms"] = rng.choice([60, 150, 400])
            p["s.data_window"] = rng.choice([0, p["reset_after"] * 4])
    if rng.random() < 0.3:
        p["stop_stream"] = 0
        p["stop_after"] = rng.choice([0, 0, 1, win // 2 + 1, win * 2])
    if "reset_stream" in p and rng.random() < 0.25:
        p["reset_after"] = 10**9
        p["reset_after_finish_ms"] = rng.choice([1, 30, 120])
    p["wapi"] = rng.choice([0, 0, 9, 1, 3])
    p["rapi"] = rng.choice([0, 0, 9, 1, 2])
    p["rbuf"] = rng.choice([1, 50, 700])
    return _nz(p)


def fam_forgery(rng, i):
    """heavy injection of forged / garbled / spliced / replayed datagrams into a live connection"""
    p = {
        "seed": rng.randrange(1, 2**40), "bidi": rng.choice([1, 2, 4]), "uni": rng.choice([0, 1]), "suni": rng.choice([0, 1]),
        "size": rng.choice([2000, 30000, 150000]), "chunk": rng.choice([300, 4000]),
        "corrupt_pm": rng.choice([50, 200, 400]), "inject_pm": rng.choice([0, 200, 600]), "replay_pm": rng.choice([0, 200, 600]),
        "dup_pm": rng.choice([0, 100, 300]), "drop_pm": rng.choice([0, 50]), "jitter_ms": rng.choice([0, 20, 100]),
        "delay_ms": rng.choice([5, 25]), "cc": rng.choice(["cubic", "bbr"]), "faults_until_ms": rng.choice([3000, 10000]),
        "deadline_ms": 120000,
    }
    return _nz(p)


def fam_acklimited(rng, i):
    """bidirectional bulk transfer over a long, lossy path: both endpoints spend long periods congestion
    limited (small windows after loss) while ack-eliciting packets keep arriving"""
    p = {
        "seed": rng.randrange(1, 2**40), "bidi": rng.choice([0, 1, 2]), "uni": rng.choice([1, 2]), "suni": rng.choice([1, 2, 3]),
        "size": rng.choice([150000, 400000]), "chunk": 20000, "delay_ms": rng.choice([40, 80, 150]),
        "drop_pm": rng.choice([30, 80, 150]), "jitter_ms": rng.choice([0, 5]), "cc": rng.choice(["cubic", "cubic", "bbr"]),
        "faults_until_ms": rng.choice([3000, 8000]), "bh": f"{rng.choice([300, 600])}:{rng.choice([900, 1500])}:{rng.choice([1, 2])}",
        "deadline_ms": 200000,
    }
    return _nz(p)


def fam_apis(rng, i):
    """every application-facing read/write API of the stream types (send, send_vectored, tokio and futures
    AsyncWrite incl. write_vectored; receive, receive_vectored, tokio and futures AsyncRead with small buffers)
    under back-pressure: small send buffers, writes larger than the free space, slow readers, data and FIN
    buffered before the reader looks"""
    wapi = [1, 2, 3, 4, 0, 9][i % 6]
    rapi = [1, 2, 3, 0, 9][(i // 2) % 5]
    p = {
        "seed": rng.randrange(1, 2**40), "wapi": wapi, "rapi": rapi,
        "bidi": rng.choice([1, 2]), "uni": rng.choice([0, 1]), "suni": rng.choice([0, 1]),
        "size": rng.choice([20000, 100000, 300000]), "chunk": rng.choice([3000, 20000, 60000]),
        "c.send_buffer": rng.choice([1000, 4000, 8000, 0]), "s.send_buffer": rng.choice([1500, 6000, 0]),
        "rbuf": rng.choice([1, 64, 700, 9000]), "read_delay_ms": rng.choice([0, 0, 5, 30]),
        "delay_ms": rng.choice([1, 10, 25]), "drop_pm": rng.choice([0, 0, 30]), "jitter_ms": rng.choice([0, 5]),
        "s.bidi_remote": rng.choice([0, 0, 20000]), "faults_until_ms": 3000, "deadline_ms": 120000,
    }
    return _nz(p)


def fam_stopfin(rng, i):
    """short finished streams whose first packets are lost while the receiver answers with STOP_SENDING at once
    (or the sender resets right after finishing): RESET_STREAM races with pending retransmissions"""
    p = {
        "seed": rng.randrange(1, 2**40), "bidi": rng.choice([1, 2, 3]), "uni": rng.choice([0, 1, 2]), "suni": 0,
        "size": rng.choice([1500, 3000, 6000, 12000]), "chunk": rng.choice([700, 3000]),
        "drop_pm": rng.choice([150, 250, 350]), "dup_pm": rng.choice([0, 50]), "jitter_ms": rng.choice([0, 10]),
        "delay_ms": rng.choice([10, 40, 100]), "faults_until_ms": 6000, "deadline_ms": 120000,
    }
    if i % 2 == 0:
        p["stop_stream"] = rng.choice([0, 0, 1])
        p["stop_after"] = 0
    else:
        p["reset_stream"] = 0
        p["reset_after"] = 10**9
        p["reset_after_finish_ms"] = rng.choice([1, 20, 60, 150])
    return _nz(p)


def fam_closing(rng, i):
    """the client closes in the middle of a transfer while the server keeps sending (its copy of the close is
    often lost), with short connection-ID lifetimes so that unrelated connection timers keep firing"""
    p = {
        "seed": rng.randrange(1, 2**40), "bidi": rng.choice([0, 1]), "uni": rng.choice([0, 1]), "suni": rng.choice([1, 2, 3]),
        "size": rng.choice([100000, 400000]), "chunk": 20000, "delay_ms": rng.choice([10, 30, 80]),
        "close_at_ms": rng.choice([150, 400, 900]), "drop_pm": rng.choice([0, 100, 300]), "jitter_ms": rng.choice([0, 10]),
        "c.cid_lifetime_ms": rng.choice([0, 60000, 61000]), "s.cid_lifetime_ms": rng.choice([0, 60000]),
        "faults_until_ms": 5000, "deadline_ms": 120000,
    }
    if i % 3 != 0:
        # the server never hears the close (client->server blackhole from the close on) and keeps sending a large
        # transfer: dense, then PTO-spaced arrivals at the closing client, whose own PTO / ack / connection-id timers
        # still fire
        p["size"] = rng.choice([1000000, 3000000])
        p["close_at_ms"] = rng.choice([150, 250, 400])
        p["delay_ms"] = rng.choice([10, 30])
        p["bh"] = f"{p['close_at_ms'] - rng.choice([0, 5])}:{p['close_at_ms'] + 60000}:1"
    return _nz(p)


FAMILIES = {"stopfin": fam_stopfin, "closing": fam_closing, "apis": fam_apis, "acklimited": fam_acklimited, "flowctl": fam_flowctl, "forgery": fam_forgery, "mixed": fam_mixed, "sink": fam_sink, "blackhole": fam_blackhole, "attack": fam_attack, "handshake": fam_handshake}


def summarize(tr):
    apps = tr.of("app")
    wires = tr.of("wire")
    return {
        "params": tr.params,
        "end": tr.end[1] if tr.end else None,
        "virtual_ms": (tr.end[0] // 1000) if tr.end else None,
        "bytes_read": sum(int(r.args[2]) for r in apps if r.what == "read"),
        "datagrams": len(wires),
        "faults": sum(1 for w in wires if w.action not in ("deliver",)),
        "packets": sum(1 for r in tr.recs if r.kind == "txp"),
    }


def run_family(ctx, family, oracles, n_quick, n_thorough, name=None, nontrivial=None, post=None, salt=""):
    """generate scenarios of a family, run them on the REAL endpoints, evaluate the oracles on each trace"""
    ok, out = cargo_build("vh-e2e")
    if not ok:
        ctx.oblige("build", "vh-e2e builds against /repo's working tree", False, out)
        return []
    n = tier_n(ctx, n_quick, n_thorough)
    rng = ctx.rng("e2e/" + family + salt)     # `salt`: an independent scenario sample of the same family
    scen = [FAMILIES[family](rng, i) for i in range(n)]
    traces = e2e.run_many(scen)
    fails = []
    if not any(o.__name__ in ("o_c02", "o_c02_term", "o_panic") for o in oracles):
        oracles = list(oracles) + [e2e.o_panic]     # a panicking endpoint fails every family
    for tr in traces:
        s = summarize(tr)
        ctx.evaluations += 1
        ctx.count(f"e2e:{family}:end:{s['end']}")
        if nontrivial(tr, s) if nontrivial else (s["end"] == "ok" and s["bytes_read"] > 0):
            ctx.nontrivial.add(f"e2e|{family}|{json.dumps(tr.params, sort_keys=True)}")
        if len(ctx.samples) < 10:
            ctx.sample({"e2e_family": family, **s})
        for o in oracles:
            try:
                res = o(tr)
            except Exception as e:    # an oracle crash is a broken check, not a pass
                res = [(f"e2e:oracle-crash:{o.__name__}", f"{type(e).__name__}: {e}")]
            seen = set()
            for sig, msg in res:
                if sig in seen:
                    continue
                seen.add(sig)
                fails.append((sig, msg, tr))
    ctx.traces_validated += len(traces)
    by_sig = {}
    for sig, msg, tr in fails:
        by_sig.setdefault(sig, []).append((msg, tr))
    new = []
    for sig, lst in sorted(by_sig.items()):
        msg, tr = lst[0]
        if ctx.violation(sig, msg, {"kind": "e2e", "harness": "vh-e2e", "scenario": tr.params, "scenario_args": e2e.args_of(tr.params),
                                    "occurrences": len(lst), "replay": "harness/vh-e2e binary with scenario_args; oracle " + sig}):
            new.append((sig, msg))
    nm = name or f"T:{family}: oracles {[o.__name__ for o in oracles]} hold on {len(traces)} real end-to-end traces"
    known = sorted(set(by_sig) - {s for s, _ in new})
    if known:
        nm += f" [known findings reproduced: {known}]"
    ctx.oblige("oracle", nm, not new, "; ".join(f"{s}: {m}" for s, m in new[:4]))
    if new:
        ctx.obligations[-1]["explained"] = True
    if post:
        post(traces)
    return traces


def fam_migration(rng, i):
    """C09 across paths: the client's address changes (A -> B, often back to A, sometimes to B again) in the middle of
    a server-to-client bulk transfer, while well over ten ack-eliciting packets sent on the old path are in flight:
    their acknowledgements (or loss declarations) arrive on the NEW path and must be credited to the OLD path's
    congestion controller with each packet's own size. A path's bytes_in_flight is only reported while it is the
    current one, hence the return to A. With and without loss / reordering; both congestion controllers."""
    delay = rng.choice([10, 25, 25, 60])
    p = {
        "seed": rng.randrange(1, 2**40), "bidi": rng.choice([0, 1, 2]), "uni": rng.choice([0, 1]), "suni": rng.choice([1, 2, 3]),
        "size": rng.choice([150000, 400000, 1000000]), "chunk": 20000, "delay_ms": delay, "cc": rng.choice(["cubic", "cubic", "bbr"]),
        "drop_pm": rng.choice([0, 0, 0, 20, 60, 150]), "jitter_ms": rng.choice([0, 0, 0, 3, delay // 2]), "dup_pm": rng.choice([0, 0, 50]),
        "rebind_ip": rng.choice([3, 3, 3, 4, 4, 2]), "deadline_ms": 200000,
    }
    t = rng.randrange(5 * delay, 16 * delay)
    times = []
    for _ in range(rng.choice([2, 2, 3, 4])):
        times.append(t)
        t += rng.randrange(2 * delay, 25 * delay)
    p["rebind_at_ms"] = ",".join(str(x) for x in times)
    # keep the connection busy after the last rebind so that the re-activated path reports again
    p["hold_ms"] = times[-1] + 30 * delay
    p["tick_ms"] = max(5, delay // 2)
    p["faults_until_ms"] = p["hold_ms"]
    if rng.random() < 0.25:
        # the acknowledgements of the old path's packets are lost for a while right after a rebind
        k = rng.randrange(len(times))
        p["bh"] = f"{times[k]}:{times[k] + rng.choice([1, 3]) * delay}:{rng.choice([1, 2])}"
    return _nz(p)


FAMILIES["migration"] = fam_migration
