"""Property C04 on end-to-end traces (tie T): peer violations are rejected with the right transport error, no
offending byte reaches the application, advertised credit never exceeds consumed + configured window.

Everything in this file is derived from RFC 9000 (§4, §11, §12.4, §19, §20.1 — the sentences are the ones under
/repo/specs/www.rfc-editor.org/rfc/rfc9000/) and from the trace, never from the Rust code.

  RFC_ERROR_FOR / GENERIC / error_for      python twin of lean/QuicModel/Rfc/Errors.lean (`Rfc.errorFor`)
  TABLE3                                   RFC 9000 §12.4 Table 3
  ATTACKS                                  the catalogue (harness/vh-e2e/src/attacks.rs) with the violation
                                           class each shape commits
  fam_attack                               scenario family `attack`
  o_c04 = o_c04_attack + o_c04_credit      the oracle
"""
import re

import e2e
import quicparse as qp

# ---------------------------------------------------------------------------------------
# RFC 9000 §20.1 transport error codes
NO_ERROR, INTERNAL_ERROR, CONNECTION_REFUSED, FLOW_CONTROL_ERROR, STREAM_LIMIT_ERROR, STREAM_STATE_ERROR = 0, 1, 2, 3, 4, 5
FINAL_SIZE_ERROR, FRAME_ENCODING_ERROR, TRANSPORT_PARAMETER_ERROR, CONNECTION_ID_LIMIT_ERROR, PROTOCOL_VIOLATION = 6, 7, 8, 9, 10

# §11: "a generic error code (such as PROTOCOL_VIOLATION or INTERNAL_ERROR) can always be used in place of
# specific error codes"
GENERIC = [PROTOCOL_VIOLATION, INTERNAL_ERROR]

# violation class -> the specific code(s) the RFC prescribes (section in the comment)
RFC_ERROR_FOR = {
    "streamDataLimit": [FLOW_CONTROL_ERROR],             # §4.1, §19.10
    "connDataLimit": [FLOW_CONTROL_ERROR],               # §4.1, §19.9
    "streamLimit": [STREAM_LIMIT_ERROR],                 # §4.6, §19.11
    "finalSizeChanged": [FINAL_SIZE_ERROR],              # §4.5
    "dataBeyondFinalSize": [FINAL_SIZE_ERROR],           # §4.5
    "finalSizeBelowReceived": [FINAL_SIZE_ERROR],        # §4.5, §20.1
    "localStreamNotCreated": [STREAM_STATE_ERROR],       # §19.8, §19.10, §19.5
    "frameForSendOnlyStream": [STREAM_STATE_ERROR],      # §19.8, §19.4, §19.13
    "frameForReceiveOnlyStream": [STREAM_STATE_ERROR],   # §19.10, §19.5
    "frameNotPermittedInPacket": [PROTOCOL_VIOLATION],   # §12.4, §17.2.4
    "serverOnlyFrameFromClient": [PROTOCOL_VIOLATION],   # §19.7, §19.20
    "unknownFrameType": [FRAME_ENCODING_ERROR],          # §12.4
    "maxStreamsTooLarge": [FRAME_ENCODING_ERROR],        # §4.6, §19.11
    "streamsBlockedTooLarge": [STREAM_LIMIT_ERROR, FRAME_ENCODING_ERROR],   # §19.14
    "newConnectionIdLength": [FRAME_ENCODING_ERROR],     # §19.15
    "newConnectionIdRetirePriorTo": [FRAME_ENCODING_ERROR],   # §19.15
    "retireUnissuedConnectionId": [PROTOCOL_VIOLATION],  # §19.16 (MUST)
    "retireCurrentConnectionId": [PROTOCOL_VIOLATION],   # §19.16 (MAY)
    "streamOffsetOverflow": [FRAME_ENCODING_ERROR, FLOW_CONTROL_ERROR],     # §19.8
    "connectionIdLimit": [CONNECTION_ID_LIMIT_ERROR],    # §5.1.1
}
MAY_IGNORE = {"retireCurrentConnectionId"}


def error_for(cls):
    return RFC_ERROR_FOR[cls] + GENERIC


# RFC 9000 §12.4 Table 3: frame type -> packet types it may appear in (I H 0 1)
TABLE3 = {
    "padding": "IH01", "ping": "IH01", "ack": "IH_1", "reset-stream": "__01", "stop-sending": "__01", "crypto": "IH_1",
    "new-token": "___1", "stream": "__01", "max-data": "__01", "max-stream-data": "__01", "max-streams": "__01",
    "max-streams-uni": "__01", "data-blocked": "__01", "stream-data-blocked": "__01", "streams-blocked": "__01",
    "streams-blocked-uni": "__01", "new-connection-id": "__01", "retire-connection-id": "__01", "path-challenge": "__01",
    "path-response": "___1", "close": "IH01", "app-close": "__01", "handshake-done": "___1",
}
SPACE_LETTER = {"initial": "I", "handshake": "H", "app": "1"}

# ---------------------------------------------------------------------------------------
# the catalogue: name -> violation class ("ok" = control case that stays inside the limits: no connection error
# may be raised). `need` lists scenario preconditions the family has to establish.
ATTACKS = {
    # stream data limit
    "sd-plus1": "streamDataLimit", "sd-far": "streamDataLimit", "sd-span": "streamDataLimit",
    "sd-fin-offset": "streamDataLimit", "sd-uni-plus1": "streamDataLimit", "sd-reset-final": "streamDataLimit",
    "sd-existing-far": "streamDataLimit", "sd-local-bidi-plus1": "streamDataLimit", "sd-existing-reset-far": "streamDataLimit",
    "ok-sd-edge": "ok", "ok-sd-fin-edge": "ok",
    # connection data limit
    "cd-spread": "connDataLimit", "cd-spread-fin": "connDataLimit", "cd-spread-reset": "connDataLimit",
    "cd-spread-uni": "connDataLimit", "cd-one-stream": "connDataLimit",
    # stream count limit
    "sl-bidi-plus1": "streamLimit", "sl-uni-plus1": "streamLimit", "sl-bidi-far": "streamLimit", "sl-uni-far": "streamLimit",
    "sl-max-id": "streamLimit", "sl-reset": "streamLimit", "sl-stream-data-blocked": "streamLimit",
    "sl-max-stream-data": "streamLimit", "sl-stop-sending": "streamLimit", "ok-sl-edge": "ok",
    # final size
    "fs-two-fins": "finalSizeChanged", "fs-fin-shrinks": "finalSizeChanged", "fs-reset-differs": "finalSizeChanged",
    "fs-reset-lower": "finalSizeChanged", "fs-reset-then-fin": "finalSizeChanged",
    "fs-fin-then-beyond": "dataBeyondFinalSize", "fs-fin-then-at": "dataBeyondFinalSize",
    "fs-fin-below-received": "finalSizeBelowReceived", "fs-reset-below-received": "finalSizeBelowReceived",
    "ok-fs-same": "ok",
    # streams the peer may not address
    "ss-stream-local-unopened-bidi": "localStreamNotCreated", "ss-stream-local-unopened-far": "localStreamNotCreated",
    "ss-stream-local-unopened-uni": "localStreamNotCreated", "ss-reset-local-unopened-uni": "localStreamNotCreated",
    "ss-reset-local-unopened-bidi": "localStreamNotCreated", "ss-stream-data-blocked-local-unopened": "localStreamNotCreated",
    "ss-max-stream-data-local-unopened": "localStreamNotCreated", "ss-stop-sending-local-unopened": "localStreamNotCreated",
    "ss-stream-send-only": "frameForSendOnlyStream", "ss-reset-send-only": "frameForSendOnlyStream",
    "ss-stream-data-blocked-send-only": "frameForSendOnlyStream",
    "ss-max-stream-data-recv-only": "frameForReceiveOnlyStream", "ss-max-stream-data-recv-only-open": "frameForReceiveOnlyStream",
    "ss-stop-sending-recv-only": "frameForReceiveOnlyStream", "ss-stop-sending-recv-only-open": "frameForReceiveOnlyStream",
    # roles
    "role-handshake-done": "serverOnlyFrameFromClient", "role-new-token": "serverOnlyFrameFromClient",
    # malformed limit values / encodings
    "ms-bidi-2p60-plus1": "maxStreamsTooLarge", "ms-uni-2p60-plus1": "maxStreamsTooLarge", "ms-bidi-max-varint": "maxStreamsTooLarge",
    "ok-ms-2p60": "ok",
    "sb-bidi-2p60-plus1": "streamsBlockedTooLarge", "sb-uni-max-varint": "streamsBlockedTooLarge", "ok-sb-2p60": "ok",
    "ncid-len0": "newConnectionIdLength", "ncid-len21": "newConnectionIdLength", "ncid-len255": "newConnectionIdLength",
    "ncid-retire-gt-seq": "newConnectionIdRetirePriorTo", "ncid-retire-gt-seq-by1": "newConnectionIdRetirePriorTo",
    "ncid-limit": "connectionIdLimit",
    "rcid-unissued": "retireUnissuedConnectionId", "rcid-unissued-u32": "retireUnissuedConnectionId",
    "rcid-current": "retireCurrentConnectionId",
    "unknown-frame-3f": "unknownFrameType", "unknown-frame-21": "unknownFrameType",
    "stream-offset-overflow": "streamOffsetOverflow",
}
# frames of Table 3 that must not appear in Initial / Handshake packets (sample frames `sp-<type>`)
SP_TYPES = ["reset-stream", "stop-sending", "new-token", "stream", "max-data", "max-stream-data", "max-streams", "max-streams-uni",
            "data-blocked", "stream-data-blocked", "streams-blocked", "streams-blocked-uni", "new-connection-id",
            "retire-connection-id", "path-challenge", "path-response", "app-close", "handshake-done"]
for _t in SP_TYPES:
    ATTACKS["sp-" + _t] = "space"
ATTACKS["sp-ping"] = "space"      # permitted everywhere: control

# attacks only a client can commit (the frames are legal from a server)
CLIENT_ONLY = {"role-handshake-done", "role-new-token"}


def violation_class(name, space, attacker):
    """the class the attack commits in that packet-number space, 'ok' for a control case, None if unknown"""
    cls = ATTACKS.get(name)
    if cls is None:
        return None
    if cls == "space":
        t = name[3:]
        return "ok" if SPACE_LETTER[space] in TABLE3[t] else "frameNotPermittedInPacket"
    if space != "app":
        # every other catalogue frame is a 1-RTT-only frame type
        return "frameNotPermittedInPacket"
    if name in CLIENT_ONLY and attacker == "s":
        return "ok"
    return cls


# ---------------------------------------------------------------------------------------
# scenario family

def cases():
    """every (attack, attacker, space) combination exercised by the family, in a fixed order"""
    out = []
    for name in sorted(ATTACKS):
        if name.startswith("sp-"):
            for sp in ("initial", "handshake"):
                for a in ("c", "s"):
                    out.append((name, a, sp))
        elif name == "sd-existing-reset-far":
            # the interesting victim state (local stop_sending() still waiting for the peer's final size) is only hit
            # by some packet positions: several draws per round
            for _ in range(8):
                out.append((name, "c", "app"))
            out.append((name, "s", "app"))
        elif name == "sd-local-bidi-plus1":
            out.append((name, "s", "app"))      # only a client opens bidirectional streams in the workload
            out.append((name, "s", "app"))
        else:
            out.append((name, "c", "app"))
            out.append((name, "s", "app"))
    # a few 1-RTT frames of the catalogue in the wrong space as well
    for name in ("sd-plus1", "ms-bidi-2p60-plus1", "ncid-len0"):
        out.append((name, "c", "handshake"))
        out.append((name, "s", "initial"))
    return out


CASES = cases()


def fam_attack(rng, i):
    """adversarial peer: one packet of the attacker carries the offending frames of catalogue entry i.
    The victim's limits are always explicit so that `by one` shapes are exact."""
    name, attacker, space = CASES[i % len(CASES)]
    rnd = i // len(CASES)
    vict = "s" if attacker == "c" else "c"
    w = rng.choice([16, 100, 1000, 5000])
    wu = rng.choice([12, 200, 3000])
    wl = rng.choice([50, 700, 4000])
    bidi = rng.choice([1, 2])
    uni = rng.choice([0, 1])
    suni = rng.choice([0, 1])
    nb = rng.choice([4, 6, 9])
    nu = rng.choice([3, 5])
    data = 1_000_000
    p = {
        "seed": rng.randrange(1, 2**40), "attack": name, "attacker": attacker, "attack_space": space,
        "attack_at": rng.choice([0, 1, 3, 5]) if space == "app" else rng.choice([0, 0, 1]),
        "bidi": bidi, "uni": uni, "suni": suni, "size": rng.choice([3000, 20000]), "chunk": 700,
        "delay_ms": 10, "deadline_ms": 60000, "read_delay_ms": rng.choice([0, 3]),
    }
    if name.startswith("cd-"):
        # the connection window must be the binding limit
        if name == "cd-one-stream":
            w = rng.choice([1000, 5000])
            data = w // 2
            p["size"] = min(p["size"], 200)
        else:
            w = rng.choice([100, 1000])
            wu = w
            k = rng.choice([3, 6])
            data = w * k
            nb = bidi + k + 4
            nu = max(uni, suni) + k + 4
        p["attack_at"] = rng.choice([0, 1])
    if name in ("ss-stream-send-only", "ss-reset-send-only", "ss-stream-data-blocked-send-only"):
        # the victim's application must have opened its unidirectional stream
        if vict == "s":
            p["suni"] = 1
        else:
            p["uni"] = 1
        p["attack_at"] = rng.choice([3, 5])
    if name in ("ss-max-stream-data-recv-only-open", "ss-stop-sending-recv-only-open"):
        if attacker == "c":
            p["uni"] = 1
        else:
            p["suni"] = 1
    if name == "sd-local-bidi-plus1":
        p["attack_at"] = rng.choice([3, 5])
    if name in ("sd-existing-far", "sd-existing-reset-far") and attacker == "s":
        p["suni"] = 1
    if name == "sd-existing-reset-far":
        # the victim's receive half is still open (Recv / Size Known) or was stopped by the local application
        # (stop_sending() before the peer's RESET_STREAM arrives): the final size is checked against the limits either way
        w = rng.choice([1000, 5000])
        p["size"] = 20000
        p["attack_at"] = rng.choice([2, 3, 4, 6])
        if attacker == "c":
            p["bidi"] = max(1, p["bidi"])
            if rnd % 3 != 2:
                p["stop_stream"] = 0
                p["stop_after"] = rng.choice([0, 0, 700, 1400])
                p["size"] = 60000
                p["attack_at"] = rng.choice([5, 6, 7, 9, 10, 11, 13])
                w = rng.choice([5000, 50000])
    if name.startswith("sl-") or name == "ok-sl-edge":
        # no stream may have been closed before the attack: keep the streams long and the attack early
        p["size"] = 20000
        p["attack_at"] = rng.choice([0, 1, 2])
    p[f"{vict}.bidi_remote"] = w
    p[f"{vict}.bidi_local"] = wl
    p[f"{vict}.uni"] = wu
    p[f"{vict}.data_window"] = data
    p[f"{vict}.max_bidi_remote"] = nb
    p[f"{vict}.max_uni_remote"] = nu
    if rnd % 2 == 1:
        p["delay_ms"] = 25
    return p


# ---------------------------------------------------------------------------------------
# oracle (a) + (b): adversarial scenarios

CLOSE_RE = re.compile(r"error: (\w+)")


def parse_close(text):
    """connection_closed event text -> (kind, code or None, initiator or None)
    e.g. `error: Transport { code: transport::error::Code(VarInt(3), "FLOW_CONTROL_ERROR"), .., initiator: Local, ..`"""
    m = CLOSE_RE.search(text)
    kind = m.group(1) if m else "?"
    code = None
    m = re.search(r"Code\(VarInt\((\d+)\)", text)
    if m:
        code = int(m.group(1))
    m = re.search(r"initiator: (\w+)", text)
    return kind, code, (m.group(1) if m else None)


def written_totals(tr):
    w = {}
    for r in tr.of("app"):
        if r.what == "write":
            w[(r.ep, int(r.args[0]))] = int(r.args[1]) + int(r.args[2])
    return w


def _covered(ranges):
    """length of the prefix [0, n) covered by the union of the half-open ranges"""
    n = 0
    for a, b in sorted(ranges):
        if a > n:
            break
        n = max(n, b)
    return n


def stream_knowledge(tr, ep, sid, before_idx, stop_closes=True):
    """(final size known?, receive half already finished?) for endpoint `ep` and stream `sid` before record `before_idx`"""
    final = None
    read = 0
    finished = False
    got = []
    for r in tr.recs:
        if r.idx >= before_idx:
            break
        if r.kind == "rxp" and r.ep == ep and r.space == "app":
            for f in r.frames:
                if f["type"] == "STREAM" and f["id"] == sid:
                    got.append((f["offset"], f["offset"] + len(f["data"])))
                if f["type"] == "STREAM" and f["id"] == sid and f["fin"] and final is None:
                    final = f["offset"] + len(f["data"])
                elif f["type"] == "RESET_STREAM" and f["id"] == sid:
                    if final is None:
                        final = f["final_size"]
                    finished = True
        elif r.kind == "app" and r.ep == ep and r.args and r.args[0] == str(sid):
            if r.what == "read":
                read = int(r.args[1]) + int(r.args[2])
            elif r.what == "stop" and not stop_closes:
                # local stop_sending(): the stream still waits for the peer's final size, unless everything up to a known
                # final size had already arrived (Data Recvd: stop_sending() completes the stream at once)
                if final is not None and _covered(got) >= final:
                    finished = True
            elif r.what in ("eof", "stop") or (r.what == "err" and len(r.args) > 1 and r.args[1] == "receive"):
                finished = True
    if final is not None and read >= final:
        finished = True
    return final is not None, finished


def o_c04_attack(tr):
    bad = []
    a = tr.attack
    if not a:
        return bad
    name, pn, space, attacker = a["name"], a["pn"], a.get("space", "app"), a.get("ep", "c")
    victim = e2e.peer(attacker)
    cls = violation_class(name, space, attacker)
    if cls is None:
        return [("e2e:c04:unknown-attack:" + name, "attack is not in the catalogue")]
    # (b) nothing the honest application did not write may be read by the victim's application
    written = written_totals(tr)
    for r in tr.of("app"):
        if r.what == "read" and r.ep == victim:
            sid, off, ln = int(r.args[0]), int(r.args[1]), int(r.args[2])
            if r.args[3] != "ok":
                bad.append((f"e2e:c04:offending-data-delivered:{name}", f"victim {victim} stream {sid}: the application read a byte at offset {r.args[4]} that the honest sender never wrote"))
            elif cls != "ok" and off + ln > written.get((attacker, sid), 0):
                bad.append((f"e2e:c04:offending-data-delivered:{name}", f"victim {victim} stream {sid}: the application read up to {off + ln}, the honest sender wrote {written.get((attacker, sid), 0)}"))
    # (a) the victim's reaction to the packet
    rx = next((r for r in tr.recs if r.kind == "rxp" and r.ep == victim and r.space == space and r.pn == pn and r.t >= a["t"]), None)
    if rx is None:
        return bad      # the packet never reached frame processing (lost, or its keys were already discarded)
    nxt = next((r.idx for r in tr.recs if r.idx > rx.idx and r.kind == "rxp" and r.ep == victim), 10**12)
    closes = [r for r in tr.recs if r.kind == "ev" and r.ep == victim and r.name == "connectivity:connection_closed"]
    earlier = [r for r in closes if r.idx < rx.idx]
    if earlier:
        return bad      # the connection was already closed when the packet arrived
    ev = next((r for r in closes if rx.idx < r.idx < nxt), None)
    kind, code, initiator = parse_close(ev.text) if ev else (None, None, None)
    rejected = ev is not None and kind == "Transport" and initiator != "Remote"
    if cls == "ok":
        if rejected:
            bad.append((f"e2e:c04:false-reject:{name}:{code:#x}", f"victim {victim} closed the connection with transport error {code:#x} on a packet that stays within every limit ({space} pn {pn})"))
        return bad
    allowed = list(error_for(cls))
    # attacks on a stream the honest application really uses: what else the frame commits depends on what the victim
    # already knows about that stream
    tag = ""
    if cls in ("streamDataLimit", "connDataLimit"):
        for f in rx.frames:
            if f["type"] == "STREAM":
                known, closed = stream_knowledge(tr, victim, f["id"], rx.idx)
                if known:
                    allowed += RFC_ERROR_FOR["dataBeyondFinalSize"]      # §4.5: data beyond the known final size
                if closed:
                    tag = ":closed-stream"
            elif f["type"] == "RESET_STREAM" and name == "sd-existing-reset-far":
                known, closed = stream_knowledge(tr, victim, f["id"], rx.idx, stop_closes=False)
                if known:
                    allowed += RFC_ERROR_FOR["finalSizeChanged"]         # §4.5: the final size is already known
                if closed:
                    return bad      # receive half already finished (all data read, or reset by the peer): the frame has
                                    # no stream left to act on; only the open / stopped states give a verdict here
    if not rejected:
        if cls in MAY_IGNORE:
            return bad
        if ev is not None and kind in ("Closed", "Application"):
            return bad      # the victim's application closed the connection at that very moment: no verdict
        what = f"closed with {kind}" if ev else "did not close the connection"
        bad.append((f"e2e:c04:not-rejected:{name}{tag}", f"victim {victim} processed the offending {space} packet {pn} ({cls}{tag}) but {what}; RFC 9000 wants one of {[hex(c) for c in allowed]}"))
        return bad
    if code not in allowed:
        bad.append((f"e2e:c04:wrong-code:{name}:{code:#x}", f"victim {victim} closed with transport error {code:#x} for {cls}; RFC 9000 wants one of {[hex(c) for c in allowed]}"))
    # the CONNECTION_CLOSE frame on the wire carries the same code
    frames = [f for r in tr.recs if r.kind == "txp" and r.ep == victim and r.idx > rx.idx for f in r.frames if f["type"] == "CONNECTION_CLOSE"]
    if not frames:
        if space == "initial":
            return bad      # §17.2.2: an Initial packet with other frames may also just be discarded; a server that has no
                            # validated path yet need not answer (§10.2.3)
        bad.append((f"e2e:c04:close-frame-missing:{name}", f"victim {victim} reported transport error {code:#x} but sent no CONNECTION_CLOSE frame"))
    elif any(f["app"] or f["code"] != code for f in frames):
        f = next(f for f in frames if f["app"] or f["code"] != code)
        bad.append((f"e2e:c04:close-frame-code:{name}:{f['code']:#x}", f"victim {victim} reported transport error {code:#x} but its CONNECTION_CLOSE frame says {'application ' if f['app'] else ''}{f['code']:#x}"))
    return bad


def attack_outcome(tr):
    """summary used for the evidence / non-triviality: 'rejected:<code>' | 'accepted' | 'not-processed' | 'no-attack'"""
    a = tr.attack
    if not a:
        return "no-attack"
    victim = e2e.peer(a.get("ep", "c"))
    space = a.get("space", "app")
    rx = next((r for r in tr.recs if r.kind == "rxp" and r.ep == victim and r.space == space and r.pn == a["pn"] and r.t >= a["t"]), None)
    if rx is None:
        return "not-processed"
    nxt = next((r.idx for r in tr.recs if r.idx > rx.idx and r.kind == "rxp" and r.ep == victim), 10**12)
    ev = next((r for r in tr.recs if r.kind == "ev" and r.ep == victim and r.name == "connectivity:connection_closed" and rx.idx < r.idx < nxt), None)
    if ev is None:
        return "accepted"
    kind, code, initiator = parse_close(ev.text)
    return f"rejected:{kind}:{code}"


# ---------------------------------------------------------------------------------------
# oracle (c): advertised credit ≤ consumed + configured window, on EVERY trace

TP_KEY = {"bidi_local": "initial_max_stream_data_bidi_local", "bidi_remote": "initial_max_stream_data_bidi_remote",
          "uni": "initial_max_stream_data_uni", "data_window": "initial_max_data",
          "max_bidi_remote": "initial_max_streams_bidi", "max_uni_remote": "initial_max_streams_uni"}


def configured(tr, decl, ep, key):
    """the configured receive window / stream limit of endpoint `ep`: the scenario parameter, or (0 = default) what
    the endpoint itself declared in its transport parameters"""
    v = int(tr.params.get(f"{ep}.{key}", 0))
    if v:
        return v
    tp = decl.get(ep)
    if tp is None:
        return None
    return tp.get(TP_KEY[key])


def o_c04_credit(tr):
    bad = []
    decl = e2e.declared_tps(tr)
    read = {"c": {}, "s": {}}          # ep -> sid -> bytes the application consumed
    high = {"c": {}, "s": {}}          # ep -> sid -> highest stream offset processed
    reset_rx = {"c": {}, "s": {}}      # ep -> sid -> final size of a processed RESET_STREAM
    final_rx = {"c": {}, "s": {}}      # ep -> sid -> final size seen in a processed STREAM(FIN) frame
    done_rx = {"c": set(), "s": set()}     # receive half observed final by the application
    done_tx = {"c": set(), "s": set()}     # send half finished / reset by the application
    a = tr.attack
    for r in tr.recs:
        if r.kind == "app":
            if r.what == "read":
                sid = int(r.args[0])
                read[r.ep][sid] = int(r.args[1]) + int(r.args[2])
            elif r.what in ("eof", "stop"):
                done_rx[r.ep].add(int(r.args[0]))
            elif r.what in ("finish", "reset"):
                done_tx[r.ep].add(int(r.args[0]))
            elif r.what == "err" and r.args and r.args[0] != "-":
                sid = int(r.args[0])
                if r.args[1] == "receive":
                    done_rx[r.ep].add(sid)
                else:
                    done_tx[r.ep].add(sid)
        elif r.kind == "rxp" and r.space == "app":
            for f in r.frames:
                if f["type"] == "STREAM":
                    h = high[r.ep]
                    h[f["id"]] = max(h.get(f["id"], 0), f["offset"] + len(f["data"]))
                    if f["fin"]:
                        final_rx[r.ep].setdefault(f["id"], f["offset"] + len(f["data"]))
                elif f["type"] == "RESET_STREAM":
                    reset_rx[r.ep].setdefault(f["id"], f["final_size"])
        elif r.kind == "txp" and r.space == "app":
            ep = r.ep
            if a and a.get("ep", "c") == ep and a.get("space", "app") == "app" and a["pn"] == r.pn:
                continue       # the rewritten packet is the adversary's, not the implementation's
            for f in r.frames:
                if f["type"] == "MAX_STREAM_DATA":
                    sid, v = f["id"], f["max"]
                    if e2e.stream_is_bidi(sid):
                        key = "bidi_local" if e2e.stream_initiator(sid) == ep else "bidi_remote"
                    else:
                        key = "uni"
                    w = configured(tr, decl, ep, key)
                    if w is None:
                        continue
                    got = read[ep].get(sid, 0)
                    if v > got + w:
                        bad.append(("e2e:c04:credit:stream", f"endpoint {ep} advertised MAX_STREAM_DATA {v} on stream {sid} (packet {r.pn}) although its application consumed only {got} bytes and the configured {key} window is {w}"))
                elif f["type"] == "MAX_DATA":
                    w = configured(tr, decl, ep, "data_window")
                    if w is None:
                        continue
                    got = 0
                    sids = set(read[ep]) | set(reset_rx[ep])
                    for sid in sids:
                        if sid in reset_rx[ep]:
                            # a reset stream's bytes are discarded, not buffered: they count as gone
                            got += max(reset_rx[ep][sid], high[ep].get(sid, 0), read[ep].get(sid, 0))
                        else:
                            got += read[ep].get(sid, 0)
                    if f["max"] > got + w:
                        bad.append(("e2e:c04:credit:conn", f"endpoint {ep} advertised MAX_DATA {f['max']} (packet {r.pn}) although its application consumed (or discarded with a reset) only {got} bytes and the configured connection window is {w}"))
                elif f["type"] == "MAX_STREAMS":
                    key = "max_bidi_remote" if f["bidi"] else "max_uni_remote"
                    n = configured(tr, decl, ep, key)
                    if n is None:
                        continue
                    closed = 0
                    # the receive half is final once the application saw EOF / an error / asked for STOP_SENDING, or
                    # consumed everything up to the final size; the send half once the application finished / reset it
                    rx_final = set(done_rx[ep]) | {sid for sid, fs in final_rx[ep].items() if read[ep].get(sid, 0) >= fs}
                    for sid in rx_final:
                        if e2e.stream_initiator(sid) != ep and e2e.stream_is_bidi(sid) == f["bidi"]:
                            if not f["bidi"] or sid in done_tx[ep]:
                                closed += 1
                    if f["max"] > closed + n:
                        bad.append(("e2e:c04:credit:streams", f"endpoint {ep} advertised MAX_STREAMS({'bidi' if f['bidi'] else 'uni'}) {f['max']} (packet {r.pn}) although only {closed} peer streams of that type are closed and the configured limit is {n}"))
    return bad


def o_c04(tr):
    return o_c04_attack(tr) + o_c04_credit(tr)


def credit_frames(tr):
    """number of MAX_DATA / MAX_STREAM_DATA / MAX_STREAMS frames the endpoints sent (what the credit oracle checked)"""
    n = 0
    for r in tr.recs:
        if r.kind == "txp" and r.space == "app":
            n += sum(1 for f in r.frames if f["type"] in ("MAX_DATA", "MAX_STREAM_DATA", "MAX_STREAMS"))
    return n


# ---------------------------------------------------------------------------------------
# trace acceptor: the Lean model (driver component `recvflow`) replays what the victim processed

SPACE_TOK = {"initial": "initial", "handshake": "handshake", "app": "app"}


def frame_tok(f):
    t = f["type"]
    if t == "STREAM":
        return f"S,{f['id']},{f['offset']},{len(f['data'])},{1 if f['fin'] else 0}"
    if t == "RESET_STREAM":
        return f"R,{f['id']},{f['final_size']}"
    if t == "STOP_SENDING":
        return f"SS,{f['id']}"
    if t == "MAX_STREAM_DATA":
        return f"MSD,{f['id']},{f['max']}"
    if t == "STREAM_DATA_BLOCKED":
        return f"SDB,{f['id']},{f['limit']}"
    if t == "MAX_DATA":
        return f"MD,{f['max']}"
    if t == "DATA_BLOCKED":
        return f"DB,{f['limit']}"
    if t == "MAX_STREAMS":
        return f"MS,{1 if f['bidi'] else 0},{f['max']}"
    if t == "STREAMS_BLOCKED":
        return f"SB,{1 if f['bidi'] else 0},{f['limit']}"
    if t == "NEW_CONNECTION_ID":
        return f"NCID,{f['seq']},{f['retire_prior_to']},{len(f['cid']) // 2}"
    if t == "RETIRE_CONNECTION_ID":
        # the sequence number of the connection id the packet was addressed to is not visible in a trace: assume it
        # is not the one being retired (rcid-current is listed under SOFT)
        return f"RCID,{f['seq']},4611686018427387903"
    if t == "CONNECTION_CLOSE":
        return "CLOSE_A" if f["app"] else "CLOSE_T"
    if t == "UNKNOWN":
        return f"U,{f['tag']}"
    return {"NEW_TOKEN": "NT", "HANDSHAKE_DONE": "HD", "PATH_CHALLENGE": "PC", "PATH_RESPONSE": "PR", "PING": "PING",
            "PADDING": "PAD", "ACK": "ACK", "CRYPTO": "CRYPTO"}.get(t)


def model_ops(tr):
    """-> (ops, checks) : the op lines for the Lean driver and, per processed packet of the victim,
    (first op index, last op index, implementation verdict = None | transport error code, description)"""
    a = tr.attack
    victim = e2e.peer(a.get("ep", "c"))
    decl = e2e.declared_tps(tr)
    vals = [configured(tr, decl, victim, k) for k in ("data_window", "bidi_local", "bidi_remote", "uni", "max_bidi_remote", "max_uni_remote")]
    if any(v is None for v in vals):
        return None, None
    ops = [f"init {1 if victim == 's' else 0} " + " ".join(str(v) for v in vals)]
    checks = []
    closes = [r for r in tr.recs if r.kind == "ev" and r.ep == victim and r.name == "connectivity:connection_closed"]
    first_close = closes[0].idx if closes else 10**12
    rx = [r for r in tr.recs if r.kind == "rxp" and r.ep == victim]
    nxt = {r.idx: (rx[i + 1].idx if i + 1 < len(rx) else 10**12) for i, r in enumerate(rx)}
    for r in tr.recs:
        if r.idx > first_close:
            break
        if r.kind == "app" and r.ep == victim:
            if r.what == "open" and r.args[1] in ("bidi", "uni"):
                ops.append(f"open {r.args[0]}")
            elif r.what == "read":
                ops.append(f"read {r.args[0]} {r.args[2]}")
            elif r.what == "stop":
                ops.append(f"stop {r.args[0]}")
        elif r.kind == "txp" and r.ep == victim and r.space == "app":
            for f in r.frames:
                if f["type"] == "MAX_STREAMS":
                    ops.append(f"limit {0 if f['bidi'] else 1} {f['max']}")
                elif f["type"] == "NEW_CONNECTION_ID":
                    ops.append(f"cidseq {f['seq'] + 1}")
        elif r.kind == "rxp" and r.ep == victim:
            toks = [frame_tok(f) for f in r.frames]
            if any(t is None for t in toks):
                return None, None
            ev = next((c for c in closes if r.idx < c.idx < nxt[r.idx]), None)
            verdict = None
            if ev is not None:
                kind, code, initiator = parse_close(ev.text)
                if kind == "Transport" and initiator != "Remote":
                    verdict = code
            lo = len(ops)
            ops += [f"frame {r.space} {t}" for t in toks]
            checks.append((lo, len(ops) - 1, verdict, f"{r.space} packet {r.pn} at {r.t}us"))
    return ops, checks


# divergences between model and implementation that are understood and NOT about the property's observables:
#  - the model never removes a finished stream from the map (the implementation does, and then ignores frames for it)
#  - the model sees the MAX_STREAMS values on the wire, the implementation checks against its newest internal value
#  - the sequence number of the connection id a packet was addressed to is not visible in the trace
SOFT = {"ss-max-stream-data-recv-only-open": "finished stream already removed from the implementation's stream map",
        "rcid-current": "destination connection id of the packet not visible in the trace",
        "ncid-limit": "the model does not carry the peer connection-id registry (active_connection_id_limit)"}


def model_conformance(ctx, traces):
    """tie T (acceptor): the Lean model must take the same accept / reject(code) decision as the implementation for
    every packet the victim processed, in every adversarial trace"""
    from vlib import DRIVER, run_lines
    import os
    if not os.path.exists(DRIVER):
        ctx.oblige("correspond", "T:attack: Lean model replays the victim's packets (driver missing)", False, DRIVER)
        return
    lines = []
    spans = []
    for tr in traces:
        if not tr.attack:
            continue
        ops, checks = model_ops(tr)
        if ops is None:
            ctx.count("e2e:attack:model:not-replayable")
            continue
        # the Lean model's per-op cost grows with the history (association lists): replay each trace up to
        # a bound that always includes the rewritten packet and the packets that follow it closely
        hi_attack = max([hi for lo, hi, verdict, what in checks
                         if what.startswith(f"{tr.attack.get('space', 'app')} packet {tr.attack['pn']} ")] + [0])
        limit = max(2500, hi_attack + 300)
        if len(ops) > limit:
            ctx.count("e2e:attack:model:trace-truncated")
            ops = ops[:limit]
            checks = [c for c in checks if c[1] < limit]
        lines.append("reset")
        spans.append((tr, len(lines), ops, checks))
        lines += ops
    if not lines:
        return
    rc, out, err = run_lines([DRIVER, "recvflow"], lines)
    if rc != 0 or len(out) != len(lines):
        ctx.oblige("correspond", "T:attack: Lean model replays the victim's packets", False, f"driver failed rc={rc} {err[-500:]}")
        return
    mism = []
    packets = 0
    for tr, base, ops, checks in spans:
        name = tr.attack["name"]
        dead = False
        for lo, hi, verdict, what in checks:
            if dead:
                break
            packets += 1
            outs = out[base + lo: base + hi + 1]
            model = next((int(o.split(" ")[1]) for o in outs if o.startswith("err")), None)
            if any(o == "bad-op" for o in outs) or any(o == "bad-op" for o in out[base: base + lo]):
                mism.append((tr, what, "model answered bad-op", None, None))
                break
            if model != verdict:
                is_attack_pkt = what.startswith(f"{tr.attack.get('space', 'app')} packet {tr.attack['pn']} ")
                if is_attack_pkt and name in SOFT:
                    ctx.count("e2e:attack:model:soft-divergence:" + name)
                else:
                    mism.append((tr, what, f"implementation {'closed with ' + hex(verdict) if verdict is not None else 'accepted'}, model {'closes with ' + hex(model) if model is not None else 'accepts'}", verdict, model))
                dead = True
            elif model is not None:
                dead = True
        ctx.evaluations += 1
    ctx.extra["model_replayed_packets"] = packets
    detail = "; ".join(f"{tr.attack['name']} {what}: {msg} [{' '.join(e2e.args_of(tr.params))}]" for tr, what, msg, _, _ in mism[:4])
    ctx.oblige("correspond", f"T:attack: the Lean model takes the implementation's accept/reject(code) decision on each of {packets} packets the victims processed",
               not mism, detail)
    if mism:
        ctx.extra.setdefault("disagreements", []).append({"component": "recvflow", "count": len(mism), "first": detail[:1500]})


