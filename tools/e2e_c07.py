"""C07 (interoperability, level `other`): scenario family `interop`, runner for harness/vh-interop, oracle `o_c07`
and the Lean cross-parse of everything the s2n-quic endpoint received from / sent to quiche.

The independent peer is cloudflare quiche 0.29 (vendored in the offline cargo registry as a dependency of
quic/s2n-quic-tests). A scenario is a dict of vh-interop parameters (`role=s2n-server|s2n-client`, `s.*` = s2n-quic
limits, `q.*` = quiche configuration, network faults, workload); all harness randomness derives from `seed`
(TLS randomness of both stacks does not, so byte-level traces differ between runs; verdicts must not)."""
import concurrent.futures
import os
import re
import subprocess

import e2e
import quicparse as qp
from vlib import CACHE, DRIVER, harness_bin, run_lines

HARNESS = "vh-interop"
CERTDIR = os.path.join(CACHE, "interop-certs")


class ITrace(e2e.Trace):
    """e2e.Trace plus quiche's view: `peer <t> <what> <args…>` lines and the `clock` self-test"""

    def __init__(self, params, text):
        super().__init__(params, text)
        self.peer = []          # (t, what, [args], raw rest)
        self.clock = None
        for line in text.split("\n"):
            if line.startswith("peer "):
                f = line.split(" ", 3)
                if len(f) >= 3 and f[1].isdigit():
                    rest = f[3] if len(f) > 3 else ""
                    self.peer.append((int(f[1]), f[2], rest.split(" ") if rest else [], rest))
            elif line.startswith("clock "):
                self.clock = line[6:].strip()

    def peer_of(self, what):
        return [p for p in self.peer if p[1] == what]


def args_of(params):
    return [f"{k}={v}" for k, v in params.items()]


def run_one(params, timeout=240, binary=None):
    os.makedirs(CERTDIR, exist_ok=True)
    cmd = [binary or harness_bin(HARNESS)] + args_of(params) + [f"certdir={CERTDIR}"]
    try:
        p = subprocess.run(cmd, stdout=subprocess.PIPE, stderr=subprocess.PIPE, timeout=timeout)
        text = p.stdout.decode("utf-8", "replace")
        if p.returncode != 0 and "end " not in text[-400:]:
            text += f"\nend 0 crashed rc={p.returncode} {p.stderr.decode('utf-8', 'replace')[-300:]!r}\n"
    except subprocess.TimeoutExpired as e:
        text = (e.stdout or b"").decode("utf-8", "replace") + "\nend 0 wallclock-timeout\n"
    return text


def run_many(scenarios, workers=None, timeout=240, binary=None):
    workers = workers or int(os.environ.get("VERIF_E2E_WORKERS", "6"))
    with concurrent.futures.ThreadPoolExecutor(max_workers=workers) as ex:
        texts = list(ex.map(lambda p: run_one(p, timeout, binary), scenarios))
    return [ITrace(p, t) for p, t in zip(scenarios, texts)]


# ---------------------------------------------------------------------------------------
# scenario family
# ---------------------------------------------------------------------------------------

ROLES = ("s2n-server", "s2n-client")


def fam_interop(rng, i, roles=ROLES):
    """both roles alternate; windows / stream limits / datagram sizes of EITHER side from tiny to default; loss,
    duplication and reordering (jitter) for a finite prefix; bidi + uni streams in both directions"""
    role = roles[i % len(roles)]
    swin = rng.choice([0, 0, 1, 64, 1200, 5000, 70000])          # s2n receive windows (0 = s2n default)
    # quiche receive windows. NOT 1: quiche 0.29 raises a stream/connection limit only when `available < window / 2`
    # (integer division), so a 1-byte window is never re-opened after the byte was read — a quiche quirk observed
    # with this harness (s2n-quic keeps sending STREAM_DATA_BLOCKED, quiche idles out); not an s2n-quic matter
    qwin = rng.choice([200000, 200000, 2, 50, 900, 4000, 70000])
    smallest = min([w for w in (swin, qwin) if w] or [10**9])
    size = rng.choice([0, 1, 300, 5000, 40000, 150000])
    if smallest < 1000:
        size = min(size, smallest * rng.choice([3, 20, 60]))
    chunk = max(rng.choice([1, 100, 1000, 20000]), size // 800 + 1)
    p = {
        "role": role,
        "seed": rng.randrange(1, 2**40),
        "drop_pm": rng.choice([0, 0, 20, 100, 200]), "dup_pm": rng.choice([0, 0, 50, 200]),
        "jitter_ms": rng.choice([0, 0, 10, 60]), "delay_ms": rng.choice([1, 10, 25, 80]),
        "faults_until_ms": rng.choice([2000, 5000, 15000]),
        "bidi": rng.choice([0, 1, 1, 3, 6]), "uni": rng.choice([0, 0, 2]), "suni": rng.choice([0, 0, 1, 3]),
        "size": size, "chunk": chunk, "cc": rng.choice(["cubic", "bbr"]),
        "read_delay_ms": rng.choice([0, 0, 0, 5]),
        # s2n-quic limits
        "s.data_window": rng.choice([0, 0, 1000, 3000, 50000]),
        "s.bidi_local": rng.choice([0, swin]), "s.bidi_remote": rng.choice([0, swin]), "s.uni": rng.choice([0, 0, swin, 2000]),
        "s.max_bidi_remote": rng.choice([0, 0, 1, 2, 100]), "s.max_uni_remote": rng.choice([0, 0, 1, 3]),
        "s.max_idle_ms": rng.choice([0, 0, 20000, 40000]), "s.max_ack_delay_ms": rng.choice([0, 0, 5, 60]),
        "max_mtu": rng.choice([0, 0, 1228, 1350, 1500, 9000]),
        # quiche configuration
        "q.data_window": rng.choice([1000000, 1000000, 1500, 6000, 60000]),
        "q.bidi_local": rng.choice([200000, qwin]), "q.bidi_remote": rng.choice([200000, qwin]), "q.uni": rng.choice([200000, qwin, 3000]),
        "q.max_bidi": rng.choice([100, 100, 1, 2, 7]), "q.max_uni": rng.choice([100, 100, 1, 3]),
        "q.max_idle_ms": rng.choice([30000, 20000, 60000]), "q.max_ack_delay_ms": rng.choice([0, 0, 5, 40]),
        "q.ack_delay_exp": rng.choice([0, 0, 1, 5, 10]),
        "q.max_recv_udp": rng.choice([0, 0, 1200, 1350, 1472, 9000]), "q.max_send_udp": rng.choice([0, 0, 1200, 1350, 1472]),
        "q.active_cid_limit": rng.choice([2, 3, 4, 8]), "q.cid_len": rng.choice([16, 16, 8, 20, 0]),
        "q.pmtud": rng.choice([0, 0, 1]), "q.pacing": rng.choice([0, 0, 1]), "q.cc": rng.choice(["cubic", "reno", "bbr"]),
        "net_mtu": rng.choice([65535, 65535, 1500, 1400]),
        "deadline_ms": 300000,
    }
    if p["bidi"] + p["uni"] + p["suni"] == 0:
        p["bidi"] = 1
    if not p["q.pmtud"] and p["q.max_send_udp"] + 28 > p["net_mtu"]:
        p["q.max_send_udp"] = 1200  # a static send size above the path MTU without PMTUD is a misconfigured peer, not a scenario
    if role == "s2n-client" and p["q.cid_len"] == 0:
        p["q.cid_len"] = 4          # zero-length connection ids are only sampled for the quiche CLIENT (as the in-tree test does)
    return {k: v for k, v in p.items() if not (isinstance(v, int) and v == 0 and k not in ("size", "bidi", "uni", "suni"))}


FAMILIES = {"interop": fam_interop}      # same shape as e2e_props.FAMILIES (generator: (rng, i) -> params); runner = run_many above


def fixed_scenarios():
    """scenarios that are part of every tier (regressions / findings reproduced on each run)"""
    return [
        # s2n-quic with a small max_mtu against a peer whose static send size is larger (no PMTUD): s2n-quic never
        # declares max_udp_payload_size, the peer is entitled to its 1472-byte datagrams, s2n-quic discards them
        {"role": "s2n-server", "seed": 876889137761, "delay_ms": 20, "bidi": 2, "uni": 1, "suni": 1, "size": 30000, "chunk": 3000,
         "max_mtu": 1350, "q.max_send_udp": 1472, "q.max_idle_ms": 8000, "s.max_idle_ms": 8000, "deadline_ms": 60000},
    ]


# ---------------------------------------------------------------------------------------
# oracle
# ---------------------------------------------------------------------------------------

S2N_EP = {"s2n-server": "s", "s2n-client": "c"}
CLOSE_RE = re.compile(r"error: (\w+)")
TRANSPORT_RE = re.compile(r"error: Transport \{ code: [^0-9]*(\d+)")
INITIATOR_RE = re.compile(r"initiator: (\w+)")


def closed_fields(tr):
    """quiche's `closed` line -> dict (or None)"""
    c = tr.peer_of("closed")
    if not c:
        return None
    d = {}
    for tok in c[-1][2]:
        k, _, v = tok.partition("=")
        d[k] = v
    return d


def stream_totals(lines_write, lines_finish):
    tot = {}
    for sid, off, ln in lines_write:
        tot[sid] = max(tot.get(sid, 0), off + ln)
    for sid, total in lines_finish:
        tot.setdefault(sid, total)
    return tot


def o_c07(tr):
    """handshake completes on both sides; no transport error on either side; every byte verified on both sides and
    complete at clean EOF; the run terminates"""
    bad = []
    role = tr.params.get("role", "s2n-server")
    ep = S2N_EP[role]
    if tr.end is None:
        return [("e2e:c07:hang", "scenario produced no end record")]
    t_end, status, msg = tr.end
    if status == "setup-error":
        return [("e2e:c07:setup-error", f"harness could not set the scenario up: {msg[:300]}")]
    if status == "crashed":
        return [("e2e:c07:crash", f"harness process died: {msg[:300]}")]
    if status == "wallclock-timeout" and tr.clock is None:
        return [("e2e:c07:hang", "harness process produced no trace within the wall-clock limit")]
    if tr.clock != "virtual=ok":
        return [("e2e:c07:setup-error", f"virtual clock self-test: {tr.clock}")]
    hang = None
    if status == "panic" or tr.panics:
        bad.append(("e2e:c07:panic", f"{status} {msg[:200]} {tr.panics[:1]}"))
    elif status != "ok":
        hang = ("e2e:c07:hang", f"scenario did not terminate: {status} {msg[:200]}")
    apps = [r for r in tr.of("app") if r.ep == ep]
    # --- handshake ------------------------------------------------------------------------
    s2n_hs = any(r.what in ("connected", "accepted") for r in apps)
    q_hs = bool(tr.peer_of("established"))
    if not (s2n_hs and q_hs):
        errs = [" ".join(r.args)[:160] for r in apps if r.what == "err"][:2] + [p[3][:160] for p in tr.peer_of("err")][:2]
        bad.append((f"e2e:c07:handshake-failed:{role}",
                    f"handshake complete on s2n-quic={s2n_hs} quiche={q_hs}; errors: {errs}; quiche closed: {closed_fields(tr)}"))
    # --- transport errors -----------------------------------------------------------------
    cf = closed_fields(tr)
    if cf:
        for who, key in (("quiche-local", "local_error"), ("quiche-peer", "peer_error")):
            v = cf.get(key, "none")
            if v.startswith("transport:"):
                code = int(v.split(":")[1])
                if code != 0:
                    reason = bytes.fromhex(v.split(":")[2]).decode("utf-8", "replace") if len(v.split(":")) > 2 and v.split(":")[2] != "-" else ""
                    bad.append((f"e2e:c07:transport-error:{who}:{code:#x}",
                                f"quiche {key} is transport error {code:#x} ({reason!r}) in role {role}"))
    for r in tr.of("ev"):
        if r.name == "connectivity:connection_closed":
            m = TRANSPORT_RE.search(r.text)
            if m and int(m.group(1)) != 0:
                ini = INITIATOR_RE.search(r.text)
                who = "s2n-local" if ini and ini.group(1) == "Local" else "s2n-remote"
                bad.append((f"e2e:c07:transport-error:{who}:{int(m.group(1)):#x}", f"s2n-quic connection_closed: {r.text[:240]}"))
            else:
                k = CLOSE_RE.search(r.text)
                if k and k.group(1) not in ("Closed", "Application", "IdleTimerExpired", "Transport"):
                    # ImmediateClose / NoValidPath / MaxHandshakeDurationExceeded / … : not a transport error code, but
                    # the connection did not end the way the scenario ends it
                    bad.append((f"e2e:c07:abnormal-close:{k.group(1)}", f"s2n-quic connection_closed: {r.text[:240]}"))
    # --- bytes ----------------------------------------------------------------------------
    for r in apps:
        if r.what == "read" and r.args[3] != "ok":
            bad.append(("e2e:c07:wrong-bytes", f"s2n-quic application read wrong bytes on stream {r.args[0]} at {r.args[4:]} (offset {r.args[1]})"))
            break
    for p in tr.peer_of("read"):
        if p[2][3] != "ok":
            bad.append(("e2e:c07:wrong-bytes", f"quiche application read wrong bytes on stream {p[2][0]} at {p[2][4:]} (offset {p[2][1]})"))
            break
    # totals written by each side (bytes accepted by the stack's send API)
    s_w = stream_totals([(int(r.args[0]), int(r.args[1]), int(r.args[2])) for r in apps if r.what == "write"],
                        [(int(r.args[0]), int(r.args[1])) for r in apps if r.what == "finish"])
    q_w = stream_totals([(int(p[2][0]), int(p[2][1]), int(p[2][2])) for p in tr.peer_of("write")],
                        [(int(p[2][0]), int(p[2][1])) for p in tr.peer_of("finish")])
    s_fin = {int(r.args[0]): int(r.args[1]) for r in apps if r.what == "finish"}
    q_fin = {int(p[2][0]): int(p[2][1]) for p in tr.peer_of("finish")}
    s_eof = {int(r.args[0]): int(r.args[1]) for r in apps if r.what == "eof"}
    q_eof = {int(p[2][0]): int(p[2][1]) for p in tr.peer_of("eof")}
    # a clean EOF must come after exactly the bytes the other side wrote before finishing
    for sid, total in sorted(s_eof.items()):
        want = q_fin.get(sid, q_w.get(sid))
        if want is None or want != total:
            bad.append(("e2e:c07:eof-incomplete", f"s2n-quic saw EOF on stream {sid} after {total} bytes, quiche wrote {want}"))
            break
    for sid, total in sorted(q_eof.items()):
        # s2n `finish` is logged once the FIN is acknowledged; EOF at quiche may precede it: use the bytes written
        want = s_fin.get(sid, s_w.get(sid, 0 if any(r.what == "open" and int(r.args[0]) == sid for r in apps) else None))
        if want is None or want != total:
            bad.append(("e2e:c07:eof-incomplete", f"quiche saw EOF on stream {sid} after {total} bytes, s2n-quic wrote {want}"))
            break
    # completeness: when nothing else went wrong, every planned stream reached its clean EOF on the reading side
    if not bad:
        nb, nu, ns = int(tr.params.get("bidi", 1)), int(tr.params.get("uni", 0)), int(tr.params.get("suni", 0))
        s2n_reads = nb + (nu if role == "s2n-server" else ns)
        q_reads = nb + (ns if role == "s2n-server" else nu)
        if len(s_eof) != s2n_reads or len(q_eof) != q_reads:
            over = oversize_for_s2n(tr)
            if over:        # explains both an idle timeout and a crawl into the deadline
                n_over, limit, declared = over
                bad.append(("e2e:c07:undeclared-max-udp-payload-size",
                            f"s2n-quic (max_mtu={limit + 28}) discards UDP payloads above {limit} bytes but declared max_udp_payload_size={declared} "
                            f"(parameter 0x03 {'absent' if declared == 65527 else 'present'}); quiche sent {n_over} larger datagrams that were delivered and never "
                            f"processed; transfer incomplete: s2n-quic EOF on {len(s_eof)}/{s2n_reads} streams, quiche on {len(q_eof)}/{q_reads}; quiche closed: {cf}"))
                return bad
            bad.append(("e2e:c07:eof-incomplete",
                        f"transfer incomplete at the end of the run: s2n-quic reached EOF on {len(s_eof)}/{s2n_reads} streams, "
                        f"quiche on {len(q_eof)}/{q_reads}; quiche closed: {cf}"))
    if hang:
        bad.append(hang)
    return bad


def oversize_for_s2n(tr):
    """datagrams quiche sent (and the network delivered) that are larger than what the s2n-quic endpoint can receive
    (its max_mtu minus IPv4+UDP headers) although within the max_udp_payload_size it declared -> (count, limit, declared)"""
    wires = tr.of("wire")
    if not wires:
        return None
    role = tr.params.get("role", "s2n-server")
    quiche_addr = wires[0].src if role == "s2n-server" else wires[0].dst
    limit = int(tr.params.get("max_mtu", 0) or 1500) - 28
    declared = 65527
    try:
        _, sb, _ = tp_blocks(tr)
        if sb is not None:
            declared = qp.parse_tp_block(sb).get("max_udp_payload_size", 65527)
    except Exception:
        pass
    n = sum(1 for w in wires if w.src == quiche_addr and w.action in ("deliver", "dup") and limit < w.len <= declared)
    return (n, limit, declared) if n else None


def summarize(tr):
    role = tr.params.get("role", "s2n-server")
    ep = S2N_EP[role]
    apps = [r for r in tr.of("app") if r.ep == ep]
    wires = tr.of("wire")
    return {
        "params": tr.params,
        "end": tr.end[1] if tr.end else None,
        "virtual_ms": (tr.end[0] // 1000) if tr.end else None,
        "s2n_bytes_read": sum(int(r.args[2]) for r in apps if r.what == "read"),
        "quiche_bytes_read": sum(int(p[2][2]) for p in tr.peer_of("read")),
        "datagrams": len(wires),
        "faults": sum(1 for w in wires if w.action not in ("deliver",)),
        "s2n_packets_rx": sum(1 for r in tr.recs if r.kind == "rxp"),
        "s2n_packets_tx": sum(1 for r in tr.recs if r.kind == "txp"),
        "quiche_closed": closed_fields(tr),
    }


# ---------------------------------------------------------------------------------------
# Lean cross-parse
# ---------------------------------------------------------------------------------------

def hexs(b):
    return b.hex() if b else "-"


def impl_to_rfc(line):
    """python twin of Lean `Codec.Frame.toRfc` on the harness' rendering: what the value the REAL s2n decoder produced
    means in RFC terms, in `Rfc.Frame.render` syntax. Returns (text, is_padding_run) or (None, False) for extension frames."""
    body = line
    if body.startswith("PADDING len="):
        return "PADDING", True
    if body.startswith("ACK "):
        m = re.fullmatch(r"ACK delay=(\d+) ranges=(\S+) ecn=(\S+)", body)
        if not m:
            return None, False
        ranges = m.group(2)
        largest = 0 if ranges == "-" else int(ranges.split(",")[0].split("-")[1])
        return f"ACK largest={largest} delay={m.group(1)} ranges={ranges} ecn={m.group(3)}", False
    if body.startswith("STREAM "):
        return re.sub(r" last=[01]", "", body, count=1), False
    if body.startswith("DATAGRAM "):
        return re.sub(r" last=[01]", "", body, count=1), False
    if body.startswith("CONNECTION_CLOSE "):
        return re.sub(r"reason=none$", "reason=-", body), False
    if body.startswith("DC_STATELESS_RESET_TOKENS") or body.startswith("MTU_PROBING_COMPLETE"):
        return None, False
    return body, False


DEC_RE = re.compile(r"ok (.*) consumed=(\d+) enc=\S+ size=\d+$")


def cross_parse_frames(payloads, vh_core=None, driver=None, max_rounds=4000):
    """payloads: list of (tag, bytes). Every payload is decoded frame by frame by the REAL s2n-quic decoder
    (vh-core `frame dec`) and by the Lean RFC reference (`frame-rfc dec`) on the same remaining bytes.
    Returns (frames compared, [(tag, offset, message)])."""
    vh_core = vh_core or harness_bin("vh-core")
    driver = driver or DRIVER
    uniq = {}
    for tag, b in payloads:
        uniq.setdefault(bytes(b), tag)
    work = [(tag, b, 0) for b, tag in uniq.items() if b]
    bad = []
    compared = 0
    rounds = 0
    while work and rounds < max_rounds:
        rounds += 1
        ops = ["dec " + b[off:].hex() for _, b, off in work]
        rc, r_out, r_err = run_lines([vh_core, "frame"], ops)
        if rc != 0 or len(r_out) != len(ops):
            raise RuntimeError(f"vh-core frame failed rc={rc}: {r_err[-500:]}")
        rc, l_out, l_err = run_lines([driver, "frame-rfc"], ops)
        if rc != 0 or len(l_out) != len(ops):
            raise RuntimeError(f"lean driver frame-rfc failed rc={rc}: {l_err[-500:]}")
        nxt = []
        for (tag, b, off), a, l in zip(work, r_out, l_out):
            compared += 1
            m = DEC_RE.match(a)
            if not m:
                # the real decoder rejects: the reference must reject as well
                if l.startswith("ok"):
                    bad.append((tag, off, f"s2n-quic decoder: {a[:80]}; Lean RFC parser: {l[:120]}; bytes {b[off:off + 24].hex()}"))
                elif not a.startswith("err"):
                    bad.append((tag, off, f"s2n-quic decoder answered {a[:120]}"))
                continue
            want, pad = impl_to_rfc(m.group(1))
            consumed = int(m.group(2))
            if want is None:
                bad.append((tag, off, f"s2n-quic decoded an extension frame from/for a peer that never negotiated it: {m.group(1)[:80]}"))
                continue
            expect = f"ok {want} consumed={1 if pad else consumed}"
            if l != expect or (pad and any(b[off:off + consumed])):
                bad.append((tag, off, f"s2n-quic decoder: {m.group(1)[:100]} consumed={consumed}; Lean RFC parser: {l[:140]}"))
                continue
            if off + consumed < len(b):
                nxt.append((tag, b, off + consumed))
        work = nxt
    if work:
        bad.append((work[0][0], work[0][2], "frame loop did not finish"))
    return compared, bad


def crypto_stream(recs):
    """contiguous prefix of a CRYPTO stream reassembled from the CRYPTO frames of the given packets"""
    segs = {}
    for r in recs:
        for f in r.frames:
            if f.get("type") == "CRYPTO":
                segs[f["offset"]] = max(segs.get(f["offset"], b""), f["data"], key=len)
    out = b""
    progress = True
    while progress:
        progress = False
        for off, d in segs.items():
            if off <= len(out) < off + len(d):
                out += d[len(out) - off:]
                progress = True
    return out


def tls_tp_block(stream):
    """raw bytes of the quic_transport_parameters extension (0x39) of the ClientHello / EncryptedExtensions in a
    CRYPTO stream (RFC 8446 §4.1.2 / §4.3.1; same walk as quicparse.tls_transport_params) or None"""
    i = 0
    try:
        while i + 4 <= len(stream):
            ty = stream[i]
            ln = int.from_bytes(stream[i + 1:i + 4], "big")
            body = stream[i + 4:i + 4 + ln]
            if len(body) < ln:
                return None
            i += 4 + ln
            if ty == 1:      # ClientHello
                j = 2 + 32
                j += 1 + body[j]
                j += 2 + int.from_bytes(body[j:j + 2], "big")
                j += 1 + body[j]
            elif ty == 8:    # EncryptedExtensions
                j = 0
            else:
                continue
            el = int.from_bytes(body[j:j + 2], "big")
            j += 2
            end = j + el
            while j + 4 <= end:
                et = int.from_bytes(body[j:j + 2], "big")
                ln2 = int.from_bytes(body[j + 2:j + 4], "big")
                if et == 0x39:
                    return bytes(body[j + 4:j + 4 + ln2])
                j += 4 + ln2
    except IndexError:
        return None
    return None


def tp_blocks(tr):
    """(quiche's block as s2n-quic received it, s2n-quic's block as it sent it, sender role of quiche)"""
    role = tr.params.get("role", "s2n-server")
    space = "initial" if role == "s2n-server" else "handshake"      # quiche's ClientHello / EncryptedExtensions
    rx = [r for r in tr.recs if r.kind == "rxp" and r.space == space]
    my_space = "handshake" if role == "s2n-server" else "initial"   # s2n's EncryptedExtensions / ClientHello
    tx = [r for r in tr.recs if r.kind == "txp" and r.space == my_space]
    q_role = "client" if role == "s2n-server" else "server"
    return tls_tp_block(crypto_stream(rx)), tls_tp_block(crypto_stream(tx)), q_role


KV_RE = re.compile(r"(\w+)=(\S+)")
# quiche Config knob -> transport parameter it declares
Q_DECLARED = {"q.data_window": ("initial_max_data", 1000000), "q.bidi_local": ("initial_max_stream_data_bidi_local", 200000),
              "q.bidi_remote": ("initial_max_stream_data_bidi_remote", 200000), "q.uni": ("initial_max_stream_data_uni", 200000),
              "q.max_bidi": ("initial_max_streams_bidi", 100), "q.max_uni": ("initial_max_streams_uni", 100),
              "q.max_idle_ms": ("max_idle_timeout", 30000), "q.max_ack_delay_ms": ("max_ack_delay", 25),
              "q.ack_delay_exp": ("ack_delay_exponent", 3), "q.max_recv_udp": ("max_udp_payload_size", 65527),
              "q.active_cid_limit": ("active_connection_id_limit", 2)}
# s2n-quic limit -> transport parameter it declares (only those the scenario sets explicitly)
S_DECLARED = {"s.data_window": "initial_max_data", "s.bidi_local": "initial_max_stream_data_bidi_local",
              "s.bidi_remote": "initial_max_stream_data_bidi_remote", "s.uni": "initial_max_stream_data_uni",
              "s.max_bidi_remote": "initial_max_streams_bidi", "s.max_uni_remote": "initial_max_streams_uni",
              "s.max_idle_ms": "max_idle_timeout", "s.max_ack_delay_ms": "max_ack_delay"}
# python RFC names -> field names in quiche's Debug rendering of TransportParams
QUICHE_VIEW = {"initial_max_data": "initial_max_data", "initial_max_stream_data_bidi_local": "initial_max_stream_data_bidi_local",
               "initial_max_stream_data_bidi_remote": "initial_max_stream_data_bidi_remote",
               "initial_max_stream_data_uni": "initial_max_stream_data_uni", "initial_max_streams_bidi": "initial_max_streams_bidi",
               "initial_max_streams_uni": "initial_max_streams_uni", "max_idle_timeout": "max_idle_timeout",
               "max_ack_delay": "max_ack_delay", "ack_delay_exponent": "ack_delay_exponent",
               "max_udp_payload_size": "max_udp_payload_size", "active_connection_id_limit": "active_conn_id_limit"}
INT_FIELDS = ["max_idle_timeout", "max_udp_payload_size", "initial_max_data", "initial_max_stream_data_bidi_local",
              "initial_max_stream_data_bidi_remote", "initial_max_stream_data_uni", "initial_max_streams_bidi",
              "initial_max_streams_uni", "ack_delay_exponent", "max_ack_delay", "active_connection_id_limit"]


def cross_parse_tp(tr, vh_core=None, driver=None):
    """returns (number of checks, [message]) for one trace"""
    return cross_parse_tp_many([tr], vh_core, driver)[0]


INT_IDS = {0x01, 0x03, 0x04, 0x05, 0x06, 0x07, 0x08, 0x09, 0x0a, 0x0b, 0x0e}


def tp_items(b):
    out = []
    i = 0
    while i < len(b):
        j = i
        pid, i = qp.varint(b, i)
        ln, i = qp.varint(b, i)
        _, i = qp.take(b, i, ln)
        out.append((pid, bytes(b[j:i])))
    return out


def tp_variants(b):
    """the peer's block with ONE integer parameter left out (the RFC default then applies): still a block a conforming
    peer may send; exercises the defaults that quiche itself never relies on (it always sends every parameter)"""
    try:
        items = tp_items(b)
    except (qp.ParseError, IndexError):
        return []
    return [(pid, b"".join(x for k, (_, x) in enumerate(items) if k != idx)) for idx, (pid, _) in enumerate(items) if pid in INT_IDS]


def cross_parse_tp_many(traces, vh_core=None, driver=None):
    """[(number of checks, [message])] per trace; the decoders are run once for all traces"""
    vh_core = vh_core or harness_bin("vh-core")
    driver = driver or DRIVER
    blocks = [tp_blocks(tr) for tr in traces]
    q_ops = [f"dec {q_role} {hexs(qb)}" for qb, sb, q_role in blocks if qb is not None]
    for qb, sb, q_role in blocks:
        if qb is not None:
            q_ops += [f"dec {q_role} {hexs(v)}" for _, v in tp_variants(qb)]
    s_ops = [f"dec {'server' if q_role == 'client' else 'client'} {hexs(sb)}" for qb, sb, q_role in blocks if sb is not None]
    real = model = rfc = rfc_s = []
    if q_ops:
        _, real, _ = run_lines([vh_core, "tp"], q_ops)
        _, model, _ = run_lines([driver, "tp"], q_ops)
    if q_ops or s_ops:
        _, both, _ = run_lines([driver, "tp-rfc"], q_ops + s_ops)
        rfc, rfc_s = both[:len(q_ops)], both[len(q_ops):]
    q_res = dict(zip(q_ops, zip(real + ["?"] * len(q_ops), model + ["?"] * len(q_ops), rfc + ["?"] * len(q_ops))))
    s_res = dict(zip(s_ops, rfc_s + ["?"] * len(s_ops)))
    return [_tp_judge(tr, blk, q_res, s_res) for tr, blk in zip(traces, blocks)]


def _tp_judge(tr, blk, q_res, s_res):
    qb, sb, q_role = blk
    s_role = "server" if q_role == "client" else "client"
    bad = []
    n = 0
    if qb is None:
        if tr.peer_of("established"):
            bad.append("quiche's transport parameter extension not found in the CRYPTO frames s2n-quic processed although the handshake completed")
        return n, bad
    real, model, rfc = q_res.get(f"dec {q_role} {hexs(qb)}", ("?", "?", "?"))
    n += 3
    if not rfc.startswith("ok"):
        bad.append(f"Lean Rfc.TransportParams rejects quiche's {q_role} block {hexs(qb)}: {rfc}")
    if not real.startswith("ok"):
        bad.append(f"s2n-quic's decoder rejects quiche's {q_role} block {hexs(qb)}: {real}")
    if real != model:
        bad.append(f"Lean model of the decoder and the real decoder differ on quiche's block: {real[:200]} vs {model[:200]}")
    if real.startswith("ok"):
        got = dict(KV_RE.findall(real))
        try:
            py = qp.parse_tp_block(qb)
        except qp.ParseError as e:
            py = None
            bad.append(f"python RFC parser rejects quiche's block: {e}")
        if py:
            for k in INT_FIELDS:
                n += 1
                if str(py.get(k)) != got.get(k):
                    bad.append(f"quiche's {k}: s2n-quic decoded {got.get(k)}, the RFC reading of the same bytes is {py.get(k)}")
            if bool(py.get("disable_active_migration")) != (got.get("migration_support") == "disabled"):
                bad.append(f"quiche's disable_active_migration: s2n-quic decoded migration_support={got.get('migration_support')}")
            for k in ("initial_source_connection_id", "original_destination_connection_id", "stateless_reset_token"):
                if k in py and got.get(k) not in (py[k] or "-", ):
                    bad.append(f"quiche's {k}: s2n-quic decoded {got.get(k)}, RFC reading {py[k] or '-'}")
        # what quiche was configured to declare is what s2n-quic understood
        for knob, (field, default) in Q_DECLARED.items():
            v = int(tr.params.get(knob, 0)) or default
            n += 1
            if got.get(field) != str(v):
                bad.append(f"quiche was configured with {knob}={v} but s2n-quic decoded {field}={got.get(field)}")
    # the same block with one integer parameter left out: the RFC default must be what s2n-quic assumes
    for pid, v in tp_variants(qb):
        real, model, rfc = q_res.get(f"dec {q_role} {hexs(v)}", ("?", "?", "?"))
        n += 1
        name = qp.TP_NAMES.get(pid, hex(pid))
        if not (rfc.startswith("ok") and real.startswith("ok")):
            bad.append(f"quiche's block without {name}: Lean RFC table {rfc[:20]}, real decoder {real[:60]}")
            continue
        got = dict(KV_RE.findall(real))
        py = qp.parse_tp_block(v)
        for k in INT_FIELDS:
            if str(py.get(k)) != got.get(k):
                bad.append(f"quiche's block without {name}: s2n-quic assumes {k}={got.get(k)}, RFC 9000 §18.2 says {py.get(k)}")
        if real != model:
            bad.append(f"quiche's block without {name}: real decoder and Lean model differ: {real[:120]} vs {model[:120]}")
    # s2n-quic's own block: the RFC table must accept it, and quiche's reading must be the RFC reading
    if sb is not None:
        rfc = s_res.get(f"dec {s_role} {hexs(sb)}", "?")
        n += 1
        if not rfc.startswith("ok"):
            bad.append(f"Lean Rfc.TransportParams rejects the {s_role} block s2n-quic sent: {hexs(sb)}")
        try:
            py = qp.parse_tp_block(sb)
        except qp.ParseError as e:
            py = None
            bad.append(f"python RFC parser rejects s2n-quic's block: {e}")
        est = tr.peer_of("established")
        if py and est:
            view = dict(re.findall(r"(\w+): (\d+)", est[-1][3]))
            for k, qk in QUICHE_VIEW.items():
                n += 1
                if qk in view and str(py.get(k)) != view[qk]:
                    bad.append(f"s2n-quic's {k}: quiche decoded {view[qk]}, the RFC reading of the bytes s2n-quic sent is {py.get(k)}")
            for knob, field in S_DECLARED.items():
                if knob in tr.params and int(tr.params[knob]) > 0:
                    n += 1
                    want = int(tr.params[knob])
                    if py.get(field) != want:
                        bad.append(f"s2n-quic was configured with {knob}={want} but its block declares {field}={py.get(field)}")
    elif tr.peer_of("established"):
        bad.append("s2n-quic's transport parameter extension not found in the CRYPTO frames it sent")
    return n, bad
