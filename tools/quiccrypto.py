"""Independent reference for QUIC 1-RTT packet protection keys (RFC 9001 §5.1, §5.3, §5.4, §6.1) in pure python:
HKDF-Expand-Label (RFC 8446 §7.1) over hashlib/hmac, AES (FIPS 197), GCM (SP 800-38D), ChaCha20-Poly1305 (RFC 8439).

Nothing here is shared with /repo, s2n-tls, rustls or aws-lc; `selftest()` checks the primitives against published
vectors (FIPS 197 C.1/C.3, the GCM specification's test cases 1-4 and 13-16, RFC 8439 §2.8.2, RFC 9001 A.1/A.3/A.5)."""
import hashlib
import hmac
import struct

# ------------------------------------------------------------------------------------------------
# HKDF
# ------------------------------------------------------------------------------------------------


def hkdf_extract(hash_name, salt, ikm):
    return hmac.new(salt, ikm, hash_name).digest()


def hkdf_expand(hash_name, prk, info, length):
    out = b""
    t = b""
    i = 1
    while len(out) < length:
        t = hmac.new(prk, t + info + bytes([i]), hash_name).digest()
        out += t
        i += 1
    return out[:length]


def hkdf_expand_label(hash_name, secret, label, context, length):
    """RFC 8446 §7.1: HkdfLabel = uint16 length || opaque label<7..255> = "tls13 " + Label || opaque context<0..255>"""
    full = b"tls13 " + label
    info = struct.pack(">H", length) + bytes([len(full)]) + full + bytes([len(context)]) + context
    return hkdf_expand(hash_name, secret, info, length)


# ------------------------------------------------------------------------------------------------
# AES (encryption direction only; GCM and header protection need nothing else)
# ------------------------------------------------------------------------------------------------

def _xtime(a):
    a <<= 1
    return (a ^ 0x11b) & 0xff if a & 0x100 else a


def _make_sbox():
    # multiplicative inverse in GF(2^8) via log tables on generator 3, then the affine map
    exp = [0] * 255
    log = [0] * 256
    x = 1
    for i in range(255):
        exp[i] = x
        log[x] = i
        x ^= _xtime(x)          # x *= 3
    sbox = [0] * 256
    for a in range(256):
        inv = 0 if a == 0 else exp[(255 - log[a]) % 255]
        s = inv
        for k in range(1, 5):
            s ^= ((inv << k) | (inv >> (8 - k))) & 0xff
        sbox[a] = s ^ 0x63
    return sbox


_SBOX = _make_sbox()
_MUL2 = [_xtime(a) for a in range(256)]
_MUL3 = [_xtime(a) ^ a for a in range(256)]


class AES:
    def __init__(self, key):
        assert len(key) in (16, 32)
        nk = len(key) // 4
        self.rounds = nk + 6
        w = [list(key[4 * i:4 * i + 4]) for i in range(nk)]
        rcon = 1
        for i in range(nk, 4 * (self.rounds + 1)):
            t = list(w[i - 1])
            if i % nk == 0:
                t = t[1:] + t[:1]
                t = [_SBOX[b] for b in t]
                t[0] ^= rcon
                rcon = _xtime(rcon)
            elif nk > 6 and i % nk == 4:
                t = [_SBOX[b] for b in t]
            w.append([a ^ b for a, b in zip(w[i - nk], t)])
        self.rk = [sum(w[4 * r:4 * r + 4], []) for r in range(self.rounds + 1)]

    def encrypt_block(self, block):
        s = [b ^ k for b, k in zip(block, self.rk[0])]
        for r in range(1, self.rounds + 1):
            # SubBytes + ShiftRows (state is column-major: index = 4*col + row)
            t = [_SBOX[s[(4 * (c + row) + row) % 16]] for c in range(4) for row in range(4)]
            if r != self.rounds:
                u = []
                for c in range(4):
                    a0, a1, a2, a3 = t[4 * c:4 * c + 4]
                    u += [_MUL2[a0] ^ _MUL3[a1] ^ a2 ^ a3,
                          a0 ^ _MUL2[a1] ^ _MUL3[a2] ^ a3,
                          a0 ^ a1 ^ _MUL2[a2] ^ _MUL3[a3],
                          _MUL3[a0] ^ a1 ^ a2 ^ _MUL2[a3]]
                t = u
            s = [b ^ k for b, k in zip(t, self.rk[r])]
        return bytes(s)


# ------------------------------------------------------------------------------------------------
# GCM
# ------------------------------------------------------------------------------------------------

_R = 0xe1 << 120


def _gf_mul(x, y):
    z = 0
    v = y
    for i in range(127, -1, -1):
        if (x >> i) & 1:
            z ^= v
        v = (v >> 1) ^ _R if v & 1 else v >> 1
    return z


def _ghash(h, aad, ct):
    y = 0
    for data in (aad, ct):
        for i in range(0, len(data), 16):
            blk = data[i:i + 16]
            blk = blk + bytes(16 - len(blk))
            y = _gf_mul(y ^ int.from_bytes(blk, "big"), h)
    y = _gf_mul(y ^ ((len(aad) * 8) << 64 | (len(ct) * 8)), h)
    return y


class AesGcm:
    TAG = 16

    def __init__(self, key):
        self.aes = AES(key)
        self.h = int.from_bytes(self.aes.encrypt_block(bytes(16)), "big")

    def _ctr(self, nonce, data):
        out = bytearray()
        for i in range(0, len(data), 16):
            ks = self.aes.encrypt_block(nonce + struct.pack(">I", 2 + i // 16))
            out += bytes(a ^ b for a, b in zip(data[i:i + 16], ks))
        return bytes(out)

    def _tag(self, nonce, aad, ct):
        s = _ghash(self.h, aad, ct)
        e = int.from_bytes(self.aes.encrypt_block(nonce + b"\x00\x00\x00\x01"), "big")
        return (s ^ e).to_bytes(16, "big")

    def seal(self, nonce, aad, pt):
        assert len(nonce) == 12
        ct = self._ctr(nonce, pt)
        return ct + self._tag(nonce, aad, ct)

    def open(self, nonce, aad, data):
        if len(data) < 16:
            return None
        ct, tag = data[:-16], data[-16:]
        if not hmac.compare_digest(self._tag(nonce, aad, ct), tag):
            return None
        return self._ctr(nonce, ct)


# ------------------------------------------------------------------------------------------------
# ChaCha20-Poly1305
# ------------------------------------------------------------------------------------------------

def _rotl(v, n):
    return ((v << n) & 0xffffffff) | (v >> (32 - n))


def _qr(s, a, b, c, d):
    s[a] = (s[a] + s[b]) & 0xffffffff; s[d] = _rotl(s[d] ^ s[a], 16)
    s[c] = (s[c] + s[d]) & 0xffffffff; s[b] = _rotl(s[b] ^ s[c], 12)
    s[a] = (s[a] + s[b]) & 0xffffffff; s[d] = _rotl(s[d] ^ s[a], 8)
    s[c] = (s[c] + s[d]) & 0xffffffff; s[b] = _rotl(s[b] ^ s[c], 7)


def chacha20_block(key, counter, nonce):
    init = list(struct.unpack("<4I", b"expand 32-byte k")) + list(struct.unpack("<8I", key)) + [counter & 0xffffffff] + \
        list(struct.unpack("<3I", nonce))
    s = list(init)
    for _ in range(10):
        _qr(s, 0, 4, 8, 12); _qr(s, 1, 5, 9, 13); _qr(s, 2, 6, 10, 14); _qr(s, 3, 7, 11, 15)
        _qr(s, 0, 5, 10, 15); _qr(s, 1, 6, 11, 12); _qr(s, 2, 7, 8, 13); _qr(s, 3, 4, 9, 14)
    return struct.pack("<16I", *[(a + b) & 0xffffffff for a, b in zip(s, init)])


def chacha20_xor(key, counter, nonce, data):
    out = bytearray()
    for i in range(0, len(data), 64):
        ks = chacha20_block(key, counter + i // 64, nonce)
        out += bytes(a ^ b for a, b in zip(data[i:i + 64], ks))
    return bytes(out)


def poly1305(key, msg):
    r = int.from_bytes(key[:16], "little") & 0x0ffffffc0ffffffc0ffffffc0fffffff
    s = int.from_bytes(key[16:], "little")
    p = (1 << 130) - 5
    acc = 0
    for i in range(0, len(msg), 16):
        n = int.from_bytes(msg[i:i + 16] + b"\x01", "little")
        acc = (acc + n) * r % p
    return ((acc + s) & ((1 << 128) - 1)).to_bytes(16, "little")


def _pad16(b):
    return b"" if len(b) % 16 == 0 else bytes(16 - len(b) % 16)


class ChaCha20Poly1305:
    TAG = 16

    def __init__(self, key):
        assert len(key) == 32
        self.key = key

    def _tag(self, nonce, aad, ct):
        otk = chacha20_block(self.key, 0, nonce)[:32]
        mac = aad + _pad16(aad) + ct + _pad16(ct) + struct.pack("<QQ", len(aad), len(ct))
        return poly1305(otk, mac)

    def seal(self, nonce, aad, pt):
        ct = chacha20_xor(self.key, 1, nonce, pt)
        return ct + self._tag(nonce, aad, ct)

    def open(self, nonce, aad, data):
        if len(data) < 16:
            return None
        ct, tag = data[:-16], data[-16:]
        if not hmac.compare_digest(self._tag(nonce, aad, ct), tag):
            return None
        return chacha20_xor(self.key, 1, nonce, ct)


# ------------------------------------------------------------------------------------------------
# RFC 9001 key chain
# ------------------------------------------------------------------------------------------------

# suite -> (hash, AEAD key length, secret length)
SUITES = {
    "aes128": ("sha256", 16, 32),
    "aes256": ("sha384", 32, 48),
    "chacha20": ("sha256", 32, 32),
}

# RFC 9001 §6.6 / Appendix B: confidentiality and integrity limits (packets); ChaCha20-Poly1305's confidentiality
# limit "is greater than the number of possible packets (2^62) and so can be disregarded"
LIMITS = {
    "aes128": (2 ** 23, 2 ** 52),
    "aes256": (2 ** 23, 2 ** 52),
    "chacha20": (None, 2 ** 36),
}
TAG_LEN = 16


class PacketKey:
    """key, iv (and hp) derived from one traffic secret (RFC 9001 §5.1)"""

    def __init__(self, suite, secret):
        h, klen, slen = SUITES[suite]
        assert len(secret) == slen, (suite, len(secret))
        self.suite = suite
        self.secret = secret
        self.key = hkdf_expand_label(h, secret, b"quic key", b"", klen)
        self.iv = hkdf_expand_label(h, secret, b"quic iv", b"", 12)
        self.aead = ChaCha20Poly1305(self.key) if suite == "chacha20" else AesGcm(self.key)

    def nonce(self, pn):
        # §5.3: the 62 bits of the reconstructed packet number, left-padded with zeros to the size of the IV, XOR iv
        return bytes(a ^ b for a, b in zip(self.iv, pn.to_bytes(12, "big")))

    def seal(self, pn, header, payload):
        return self.aead.seal(self.nonce(pn), header, payload)

    def open(self, pn, header, data):
        return self.aead.open(self.nonce(pn), header, data)

    def next(self):
        """§6.1: secret_<n+1> = HKDF-Expand-Label(secret_<n>, "quic ku", "", Hash.length)"""
        h, _, slen = SUITES[self.suite]
        return PacketKey(self.suite, hkdf_expand_label(h, self.secret, b"quic ku", b"", slen))


def header_mask(suite, secret, sample):
    """§5.4: hp key from the ORIGINAL traffic secret (never updated, §6.1); 5 mask bytes"""
    h, klen, _ = SUITES[suite]
    hp = hkdf_expand_label(h, secret, b"quic hp", b"", klen)
    if suite == "chacha20":
        counter = int.from_bytes(sample[:4], "little")
        return chacha20_xor(hp, counter, sample[4:16], bytes(5))
    return AES(hp).encrypt_block(sample[:16])[:5]


def chain(suite, secret, n):
    """generations 0..n of the key chain rooted in a TLS application traffic secret"""
    out = [PacketKey(suite, secret)]
    for _ in range(n):
        out.append(out[-1].next())
    return out


# ------------------------------------------------------------------------------------------------
# published vectors
# ------------------------------------------------------------------------------------------------

def selftest():
    """returns a list of failed vector names (empty = all published vectors reproduced)"""
    bad = []
    hx = bytes.fromhex

    def chk(name, got, want):
        if got != want:
            bad.append(name)

    # FIPS 197 Appendix C.1 / C.3
    pt = hx("00112233445566778899aabbccddeeff")
    chk("fips197-c1", AES(hx("000102030405060708090a0b0c0d0e0f")).encrypt_block(pt), hx("69c4e0d86a7b0430d8cdb78070b4c55a"))
    chk("fips197-c3", AES(hx("000102030405060708090a0b0c0d0e0f101112131415161718191a1b1c1d1e1f")).encrypt_block(pt),
        hx("8ea2b7ca516745bfeafc49904b496089"))
    # GCM specification (McGrew/Viega) test cases 1, 2 (AES-128) and 13, 14 (AES-256)
    z12, z16 = bytes(12), bytes(16)
    chk("gcm-tc1", AesGcm(bytes(16)).seal(z12, b"", b""), hx("58e2fccefa7e3061367f1d57a4e7455a"))
    chk("gcm-tc2", AesGcm(bytes(16)).seal(z12, b"", z16), hx("0388dace60b6a392f328c2b971b2fe78ab6e47d42cec13bdf53a67b21257bddf"))
    chk("gcm-tc13", AesGcm(bytes(32)).seal(z12, b"", b""), hx("530f8afbc74536b9a963b4f1c4cb738b"))
    chk("gcm-tc14", AesGcm(bytes(32)).seal(z12, b"", z16), hx("cea7403d4d606b6e074ec5d3baf39d18d0d1c8a799996bf0265b98b5d48ab919"))
    # test case 4 (AES-128, AAD, partial last block)
    k = hx("feffe9928665731c6d6a8f9467308308")
    p = hx("d9313225f88406e5a55909c5aff5269a86a7a9531534f7da2e4c303d8a318a721c3c0c95956809532fcf0e2449a6b525b16aedf5aa0de657ba637b39")
    a = hx("feedfacedeadbeeffeedfacedeadbeefabaddad2")
    iv = hx("cafebabefacedbaddecaf888")
    chk("gcm-tc4", AesGcm(k).seal(iv, a, p),
        hx("42831ec2217774244b7221b784d0d49ce3aa212f2c02a4e035c17e2329aca12e21d514b25466931c7d8f6a5aac84aa051ba30b396a0aac973d58e091"
           "5bc94fbc3221a5db94fae95ae7121a47"))
    chk("gcm-tc4-open", AesGcm(k).open(iv, a, AesGcm(k).seal(iv, a, p)), p)
    # RFC 8439 §2.8.2
    k = hx("808182838485868788898a8b8c8d8e8f909192939495969798999a9b9c9d9e9f")
    p = b"Ladies and Gentlemen of the class of '99: If I could offer you only one tip for the future, sunscreen would be it."
    a = hx("50515253c0c1c2c3c4c5c6c7")
    n = hx("070000004041424344454647")
    got = ChaCha20Poly1305(k).seal(n, a, p)
    chk("rfc8439-2.8.2-tag", got[-16:], hx("1ae10b594f09e26a7e902ecbd0600691"))
    chk("rfc8439-2.8.2-ct", got[:16], hx("d31a8d34648e60db7b86afbc53ef7ec2"))
    chk("rfc8439-2.8.2-open", ChaCha20Poly1305(k).open(n, a, got), p)
    # RFC 9001 A.1: server initial secret -> key / iv / hp   (HKDF-Extract + Expand-Label, SHA-256, AES-128)
    initial_salt = hx("38762cf7f55934b34d179ae6a4c80cadccbb7f0a")
    initial = hkdf_extract("sha256", initial_salt, hx("8394c8f03e515708"))
    chk("rfc9001-a1-initial", initial, hx("7db5df06e7a69e432496adedb00851923595221596ae2ae9fb8115c1e9ed0a44"))
    server = hkdf_expand_label("sha256", initial, b"server in", b"", 32)
    chk("rfc9001-a1-server", server, hx("3c199828fd139efd216c155ad844cc81fb82fa8d7446fa7d78be803acdda951b"))
    pk = PacketKey("aes128", server)
    chk("rfc9001-a1-key", pk.key, hx("cf3a5331653c364c88f0f379b6067e37"))
    chk("rfc9001-a1-iv", pk.iv, hx("0ac1493ca1905853b0bba03e"))
    # RFC 9001 A.3: the server Initial packet (pn 1)
    hdr = hx("c1000000010008f067a5502a4262b50040750001")
    payload = hx("02000000000600405a020000560303eefce7f7b37ba1d1632e96677825ddf73988cfc79825df566dc5430b9a045a1200130100002e00330024"
                 "001d00209d3c940d89690b84d08a60993c144eca684d1081287c834d5311bcf32bb9da1a002b00020304")
    packet = hx("cf000000010008f067a5502a4262b5004075c0d95a482cd0991cd25b0aac406a5816b6394100f37a1c69797554780bb38cc5a99f5ede4cf73c3e"
                "c2493a1839b3dbcba3f6ea46c5b7684df3548e7ddeb9c3bf9c73cc3f3bded74b562bfb19fb84022f8ef4cdd93795d77d06edbb7aaf2f58891850"
                "abbdca3d20398c276456cbc42158407dd074ee")
    chk("rfc9001-a3-packet", pk.seal(1, hdr, payload), packet[len(hdr):])
    chk("rfc9001-a3-hp", header_mask("aes128", server, packet[len(hdr) + 2:len(hdr) + 18]), hx("2ec0d8356a"))
    # RFC 9001 A.5: ChaCha20-Poly1305 short header packet and the "quic ku" secret
    secret = hx("9ac312a7f877468ebe69422748ad00a15443f18203a07d6060f688f30f21632b")
    pk = PacketKey("chacha20", secret)
    chk("rfc9001-a5-key", pk.key, hx("c6d98ff3441c3fe1b2182094f69caa2ed4b716b65488960a7a984979fb23e1c8"))
    chk("rfc9001-a5-iv", pk.iv, hx("e0459b3474bdd0e44a41c144"))
    chk("rfc9001-a5-ku", pk.next().secret, hx("1223504755036d556342ee9361d253421a826c9ecdf3c7148684b36b714881f9"))
    chk("rfc9001-a5-packet", pk.seal(654360564, hx("4200bff4"), hx("01")), hx("655e5cd55c41f69080575d7999c25a5bfb"))
    chk("rfc9001-a5-hp", header_mask("chacha20", secret, hx("5e5cd55c41f69080575d7999c25a5bfb")), hx("aefefe7d03"))
    return bad


if __name__ == "__main__":
    import sys
    b = selftest()
    print("selftest:", "ok" if not b else "FAILED " + " ".join(b))
    sys.exit(1 if b else 0)
