"""Tie T for the idle timer (C02): converts the trace of ONE endpoint of a vh-e2e run into the op lines of the
Lean trace acceptor `idle-trace` (lean/QuicModel/Drivers/IdleTrace.lean).

ops in trace order:  cfg <idle_us> | rx <t> | tx <t> <ack_eliciting 0|1> |
                     metrics <t> <srtt_us> <rttvar_us> <max_ack_delay_us> <pto_count> | closed <t> <idle|other>
"""
import re

import quicparse as qp

MET = re.compile(r"smoothed_rtt: ([^,]+), latest_rtt: [^,]+, rtt_variance: ([^,]+), max_ack_delay: ([^,]+), pto_count: (\d+)")
UNIT_NS = {"ns": 1, "µs": 1000, "us": 1000, "ms": 1000000, "s": 1000000000}


def dur_whole_us(s):
    """exact value of a Rust `Duration` debug rendering, truncated to whole microseconds (`as_micros()`)"""
    m = re.fullmatch(r"(\d+)(?:\.(\d+))?(ns|µs|us|ms|s)", s.strip())
    if not m:
        return None
    whole, frac, unit = m.group(1), m.group(2) or "", m.group(3)
    scale = UNIT_NS[unit]
    ns = int(whole) * scale
    if frac:
        ns += int(frac) * scale // (10 ** len(frac))
    return ns // 1000


def idle_ms(tr):
    return min(int(tr.params.get("c.max_idle_ms", 30000)), int(tr.params.get("s.max_idle_ms", 30000)))


def ops_for(tr, ep):
    """op lines for endpoint `ep`, or None when its handshake never completed (no processed 1-RTT packet:
    the failure is then governed by max_handshake_duration, not by the idle timer)"""
    if not any(r.kind == "rxp" and r.ep == ep and r.space == "app" for r in tr.recs):
        return None
    ops = [f"cfg {idle_ms(tr) * 1000}"]
    for r in tr.recs:
        if r.kind == "rxp" and r.ep == ep:
            ops.append(f"rx {r.t}")
        elif r.kind == "txp" and r.ep == ep:
            ops.append(f"tx {r.t} {1 if qp.ack_eliciting(r.frames) else 0}")
        elif r.kind == "ev" and r.ep == ep:
            if r.name == "recovery:metrics_updated":
                m = MET.search(r.text)
                if m:
                    vals = [dur_whole_us(m.group(i)) for i in (1, 2, 3)]
                    if None not in vals:
                        ops.append(f"metrics {r.t} {vals[0]} {vals[1]} {vals[2]} {m.group(4)}")
            elif r.name == "connectivity:connection_closed":
                ops.append(f"closed {r.t} {'idle' if 'IdleTimerExpired' in r.text else 'other'}")
                break
    return ops
